//! C14: PSBT finalization yields a valid spend, atomically and idempotently.
//!
//! Real multi-input PSBTs are built from sane definite descriptors whose keys are BIP32
//! extended keys with origins (`[fp/48'/k']xpub/0/k`), signed with real keys over digests
//! computed by rust-bitcoin's `SighashCache` (and compared with `PsbtExt::sighash_msg`), and
//! driven through seeded random histories of update / add-signature / add-preimage /
//! finalize / finalize-single-input / extract operations.
//!
//! * `C psbtstep <setup> <history> <oracle>`: the abstract state after the last operation of the
//!   history; the Lean side replays the whole history on `Model/Psbt.lean` (the finalizer state
//!   machine).  The satisfier and the interpreter are PARAMETERS of the model: their values on
//!   the queried points are computed here WITHOUT the psbt module (descriptor satisfier with
//!   an independent `Satisfier`, `Interpreter::from_txdata`) and travel on the line (`<oracle>`).
//! * `J spend`: every finalized input / extracted transaction is verified by the Lean
//!   `verifySpend` against independently validated signatures (`register_valid_at`).
//! * `J idempotent / final-untouched / atomic / order-independent / update-consistent /
//!   sighash-agrees / mall-honoured`: verdicts computed here from the real PSBT bytes; the
//!   failing history is on the line.  `J nopanic psbt …`: adversarial PSBTs.
use std::collections::{BTreeMap, BTreeSet};
use std::panic::{catch_unwind, AssertUnwindSafe};
use std::str::FromStr;

use miniscript::bitcoin::bip32::{ChildNumber, DerivationPath, Fingerprint, Xpriv, Xpub};
use miniscript::bitcoin::hashes::{hash160, ripemd160, sha256, sha256d, Hash};
use miniscript::bitcoin::key::TapTweak;
use miniscript::bitcoin::psbt::{self, Psbt, PsbtSighashType};
use miniscript::bitcoin::secp256k1::{self, Message, Secp256k1, SecretKey, XOnlyPublicKey};
use miniscript::bitcoin::sighash::{EcdsaSighashType, Prevouts, SighashCache, TapSighashType};
use miniscript::bitcoin::taproot::{ControlBlock, LeafVersion, TapLeafHash};
use miniscript::bitcoin::{
    absolute, ecdsa, relative, taproot, transaction, Amount, Network, OutPoint, PublicKey,
    ScriptBuf, Sequence, Transaction, TxIn, TxOut, Witness,
};
use miniscript::descriptor::{DescriptorType, ShInner};
use miniscript::interpreter::Interpreter;
use miniscript::psbt::{PsbtExt, PsbtInputSatisfier};
use miniscript::{
    hash256, DefiniteDescriptorKey, Descriptor, ForEachKey, MiniscriptKey, Satisfier, ToPublicKey,
    TranslatePk, Translator,
};

use crate::ast::{self, hex, CtxK, HK};
use crate::common::{Out, Rng};
use crate::desc::{self, Wrap};

fn secp() -> &'static Secp256k1<secp256k1::All> {
    static S: std::sync::OnceLock<Secp256k1<secp256k1::All>> = std::sync::OnceLock::new();
    S.get_or_init(Secp256k1::new)
}

/* ------------------------------------------------------------------ key material */

pub const NKEYS: u32 = 18;
/// derivation index at which wildcard keys are made definite
const WILDCARD_INDEX: u32 = 7;

struct KeyInfo {
    text: String,
    /// the key expression after `into_single_descriptors` / `at_derivation_index` (= `text` unless
    /// the key is a wildcard or multipath key)
    derived_text: String,
    secret: SecretKey,
    public: PublicKey,
    /// the origin this harness EXPECTS to be recorded (constructed here, not read back)
    fp: Fingerprint,
    path: DerivationPath,
}

/// secret of the xpub-derived key `K<k>` (`m/48'/k'/0/(k+1)`)
fn key_secret_of_xpub(master: &Xpriv, k: u32) -> SecretKey {
    let path = vec![ChildNumber::from_hardened_idx(48).unwrap(), ChildNumber::from_hardened_idx(k).unwrap(),
        ChildNumber::from_normal_idx(0).unwrap(), ChildNumber::from_normal_idx(k + 1).unwrap()];
    master.derive_priv(secp(), &path).unwrap().private_key
}

fn key_table() -> &'static Vec<KeyInfo> {
    static T: std::sync::OnceLock<Vec<KeyInfo>> = std::sync::OnceLock::new();
    T.get_or_init(|| {
        let master = Xpriv::new_master(Network::Bitcoin, &[0x14u8; 32]).unwrap();
        let mfp = master.fingerprint(secp());
        (0..NKEYS).map(|k| {
            if k == 9 {
                // a single key without origin: the fingerprint is that of the key itself
                let sk = ast::secret(77);
                let pk = PublicKey::new(secp256k1::PublicKey::from_secret_key(secp(), &sk));
                let h = hash160::Hash::hash(&pk.to_bytes());
                let mut fp = [0u8; 4];
                fp.copy_from_slice(&h[0..4]);
                return KeyInfo { text: pk.to_string(), derived_text: pk.to_string(), secret: sk, public: pk, fp: Fingerprint::from(fp), path: DerivationPath::master() };
            }
            if k >= 15 {
                // UNCOMPRESSED twins of K0..K2 (the same curve point in the other encoding), no origin
                let sk = key_secret_of_xpub(&master, k - 15);
                let pk = PublicKey::new_uncompressed(secp256k1::PublicKey::from_secret_key(secp(), &sk));
                let h = hash160::Hash::hash(&pk.to_bytes());
                let mut fp = [0u8; 4];
                fp.copy_from_slice(&h[0..4]);
                return KeyInfo { text: pk.to_string(), derived_text: pk.to_string(), secret: sk, public: pk, fp: Fingerprint::from(fp), path: DerivationPath::master() };
            }
            if k >= 12 {
                // other extended-key shapes: K12 an xpub WITHOUT origin (fingerprint of the xpub itself,
                // path = the steps below it), K13 a WILDCARD key made definite at an index, K14 a
                // MULTIPATH wildcard key (second branch)
                let acct_path = vec![ChildNumber::from_hardened_idx(48).unwrap(), ChildNumber::from_hardened_idx(k).unwrap()];
                let acct = master.derive_priv(secp(), &acct_path).unwrap();
                let xpub = Xpub::from_priv(secp(), &acct);
                let branch = if k == 14 { 1 } else { 0 };
                let last = if k == 12 { 13 } else { WILDCARD_INDEX };
                let tail = vec![ChildNumber::from_normal_idx(branch).unwrap(), ChildNumber::from_normal_idx(last).unwrap()];
                let sk = acct.derive_priv(secp(), &tail).unwrap().private_key;
                let pk = PublicKey::new(secp256k1::PublicKey::from_secret_key(secp(), &sk));
                let (text, derived_text, fp, path) = match k {
                    12 => (format!("{}/0/13", xpub), format!("{}/0/13", xpub), xpub.fingerprint(), DerivationPath::from(tail.clone())),
                    13 => (format!("[{}/48'/13']{}/0/*", mfp, xpub), format!("[{}/48'/13']{}/0/{}", mfp, xpub, WILDCARD_INDEX), mfp,
                           DerivationPath::from([acct_path.clone(), tail.clone()].concat())),
                    _ => (format!("[{}/48'/14']{}/<0;1>/*", mfp, xpub), format!("[{}/48'/14']{}/1/{}", mfp, xpub, WILDCARD_INDEX), mfp,
                          DerivationPath::from([acct_path.clone(), tail.clone()].concat())),
                };
                return KeyInfo { text, derived_text, secret: sk, public: pk, fp, path };
            }
            if k >= 10 {
                // UNCOMPRESSED single keys with an explicit origin `[deadbeef/1'/k]04…` (legal in
                // pkh / sh / bare; never in segwit or taproot)
                let sk = ast::secret(60 + k);
                let pk = PublicKey::new_uncompressed(secp256k1::PublicKey::from_secret_key(secp(), &sk));
                let path = vec![ChildNumber::from_hardened_idx(1).unwrap(), ChildNumber::from_normal_idx(k).unwrap()];
                return KeyInfo { text: format!("[deadbeef/1'/{}]{}", k, pk), derived_text: format!("[deadbeef/1'/{}]{}", k, pk), secret: sk, public: pk,
                    fp: Fingerprint::from([0xde, 0xad, 0xbe, 0xef]), path: DerivationPath::from(path) };
            }
            let acct_path = vec![ChildNumber::from_hardened_idx(48).unwrap(), ChildNumber::from_hardened_idx(k).unwrap()];
            let acct = master.derive_priv(secp(), &acct_path).unwrap();
            let xpub = Xpub::from_priv(secp(), &acct);
            let tail = vec![ChildNumber::from_normal_idx(0).unwrap(), ChildNumber::from_normal_idx(k + 1).unwrap()];
            let leaf = acct.derive_priv(secp(), &tail).unwrap();
            let sk = leaf.private_key;
            let pk = PublicKey::new(secp256k1::PublicKey::from_secret_key(secp(), &sk));
            let mut full = acct_path.clone();
            full.extend(tail);
            KeyInfo {
                text: format!("[{}/48'/{}']{}/0/{}", mfp, k, xpub, k + 1),
                derived_text: format!("[{}/48'/{}']{}/0/{}", mfp, k, xpub, k + 1),
                secret: sk, public: pk, fp: mfp, path: DerivationPath::from(full),
            }
        }).collect()
    })
}
fn key(k: u32) -> &'static KeyInfo { &key_table()[k as usize] }
fn key_id(pk: &PublicKey) -> Option<u32> { (0..NKEYS).find(|k| key(*k).public == *pk) }
fn key_id_x(x: &XOnlyPublicKey) -> Option<u32> { (0..NKEYS).find(|k| key(*k).public.inner.x_only_public_key().0 == *x) }

/// hash atoms `H0..H15`: the first four are the ones used by the hand-written templates
fn hashes() -> &'static Vec<(HK, u32)> {
    static T: std::sync::OnceLock<Vec<(HK, u32)>> = std::sync::OnceLock::new();
    T.get_or_init(|| {
        let mut v = vec![(HK::Sha256, 0), (HK::Hash160, 1), (HK::Ripemd160, 2), (HK::Hash256, 3)];
        for k in HK::ALL { for h in 0..4 { if !v.contains(&(k, h)) { v.push((k, h)); } } }
        v
    })
}
pub const NHASHES: usize = 16;
fn hash_text(j: usize) -> String {
    let (kind, h) = hashes()[j];
    let v = ast::hash_value(kind, h);
    match kind {
        HK::Sha256 => sha256::Hash::from_slice(&v).unwrap().to_string(),
        HK::Hash256 => hash256::Hash::from_slice(&v).unwrap().to_string(),
        HK::Ripemd160 => ripemd160::Hash::from_slice(&v).unwrap().to_string(),
        HK::Hash160 => hash160::Hash::from_slice(&v).unwrap().to_string(),
    }
}

/* ------------------------------------------------------------------ descriptor specs */

#[derive(Clone, Copy, Debug, PartialEq, Eq)]
pub enum Kind { Pk, Pkh, Wpkh, ShWpkh, Wsh, ShWsh, Sh, Tr, Bare }
impl Kind {
    fn name(self) -> &'static str {
        match self { Kind::Pk => "pk", Kind::Pkh => "pkh", Kind::Wpkh => "wpkh", Kind::ShWpkh => "shwpkh", Kind::Wsh => "wsh", Kind::ShWsh => "shwsh", Kind::Sh => "sh", Kind::Tr => "tr", Kind::Bare => "bare" }
    }
    fn segwit(self) -> bool { !matches!(self, Kind::Pk | Kind::Pkh | Kind::Sh | Kind::Bare) }
}

#[derive(Clone)]
pub struct Spec {
    /// template text: keys `K0..K9`, hashes `H0..H3`
    tmpl: String,
    desc: Descriptor<DefiniteDescriptorKey>,
    derived: Descriptor<PublicKey>,
    kind: Kind,
    /// key ids in the descriptor (sorted, distinct)
    keys: Vec<u32>,
    /// hash indices (into HASHES) in the descriptor
    hashes: Vec<usize>,
    afters: Vec<u32>,
    olders: Vec<u32>,
    sane: bool,
    /// taproot: per leaf (in control-block order) the key ids it contains
    leaves: Vec<TapLeaf>,
}
#[derive(Clone)]
struct TapLeaf { script: ScriptBuf, cb: ControlBlock, hash: TapLeafHash, keys: Vec<u32> }

fn expand(tmpl: &str) -> String {
    // single pass: `K<n>` / `H<n>` are atoms only directly after `(`, `,` or `{` (xpub strings
    // may themselves contain "K4")
    let b: Vec<char> = tmpl.chars().collect();
    let mut out = String::new();
    let mut i = 0;
    while i < b.len() {
        let c = b[i];
        let at_start = i == 0 || matches!(b[i - 1], '(' | ',' | '{');
        if at_start && (c == 'K' || c == 'H') && i + 1 < b.len() && b[i + 1].is_ascii_digit() {
            let mut j = i + 1;
            while j < b.len() && b[j].is_ascii_digit() { j += 1; }
            let n: u32 = b[i + 1..j].iter().collect::<String>().parse().unwrap();
            if c == 'K' && n < NKEYS { out.push_str(&key(n).text); i = j; continue; }
            if c == 'H' && (n as usize) < NHASHES { out.push_str(&hash_text(n as usize)); i = j; continue; }
        }
        out.push(c);
        i += 1;
    }
    out
}
fn unexpand(text: &str) -> String {
    let mut s = text.to_string();
    if let Some(p) = s.find('#') { s.truncate(p); }
    for k in 0..NKEYS { s = s.replace(&key(k).text, &format!("K{}", k)); s = s.replace(&key(k).derived_text, &format!("K{}", k)); }
    // the printer uses `h` for hardened steps
    for k in 0..NKEYS { s = s.replace(&key(k).text.replace('\'', "h"), &format!("K{}", k)); s = s.replace(&key(k).derived_text.replace('\'', "h"), &format!("K{}", k)); }
    for j in 0..NHASHES { s = s.replace(&hash_text(j), &format!("H{}", j)); }
    s
}
fn scan_nums(t: &str, pat: &str) -> Vec<u32> {
    let mut v = vec![];
    let mut rest = t;
    while let Some(p) = rest.find(pat) {
        let tail = &rest[p + pat.len()..];
        let num: String = tail.chars().take_while(|c| c.is_ascii_digit()).collect();
        if let Ok(n) = num.parse() { v.push(n); }
        rest = tail;
    }
    v
}

fn contains_sub(hay: &[u8], needle: &[u8]) -> bool { hay.windows(needle.len()).any(|w| w == needle) }

fn spec_from_desc(desc: Descriptor<DefiniteDescriptorKey>, sane: bool) -> Option<Spec> {
    let derived = desc.derived_descriptor(secp());
    let kind = match derived.desc_type() {
        DescriptorType::Bare => { if derived.script_pubkey().is_p2pk() { Kind::Pk } else { Kind::Bare } }
        DescriptorType::Pkh => Kind::Pkh,
        DescriptorType::Wpkh => Kind::Wpkh,
        DescriptorType::ShWpkh => Kind::ShWpkh,
        DescriptorType::Wsh => Kind::Wsh,
        DescriptorType::ShWsh => Kind::ShWsh,
        DescriptorType::Sh => Kind::Sh,
        DescriptorType::Tr => Kind::Tr,
    };
    let tmpl = unexpand(&desc.to_string());
    let mut keys = BTreeSet::new();
    let mut all_known = true;
    derived.for_each_key(|pk| { match key_id(pk) { Some(k) => { keys.insert(k); } None => all_known = false }; true });
    if !all_known { return None; }
    let hashes: Vec<usize> = (0..NHASHES).filter(|j| tmpl.contains(&format!("H{})", j))).collect();
    let mut leaves = vec![];
    if let Descriptor::Tr(tr) = &derived {
        let info = tr.spend_info();
        for l in info.leaves() {
            let script = ScriptBuf::from(l.script());
            // independent of iter_pk: the x-only key bytes (or their hash160, for pkh) occur in the leaf script
            let ks: Vec<u32> = keys.iter().cloned().filter(|k| {
                let x = key(*k).public.inner.x_only_public_key().0.serialize();
                contains_sub(script.as_bytes(), &x) || contains_sub(script.as_bytes(), hash160::Hash::hash(&x).as_byte_array())
            }).collect();
            leaves.push(TapLeaf { script, cb: l.control_block().clone(), hash: l.leaf_hash(), keys: ks });
        }
        leaves.sort_by(|a, b| a.cb.cmp(&b.cb));
        leaves.dedup_by(|a, b| a.cb == b.cb);
    }
    Some(Spec {
        afters: scan_nums(&tmpl, "after("), olders: scan_nums(&tmpl, "older("),
        tmpl, desc, derived, kind, keys: keys.into_iter().collect(), hashes, sane, leaves,
    })
}

fn spec_from_tmpl(tmpl: &str) -> Option<Spec> {
    let text = expand(tmpl);
    // general route: a descriptor over DescriptorPublicKey (wildcards, multipath keys), split into its
    // single-path descriptors (the LAST branch is taken) and made definite at WILDCARD_INDEX
    let r = miniscript::Descriptor::<miniscript::DescriptorPublicKey>::from_str(&text).map_err(|e| e.to_string())
        .and_then(|d| d.into_single_descriptors().map_err(|e| e.to_string()))
        .and_then(|v| v.last().cloned().ok_or("no single descriptor".to_string()))
        .and_then(|d| d.at_derivation_index(WILDCARD_INDEX).map_err(|e| e.to_string()));
    match r {
        Ok(d) => spec_from_desc(d, true),
        Err(e) => { if std::env::var("C14_DEBUG").is_ok() { eprintln!("rejected {}: {}", tmpl, e); } None }
    }
}

/// non-sane (malleable) scripts, used only to tell `allow_mall = true` from `false`
fn spec_insane_wsh(ms_tmpl: &str) -> Option<Spec> {
    use miniscript::{Miniscript, Segwitv0};
    let ms = Miniscript::<DefiniteDescriptorKey, Segwitv0>::from_str_insane(&expand(ms_tmpl)).ok()?;
    let d = Descriptor::new_wsh(ms).ok()?;
    spec_from_desc(d, false)
}

/// sane = accepted by the default (sane) descriptor parser
fn is_sane(d: &Descriptor<DefiniteDescriptorKey>) -> bool { Descriptor::<DefiniteDescriptorKey>::from_str(&d.to_string()).is_ok() }

struct ToDefinite;
impl Translator<PublicKey> for ToDefinite {
    type TargetPk = DefiniteDescriptorKey;
    type Error = ();
    fn pk(&mut self, pk: &PublicKey) -> Result<DefiniteDescriptorKey, ()> {
        let id = crate::msops::key_id_full(pk).ok_or(())?;
        // uncompressed atoms 100..102 -> the uncompressed twins of K0..K2 (same point, other encoding)
        let id = if (100..103).contains(&id) { 15 + (id - 100) } else if id >= 100 { return Err(()) } else { id % 100 };
        if (10..15).contains(&id) { return Err(()); }
        DefiniteDescriptorKey::from_str(&key(id).text).map_err(|_| ())
    }
    fn sha256(&mut self, h: &sha256::Hash) -> Result<sha256::Hash, ()> { Ok(*h) }
    fn hash256(&mut self, h: &hash256::Hash) -> Result<hash256::Hash, ()> { Ok(*h) }
    fn ripemd160(&mut self, h: &ripemd160::Hash) -> Result<ripemd160::Hash, ()> { Ok(*h) }
    fn hash160(&mut self, h: &hash160::Hash) -> Result<hash160::Hash, ()> { Ok(*h) }
}

fn hash_index(kind: HK, v: &[u8]) -> Option<usize> {
    (0..NHASHES).find(|j| hashes()[*j].0 == kind && ast::hash_value(kind, hashes()[*j].1) == v)
}

const MS_POOL: &[&str] = &[
    "pk(K0)", "multi(2,K0,K1,K2)", "multi(1,K3,K4)", "sortedmulti(2,K3,K1,K2)",
    "and_v(v:pk(K0),sha256(H0))", "and_v(v:pk(K1),hash160(H1))", "and_v(v:pk(K2),ripemd160(H2))",
    "and_v(v:pk(K0),hash256(H3))", "or_d(pk(K0),and_v(v:pkh(K1),older(10)))",
    "andor(pk(K0),after(100),pk(K1))", "thresh(2,pk(K0),s:pk(K1),s:pk(K2))",
    "thresh(3,pk(K0),s:pk(K1),s:pk(K2),sln:older(12))",
    "and_v(v:pkh(K4),or_d(pk(K5),and_v(v:pk(K6),after(500000010))))",
    "or_i(and_v(v:pk(K0),older(3)),pk(K1))", "t:or_c(pk(K7),v:pkh(K8))",
    "and_v(or_c(pk(K0),v:sha256(H0)),pk(K1))", "multi(1,K9,K0)", "or_b(pk(K2),s:pk(K3))",
    "andor(pk(K0),and_v(v:pk(K1),sha256(H0)),and_v(v:pk(K2),hash160(H1)))",
];
const TR_POOL: &[&str] = &[
    "tr(K0)", "tr(K0,pk(K1))", "tr(K0,{pk(K1),pk(K2)})", "tr(K0,{pk(K1),and_v(v:pk(K2),sha256(H0))})",
    "tr(K0,multi_a(2,K1,K2,K3))", "tr(K0,{and_v(v:pk(K1),older(5)),{pk(K2),pkh(K3)}})",
    "tr(K4,{{pk(K5),pk(K6)},{pk(K7),and_v(v:pk(K8),after(100))}})", "tr(K9,pk(K0))",
    "tr(K1,{pk(K1),pk(K2)})", "tr(K0,and_v(v:pk(K1),hash160(H1)))",
    "tr(K0,{thresh(2,pk(K1),s:pk(K2),s:pk(K3)),pk(K4)})",
];
const MALL_POOL: &[&str] = &[
    "and_v(v:pk(K0),or_i(sha256(H0),hash160(H1)))",
    "and_v(v:pk(K0),or_b(sha256(H0),a:ripemd160(H2)))",
];

pub fn build_pool(rng: &mut Rng, thorough: bool) -> (Vec<Spec>, Vec<Spec>) {
    let mut pool = vec![];
    for t in ["pk(K0)", "pkh(K1)", "wpkh(K2)", "sh(wpkh(K3))", "wpkh(K9)", "pkh(K9)",
              // uncompressed keys
              "pk(K10)", "pkh(K10)", "pkh(K11)", "sh(multi(2,K10,K1,K11))", "sh(and_v(v:pk(K10),pk(K0)))", "sh(pkh(K11))",
              "sh(sortedmulti(1,K10,K2))",
              // bare scripts that are not P2PK
              // (bare standardness admits only pk, pkh and multi up to n = 3)
              "multi(1,K0,K1)", "multi(2,K0,K1,K2)", "multi(1,K10,K0)", "sortedmulti(2,K11,K1,K2)", "multi(1,K3)",
              "multi(3,K0,K1,K2)", "multi(2,K10,K11)", "sortedmulti(1,K1,K0)", "multi(1,K11,K10,K4)", "multi(2,K5,K6)",
              // extended-key shapes: no origin (K12), wildcard made definite (K13), multipath (K14)
              "wpkh(K12)", "pkh(K14)", "sh(wpkh(K13))", "wsh(multi(2,K12,K13,K14))", "sh(wsh(pk(K13)))", "tr(K13,pk(K14))",
              "tr(K12,{pk(K13),pkh(K14)})", "sh(multi(1,K12,K14))", "multi(1,K13,K14)",
              // one curve point in both encodings (K15 = uncompressed K0)
              "sh(or_d(pk(K15),pk(K0)))", "sh(multi(1,K15,K0,K16))", "pkh(K15)", "multi(1,K0,K15)",
              // time-based and height-based relative locks (sequence variants are drawn per case)
              "wsh(or_d(pk(K0),and_v(v:pk(K1),older(4194305))))", "sh(wsh(or_d(pk(K0),and_v(v:pk(K1),older(4194305)))))",
              "sh(or_d(pk(K0),and_v(v:pk(K1),older(4194305))))", "tr(K0,and_v(v:pk(K1),older(4194305)))",
              "wsh(and_v(v:pk(K0),older(10)))", "sh(and_v(v:pk(K0),older(10)))", "tr(K0,and_v(v:pk(K1),older(10)))",
              "wsh(and_v(v:pk(K0),older(65535)))", "wsh(and_v(v:pk(K0),older(4259839)))"] {
        if let Some(s) = spec_from_tmpl(t) { pool.push(s); }
    }
    for m in MS_POOL {
        for w in ["wsh(@)", "sh(wsh(@))", "sh(@)"] {
            if let Some(s) = spec_from_tmpl(&w.replace('@', m)) { pool.push(s); }
        }
    }
    for t in TR_POOL { if let Some(s) = spec_from_tmpl(t) { pool.push(s); } }
    // enumerated fragments from the shared generator, translated to definite keys
    for (ctx, wraps) in [(CtxK::Segwitv0, vec![Wrap::Wsh, Wrap::ShWsh]), (CtxK::Legacy, vec![Wrap::Sh])] {
        let atoms = ast::default_atoms(ctx, true);
        let frags = ast::enumerate(ctx, &atoms, if thorough { 3 } else { 2 }, if thorough { 16 } else { 8 }, rng);
        let mut taken = 0;
        for t in frags.iter().filter(|t| t.base == miniscript::miniscript::types::Base::B) {
            if taken >= (if thorough { 200 } else { 45 }) { break; }
            for w in &wraps {
                if let Some(d) = desc::build_desc(*w, &t.node, 0) {
                    if let Ok(dd) = d.translate_pk(&mut ToDefinite) {
                        if !is_sane(&dd) { continue; }
                        if let Some(s) = spec_from_desc(dd, true) { pool.push(s); taken += 1; }
                    }
                }
            }
        }
    }
    {
        let atoms = ast::default_atoms(CtxK::Tap, true);
        let frags: Vec<ast::Typed> = ast::enumerate(CtxK::Tap, &atoms, 2, 8, rng).into_iter()
            .filter(|t| t.base == miniscript::miniscript::types::Base::B)
            .filter(|t| desc::build_tr(3, &[t.node.clone()]).and_then(|d| d.translate_pk(&mut ToDefinite).ok()).map(|dd| is_sane(&dd)).unwrap_or(false))
            .collect();
        for _ in 0..(if thorough { 60 } else { 20 }) {
            let nl = 1 + rng.below(3);
            let leaves: Vec<ast::Node> = (0..nl).map(|_| frags[rng.below(frags.len())].node.clone()).collect();
            if let Some(d) = desc::build_tr(3, &leaves) {
                if let Ok(dd) = d.translate_pk(&mut ToDefinite) {
                    if !is_sane(&dd) { continue; }
                    if let Some(s) = spec_from_desc(dd, true) { pool.push(s); }
                }
            }
        }
    }
    // the shared dimension corpus (designated fragments: every hash kind in several positions, both
    // lock units, two same-unit locks on one path, thresholds with lock children, wide multisig,
    // uncompressed keys / one point in both encodings in legacy contexts), in EVERY tier
    for (ctx, wraps) in [(CtxK::Segwitv0, vec![Wrap::Wsh, Wrap::ShWsh]), (CtxK::Legacy, vec![Wrap::Sh]), (CtxK::Bare, vec![Wrap::Bare])] {
        for node in ast::dimension_corpus(ctx) {
            for w in &wraps {
                if let Some(d) = desc::build_desc(*w, &node, 0) {
                    if let Ok(dd) = d.translate_pk(&mut ToDefinite) {
                        if !is_sane(&dd) { continue; }
                        if let Some(s) = spec_from_desc(dd, true) { pool.push(s); }
                    }
                }
            }
        }
    }
    {
        let corpus = ast::dimension_corpus(CtxK::Tap);
        for (i, node) in corpus.iter().enumerate() {
            let leaves = if i % 3 == 0 { vec![node.clone(), corpus[(i + 5) % corpus.len()].clone()] } else { vec![node.clone()] };
            if let Some(d) = desc::build_tr(3, &leaves) {
                if let Ok(dd) = d.translate_pk(&mut ToDefinite) {
                    if !is_sane(&dd) { continue; }
                    if let Some(s) = spec_from_desc(dd, true) { pool.push(s); }
                }
            }
        }
    }
    let mut seen = BTreeSet::new();
    // raw key hashes of the corpus commit to the shared atom keys, for which this harness holds no
    // signing key under its own key table: the raw-pkh route is covered by `judge_rawpkh` / the `o` op
    pool.retain(|s| s.sane && !s.tmpl.contains("expr_raw_pkh") && seen.insert(s.tmpl.clone()));
    let mall: Vec<Spec> = MALL_POOL.iter().filter_map(|m| spec_insane_wsh(m)).collect();
    (pool, mall)
}

/* ------------------------------------------------------------------ PSBT cases */

#[derive(Clone, Copy, Debug, PartialEq, Eq)]
enum UtxoMode { W, N, B }
impl UtxoMode { fn name(self) -> &'static str { match self { UtxoMode::W => "w", UtxoMode::N => "n", UtxoMode::B => "b" } } }

#[derive(Clone)]
struct InpCase {
    spec: Spec,
    mode: UtxoMode,
    prev_tx: Transaction,
    utxo: TxOut,
    /// good / bad ECDSA signatures for every key id (0..NKEYS)
    ecdsa: Vec<(ecdsa::Signature, ecdsa::Signature)>,
    /// good / bad taproot key-path signature
    keysig: Option<(taproot::Signature, taproot::Signature)>,
    /// tapscript signatures: (key id, leaf index) -> good / bad
    tapsigs: BTreeMap<(u32, usize), (taproot::Signature, taproot::Signature)>,
}

#[derive(Clone)]
struct Case {
    inputs: Vec<InpCase>,
    /// blank PSBT: unsigned tx + utxo fields only
    psbt0: Psbt,
    label: String,
    /// transaction output j pays to the descriptor of input `out_desc[j]` (None: a plain script)
    out_desc: Vec<Option<usize>>,
}

fn flip(d: [u8; 32]) -> [u8; 32] { let mut e = d; for b in e.iter_mut() { *b ^= 0x5a; } e }

fn sign_ecdsa(d: [u8; 32], sk: &SecretKey) -> ecdsa::Signature {
    ecdsa::Signature { signature: secp().sign_ecdsa(&Message::from_digest(d), sk), sighash_type: EcdsaSighashType::All }
}
fn sign_schnorr(d: [u8; 32], kp: &secp256k1::Keypair) -> taproot::Signature {
    taproot::Signature {
        signature: secp().sign_schnorr_with_aux_rand(&Message::from_digest(d), kp, &[7u8; 32]),
        sighash_type: TapSighashType::Default,
    }
}

/// the digest an ECDSA signature of input `idx` must commit to, from rust-bitcoin only
fn ecdsa_digest(spec: &Spec, tx: &Transaction, idx: usize, utxo: &TxOut) -> Option<[u8; 32]> {
    let mut cache = SighashCache::new(tx);
    let d = &spec.derived;
    Some(match spec.kind {
        Kind::Pk | Kind::Pkh | Kind::Bare => cache.legacy_signature_hash(idx, &utxo.script_pubkey, EcdsaSighashType::All.to_u32()).ok()?.to_byte_array(),
        Kind::Sh => cache.legacy_signature_hash(idx, &d.explicit_script().ok()?, EcdsaSighashType::All.to_u32()).ok()?.to_byte_array(),
        Kind::Wsh | Kind::ShWsh => cache.p2wsh_signature_hash(idx, &d.explicit_script().ok()?, utxo.value, EcdsaSighashType::All).ok()?.to_byte_array(),
        Kind::Wpkh => cache.p2wpkh_signature_hash(idx, &utxo.script_pubkey, utxo.value, EcdsaSighashType::All).ok()?.to_byte_array(),
        Kind::ShWpkh => {
            let pk = key(spec.keys[0]).public;
            let inner = ScriptBuf::new_p2wpkh(&pk.wpubkey_hash().ok()?);
            cache.p2wpkh_signature_hash(idx, &inner, utxo.value, EcdsaSighashType::All).ok()?.to_byte_array()
        }
        Kind::Tr => return None,
    })
}

pub const ECDSA_TYPES: [EcdsaSighashType; 6] = [EcdsaSighashType::All, EcdsaSighashType::None, EcdsaSighashType::Single,
    EcdsaSighashType::AllPlusAnyoneCanPay, EcdsaSighashType::NonePlusAnyoneCanPay, EcdsaSighashType::SinglePlusAnyoneCanPay];
pub const TAP_TYPES: [TapSighashType; 7] = [TapSighashType::Default, TapSighashType::All, TapSighashType::None, TapSighashType::Single,
    TapSighashType::AllPlusAnyoneCanPay, TapSighashType::NonePlusAnyoneCanPay, TapSighashType::SinglePlusAnyoneCanPay];

/// ECDSA digest of input `idx` for an arbitrary sighash type (rust-bitcoin only)
fn ecdsa_digest_typed(spec: &Spec, tx: &Transaction, idx: usize, utxo: &TxOut, ty: EcdsaSighashType) -> Option<[u8; 32]> {
    let mut cache = SighashCache::new(tx);
    let d = &spec.derived;
    Some(match spec.kind {
        Kind::Pk | Kind::Pkh | Kind::Bare => cache.legacy_signature_hash(idx, &utxo.script_pubkey, ty.to_u32()).ok()?.to_byte_array(),
        Kind::Sh => cache.legacy_signature_hash(idx, &d.explicit_script().ok()?, ty.to_u32()).ok()?.to_byte_array(),
        Kind::Wsh | Kind::ShWsh => cache.p2wsh_signature_hash(idx, &d.explicit_script().ok()?, utxo.value, ty).ok()?.to_byte_array(),
        Kind::Wpkh => cache.p2wpkh_signature_hash(idx, &utxo.script_pubkey, utxo.value, ty).ok()?.to_byte_array(),
        Kind::ShWpkh => {
            let pk = key(spec.keys[0]).public;
            let inner = ScriptBuf::new_p2wpkh(&pk.wpubkey_hash().ok()?);
            cache.p2wpkh_signature_hash(idx, &inner, utxo.value, ty).ok()?.to_byte_array()
        }
        Kind::Tr => return None,
    })
}
/// taproot digest (key path: `leaf = None`) for an arbitrary sighash type (rust-bitcoin only)
fn tap_digest_typed(tx: &Transaction, idx: usize, prevouts: &[TxOut], leaf_script: Option<&ScriptBuf>, ty: TapSighashType) -> Option<[u8; 32]> {
    let mut cache = SighashCache::new(tx);
    // ANYONECANPAY needs this input's prevout only; `Prevouts::All` is accepted for every type
    match leaf_script {
        None => cache.taproot_key_spend_signature_hash(idx, &Prevouts::All(prevouts), ty).ok().map(|h| h.to_byte_array()),
        Some(s) => cache.taproot_script_spend_signature_hash(idx, &Prevouts::All(prevouts), TapLeafHash::from_script(s, LeafVersion::TapScript), ty).ok().map(|h| h.to_byte_array()),
    }
}

/// fixed choices for a deterministic case (None = seeded random choice)
#[derive(Clone, Default)]
struct CaseOpts { version: Option<i32>, seqs: Vec<Option<u32>> }

fn build_case(specs: Vec<Spec>, rng: &mut Rng) -> Case { build_case_with(specs, rng, &CaseOpts::default()) }

/// nSequence variants around a relative lock `o`: exact, bits above the 16-bit mask set, the other
/// unit (type flag flipped), one short, disable flag set, final
fn seq_variants(o: u32) -> Vec<u32> {
    vec![o, o, o, o, o, o | (1 << 16), o | (1 << 20), (o ^ 0x0040_0000) + 10, o & 0xffff, o.saturating_sub(1), o | (1 << 31), 0xffff_ffff, (o & 0x0040_0000) | 0xffff]
}

fn build_case_with(specs: Vec<Spec>, rng: &mut Rng, opts: &CaseOpts) -> Case {
    let n = specs.len();
    let any_older = specs.iter().any(|s| !s.olders.is_empty());
    // version 1 transactions: BIP68 relative locks are not enforced, older() can never be satisfied
    let version = opts.version.unwrap_or_else(|| if rng.below(if any_older { 7 } else { 25 }) == 0 { 1 } else { 2 });
    // lock time: the largest height-based `after` among the inputs (so that they can be met
    // together), sometimes one less / zero to get failing finalizations
    let mut lt = specs.iter().flat_map(|s| s.afters.iter().cloned()).filter(|a| *a < 500_000_000).max().unwrap_or(0);
    if lt == 0 { lt = specs.iter().flat_map(|s| s.afters.iter().cloned()).max().unwrap_or(0); }
    match rng.below(8) { 0 => lt = lt.saturating_sub(1), 1 => lt = 0, _ => {} }
    let mut txins = vec![];
    let mut inputs = vec![];
    for (i, spec) in specs.into_iter().enumerate() {
        let spk = spec.derived.script_pubkey();
        let value = Amount::from_sat(50_000 + 1000 * i as u64);
        let utxo = TxOut { value, script_pubkey: spk };
        let n_out = 1 + rng.below(3);
        let vout = rng.below(n_out);
        let mut outs = vec![];
        for o in 0..n_out {
            if o == vout { outs.push(utxo.clone()); }
            else { outs.push(TxOut { value: Amount::from_sat(777 + o as u64), script_pubkey: ScriptBuf::from_bytes(vec![0x51]) }); }
        }
        let prev_tx = Transaction {
            version: transaction::Version::TWO, lock_time: absolute::LockTime::ZERO,
            input: vec![TxIn { previous_output: OutPoint::null(), script_sig: ScriptBuf::from_bytes(vec![0x01, i as u8 + 1]), sequence: Sequence::MAX, witness: Witness::new() }],
            output: outs,
        };
        let sq = match opts.seqs.get(i).cloned().flatten() {
            Some(s) => s,
            None => match spec.olders.iter().cloned().max_by_key(|o| (o & 0xffff, *o)) {
                Some(o) => { let v = seq_variants(o); v[rng.below(v.len())] }
                None => if rng.below(10) == 0 { 0xffff_ffff } else { 0xffff_fffd },
            },
        };
        txins.push(TxIn {
            previous_output: OutPoint { txid: prev_tx.compute_txid(), vout: vout as u32 },
            script_sig: ScriptBuf::new(), sequence: Sequence::from_consensus(sq), witness: Witness::new(),
        });
        let mode = if spec.kind.segwit() { *rng.pick(&[UtxoMode::W, UtxoMode::W, UtxoMode::N, UtxoMode::B]) }
                   else { *rng.pick(&[UtxoMode::N, UtxoMode::N, UtxoMode::B]) };
        inputs.push(InpCase { spec, mode, prev_tx, utxo, ecdsa: vec![], keysig: None, tapsigs: BTreeMap::new() });
    }
    // one output paying to the first input's descriptor (update_output_with_descriptor), one plain
    let tx = Transaction {
        version: transaction::Version(version),
        lock_time: absolute::LockTime::from_consensus(lt),
        input: txins,
        output: vec![],
    };
    let mut tx = tx;
    // outputs: one per input descriptor plus a plain one; sometimes FEWER outputs than inputs
    // (SIGHASH_SINGLE with an input index that has no matching output)
    let few = n > 1 && rng.below(4) == 0;
    let mut out_desc: Vec<Option<usize>> = vec![];
    for j in 0..(if few { 1 } else { n }) {
        tx.output.push(TxOut { value: Amount::from_sat(20_000 + j as u64), script_pubkey: inputs[j].spec.derived.script_pubkey() });
        out_desc.push(Some(j));
    }
    if !few { tx.output.push(TxOut { value: Amount::from_sat(10_000), script_pubkey: ScriptBuf::from_bytes(vec![0x51]) }); out_desc.push(None); }
    let tx = tx;
    // signatures (independent digests)
    let prevouts: Vec<TxOut> = inputs.iter().map(|c| c.utxo.clone()).collect();
    for i in 0..n {
        let spec = inputs[i].spec.clone();
        if spec.kind == Kind::Tr {
            let mut cache = SighashCache::new(&tx);
            if let Descriptor::Tr(tr) = &spec.derived {
                let ik = key_id(tr.internal_key()).unwrap();
                let root = tr.spend_info().merkle_root();
                let d = cache.taproot_key_spend_signature_hash(i, &Prevouts::All(&prevouts), TapSighashType::Default).unwrap().to_byte_array();
                let kp = secp256k1::Keypair::from_secret_key(secp(), &key(ik).secret).tap_tweak(secp(), root).to_inner();
                inputs[i].keysig = Some((sign_schnorr(d, &kp), sign_schnorr(flip(d), &kp)));
            }
            for (li, leaf) in spec.leaves.iter().enumerate() {
                let d = cache.taproot_script_spend_signature_hash(i, &Prevouts::All(&prevouts), leaf.hash, TapSighashType::Default).unwrap().to_byte_array();
                for k in &leaf.keys {
                    let kp = secp256k1::Keypair::from_secret_key(secp(), &key(*k).secret);
                    inputs[i].tapsigs.insert((*k, li), (sign_schnorr(d, &kp), sign_schnorr(flip(d), &kp)));
                }
            }
        } else {
            let d = ecdsa_digest(&spec, &tx, i, &inputs[i].utxo).expect("digest");
            inputs[i].ecdsa = (0..NKEYS).map(|k| (sign_ecdsa(d, &key(k).secret), sign_ecdsa(flip(d), &key(k).secret))).collect();
        }
    }
    let mut psbt0 = Psbt::from_unsigned_tx(tx).unwrap();
    for i in 0..n { set_utxo(&mut psbt0, &inputs[i], i); }
    let label = format!("{}lt={};{}", if version == 2 { String::new() } else { format!("v={};", version) }, lt, inputs.iter().enumerate().map(|(i, c)|
        format!("{}@{}@{}", c.spec.tmpl, c.mode.name(), psbt0.unsigned_tx.input[i].sequence.to_consensus_u32())).collect::<Vec<_>>().join(";"));
    Case { inputs, psbt0, label, out_desc }
}

fn set_utxo(p: &mut Psbt, c: &InpCase, i: usize) {
    p.inputs[i].witness_utxo = if c.mode != UtxoMode::N { Some(c.utxo.clone()) } else { None };
    p.inputs[i].non_witness_utxo = if c.mode != UtxoMode::W { Some(c.prev_tx.clone()) } else { None };
}

/* ------------------------------------------------------------------ operations */

#[derive(Clone, Debug, PartialEq, Eq, PartialOrd, Ord)]
enum Op {
    Update(usize), Sig(usize, u32, bool), KeySig(usize, bool), Pre(usize, usize, bool),
    Corrupt(usize), Drop(usize), Restore(usize), Garbage(usize), ShortPrev(usize), SighashField(usize), DropOrigins(usize),
    OtherTxid(usize), Disagree(usize), WitnessOnly(usize), Stray(usize), LeafVersion(usize),
    Fin, FinMall, FinInp(usize), FinInpMall(usize), Extract, OldFin, OldFinMall,
}
impl Op {
    fn tok(&self) -> String {
        match self {
            Op::Update(i) => format!("u{}", i),
            Op::Sig(i, k, g) => format!("{}{}.{}", if *g { "s" } else { "b" }, i, k),
            Op::KeySig(i, g) => format!("{}{}", if *g { "t" } else { "y" }, i),
            Op::Pre(i, j, g) => format!("{}{}.{}", if *g { "p" } else { "q" }, i, j),
            Op::Corrupt(i) => format!("x{}", i), Op::Drop(i) => format!("d{}", i),
            Op::Restore(i) => format!("r{}", i), Op::Garbage(i) => format!("g{}", i), Op::ShortPrev(i) => format!("v{}", i),
            Op::SighashField(i) => format!("h{}", i), Op::DropOrigins(i) => format!("o{}", i),
            Op::OtherTxid(i) => format!("k{}", i), Op::Disagree(i) => format!("e{}", i), Op::WitnessOnly(i) => format!("w{}", i),
            Op::Stray(i) => format!("z{}", i), Op::LeafVersion(i) => format!("l{}", i),
            Op::Fin => "F".into(), Op::FinMall => "M".into(),
            Op::FinInp(i) => format!("f{}", i), Op::FinInpMall(i) => format!("m{}", i),
            Op::Extract => "X".into(), Op::OldFin => "L".into(), Op::OldFinMall => "N".into(),
        }
    }
    fn is_finalize(&self) -> bool {
        matches!(self, Op::Fin | Op::FinMall | Op::FinInp(_) | Op::FinInpMall(_) | Op::OldFin | Op::OldFinMall)
    }
}
fn hist_tok(h: &[Op]) -> String { if h.is_empty() { "-".into() } else { h.iter().map(|o| o.tok()).collect::<Vec<_>>().join(",") } }

fn garbage_witness() -> Witness { Witness::from_slice(&[vec![0xde, 0xad], vec![0xbe, 0xef]]) }

fn err_class(e: &miniscript::psbt::Error) -> String {
    use miniscript::psbt::{Error, InputError};
    match e {
        Error::WrongInputCount { .. } => "WrongInputCount".into(),
        Error::InputIdxOutofBounds { .. } => "OOB".into(),
        Error::InputError(ie, i) => {
            let c = match ie {
                InputError::SecpErr(_) => "SecpErr", InputError::KeyErr(_) => "KeyErr",
                InputError::CouldNotSatisfyTr => "CouldNotSatisfyTr", InputError::Interpreter(_) => "Interpreter",
                InputError::InvalidRedeemScript { .. } => "InvalidRedeemScript",
                InputError::InvalidWitnessScript { .. } => "InvalidWitnessScript",
                InputError::InvalidSignature { .. } => "InvalidSignature",
                InputError::MiniscriptError(_) => "Miniscript", InputError::MissingRedeemScript => "MissingRedeemScript",
                InputError::MissingWitness => "MissingWitness", InputError::MissingPubkey => "MissingPubkey",
                InputError::MissingWitnessScript => "MissingWitnessScript", InputError::MissingUtxo => "MissingUtxo",
                InputError::NonEmptyWitnessScript => "NonEmptyWitnessScript", InputError::NonEmptyRedeemScript => "NonEmptyRedeemScript",
                InputError::NonStandardSighashType(_) => "NonStandardSighashType", InputError::WrongSighashFlag { .. } => "WrongSighashFlag",
                // variants a later library version may add (the taproot twin of WrongSighashFlag)
                #[allow(unreachable_patterns)]
                other => if format!("{:?}", other).starts_with("WrongTapSighashFlag") { "WrongSighashFlag" } else { "Other" },
            };
            format!("{}@{}", c, i)
        }
    }
}

fn tok8(b: &[u8]) -> String { let h = sha256::Hash::hash(b); hex(&h.as_byte_array()[0..4]) }
fn ss_tok(s: &ScriptBuf) -> String { if s.is_empty() { "e".into() } else { tok8(s.as_bytes()) } }
fn wit_tok(w: &Witness) -> String { if w.is_empty() { "e".into() } else { tok8(&miniscript::bitcoin::consensus::serialize(w)) } }

/// apply one operation to the real PSBT; returns the result class
fn apply(case: &Case, p: &mut Psbt, op: &Op) -> String {
    let n = case.inputs.len();
    let r = catch_unwind(AssertUnwindSafe(|| -> String {
        match op {
            Op::Update(i) => match p.update_input_with_descriptor(*i, &case.inputs[*i].spec.desc) {
                Ok(()) => "ok".into(),
                Err(e) => format!("err:{}", match e {
                    miniscript::psbt::UtxoUpdateError::IndexOutOfBounds(..) => "OOB",
                    miniscript::psbt::UtxoUpdateError::MissingInputUtxo => "MissingInputUtxo",
                    miniscript::psbt::UtxoUpdateError::DerivationError(_) => "Derivation",
                    miniscript::psbt::UtxoUpdateError::UtxoCheck => "UtxoCheck",
                    miniscript::psbt::UtxoUpdateError::MismatchedScriptPubkey => "MismatchedScriptPubkey",
                }),
            },
            Op::Sig(i, k, good) => {
                let c = &case.inputs[*i];
                if c.spec.kind == Kind::Tr {
                    for (li, leaf) in c.spec.leaves.iter().enumerate() {
                        if let Some((g, b)) = c.tapsigs.get(&(*k, li)) {
                            let x = key(*k).public.inner.x_only_public_key().0;
                            p.inputs[*i].tap_script_sigs.insert((x, leaf.hash), if *good { *g } else { *b });
                        }
                    }
                } else {
                    let (g, b) = c.ecdsa[*k as usize];
                    p.inputs[*i].partial_sigs.insert(key(*k).public, if *good { g } else { b });
                }
                "ok".into()
            }
            Op::KeySig(i, good) => {
                if let Some((g, b)) = case.inputs[*i].keysig { p.inputs[*i].tap_key_sig = Some(if *good { g } else { b }); }
                "ok".into()
            }
            Op::Pre(i, j, good) => {
                let (kind, h) = hashes()[*j];
                let mut pre = ast::preimage(h).to_vec();
                if !*good { pre[0] ^= 1; }
                let v = ast::hash_value(kind, h);
                let inp = &mut p.inputs[*i];
                match kind {
                    HK::Sha256 => { inp.sha256_preimages.insert(sha256::Hash::from_slice(&v).unwrap(), pre); }
                    HK::Hash256 => { inp.hash256_preimages.insert(sha256d::Hash::from_slice(&v).unwrap(), pre); }
                    HK::Ripemd160 => { inp.ripemd160_preimages.insert(ripemd160::Hash::from_slice(&v).unwrap(), pre); }
                    HK::Hash160 => { inp.hash160_preimages.insert(hash160::Hash::from_slice(&v).unwrap(), pre); }
                }
                "ok".into()
            }
            Op::Corrupt(i) => {
                let wrong = ScriptBuf::from_bytes(vec![0x51, 0x75, 0x51, *i as u8 + 0x52]);
                match case.inputs[*i].spec.kind {
                    Kind::Wsh | Kind::ShWsh => p.inputs[*i].witness_script = Some(wrong),
                    Kind::Sh | Kind::ShWpkh => p.inputs[*i].redeem_script = Some(wrong),
                    // a bare script must have neither (NonEmptyWitnessScript / NonEmptyRedeemScript)
                    Kind::Bare => { if *i % 2 == 0 { p.inputs[*i].witness_script = Some(wrong) } else { p.inputs[*i].redeem_script = Some(wrong) } }
                    _ => {}
                }
                "ok".into()
            }
            Op::Drop(i) => { p.inputs[*i].witness_utxo = None; p.inputs[*i].non_witness_utxo = None; "ok".into() }
            Op::Restore(i) => { set_utxo(p, &case.inputs[*i], *i); "ok".into() }
            Op::OtherTxid(i) => {
                // the previous transaction with a changed lock time: ANOTHER txid, same output at vout
                let mut prev = case.inputs[*i].prev_tx.clone();
                prev.lock_time = absolute::LockTime::from_consensus(77);
                p.inputs[*i].witness_utxo = None;
                p.inputs[*i].non_witness_utxo = Some(prev);
                "ok".into()
            }
            Op::Disagree(i) => {
                // witness_utxo disagrees with non_witness_utxo.output[vout] (other amount)
                let mut u = case.inputs[*i].utxo.clone();
                u.value = u.value + Amount::from_sat(1);
                p.inputs[*i].witness_utxo = Some(u);
                p.inputs[*i].non_witness_utxo = Some(case.inputs[*i].prev_tx.clone());
                "ok".into()
            }
            Op::WitnessOnly(i) => {
                p.inputs[*i].witness_utxo = Some(case.inputs[*i].utxo.clone());
                p.inputs[*i].non_witness_utxo = None;
                "ok".into()
            }
            Op::Stray(i) => {
                // the script field the output type must NOT carry / a wrong redeem script on sh-wsh
                let wrong = ScriptBuf::from_bytes(vec![0x51, 0x75, 0x51, *i as u8 + 0x52]);
                match case.inputs[*i].spec.kind {
                    Kind::Wsh | Kind::ShWsh => p.inputs[*i].redeem_script = Some(wrong),
                    Kind::Sh => p.inputs[*i].witness_script = Some(wrong),
                    _ => {}
                }
                "ok".into()
            }
            Op::LeafVersion(i) => {
                // every tap_scripts entry gets a leaf version the finalizer cannot satisfy
                let items: Vec<(ControlBlock, ScriptBuf)> = p.inputs[*i].tap_scripts.iter().map(|(cb, (s, _))| (cb.clone(), s.clone())).collect();
                for (cb, s) in items { p.inputs[*i].tap_scripts.insert(cb, (s, LeafVersion::from_consensus(0xc2).unwrap())); }
                "ok".into()
            }
            Op::SighashField(i) => {
                // toggle the input's sighash_type field between absent and SIGHASH_SINGLE (all
                // signatures of the histories are SIGHASH_ALL / DEFAULT: a contradiction)
                p.inputs[*i].sighash_type = if p.inputs[*i].sighash_type.is_some() { None } else { Some(EcdsaSighashType::Single.into()) };
                "ok".into()
            }
            Op::DropOrigins(i) => {
                // a PSBT whose updater recorded no key origins: pkh() fragments are then seen as raw
                // key hashes by the finalizer and completed from the signature maps
                p.inputs[*i].bip32_derivation.clear();
                p.inputs[*i].tap_key_origins.clear();
                "ok".into()
            }
            Op::ShortPrev(i) => {
                // (former F8) only a previous transaction, with fewer outputs than the spent vout
                let mut prev = case.inputs[*i].prev_tx.clone();
                prev.output.truncate(p.unsigned_tx.input[*i].previous_output.vout as usize);
                p.inputs[*i].witness_utxo = None;
                p.inputs[*i].non_witness_utxo = Some(prev);
                "ok".into()
            }
            Op::Garbage(i) => { p.inputs[*i].final_script_witness = Some(garbage_witness()); "ok".into() }
            Op::Fin | Op::FinMall => {
                let r = if *op == Op::Fin { p.finalize_mut(secp()) } else { p.finalize_mall_mut(secp()) };
                match r { Ok(()) => "ok".into(), Err(es) => format!("err:{}", es.iter().map(err_class).collect::<Vec<_>>().join("+")) }
            }
            Op::FinInp(i) | Op::FinInpMall(i) => {
                let r = if matches!(op, Op::FinInp(_)) { p.finalize_inp_mut(secp(), *i) } else { p.finalize_inp_mall_mut(secp(), *i) };
                match r { Ok(()) => "ok".into(), Err(e) => format!("err:{}", err_class(&e)) }
            }
            Op::OldFin | Op::OldFinMall => {
                #[allow(deprecated)]
                let r = if *op == Op::OldFin { miniscript::psbt::finalize(p, secp()) } else { miniscript::psbt::finalize_mall(p, secp()) };
                match r { Ok(()) => "ok".into(), Err(e) => format!("err:{}", err_class(&e)) }
            }
            Op::Extract => match p.extract(secp()) {
                Ok(tx) => format!("ok:{}", tx.input.iter().map(|t| format!("{}/{}", ss_tok(&t.script_sig), wit_tok(&t.witness))).collect::<Vec<_>>().join(",")),
                Err(e) => format!("err:{}", err_class(&e)),
            },
        }
    }));
    let _ = n;
    r.unwrap_or_else(|_| { PANICS.with(|v| v.borrow_mut().push(op.tok())); "panic".into() })
}

thread_local! { static PANICS: std::cell::RefCell<Vec<String>> = std::cell::RefCell::new(vec![]); }

/// run one judge; a panic of any library call inside it (caught by `apply`, or escaping it) becomes a
/// `J nopanic` line of its own - the no-panic sweep of C11 keeps only those lines
fn guarded<F: FnOnce(&mut Out)>(out: &mut Out, name: &str, id: &str, f: F) {
    PANICS.with(|v| v.borrow_mut().clear());
    let escaped = catch_unwind(AssertUnwindSafe(|| f(out))).is_err();
    let inner: Vec<String> = PANICS.with(|v| v.borrow_mut().drain(..).collect());
    if escaped || !inner.is_empty() {
        out.line(&format!("J nopanic psbt {} {} {} PANIC", name, id, if inner.is_empty() { "escaped".to_string() } else { inner.join(",") }), "ok");
    } else {
        out.count(&format!("nopanic judge {}", name));
    }
}

fn is_final(inp: &psbt::Input) -> bool { inp.final_script_sig.is_some() || inp.final_script_witness.is_some() }

/// abstract state of the real PSBT
fn abs_state(p: &Psbt) -> String {
    p.inputs.iter().map(|inp| {
        let ss = inp.final_script_sig.as_ref().map(|s| ss_tok(s)).unwrap_or("-".into());
        let w = inp.final_script_witness.as_ref().map(|w| wit_tok(w)).unwrap_or("-".into());
        let mut g = String::new();
        if inp.witness_utxo.is_some() { g.push('w'); }
        if inp.non_witness_utxo.is_some() { g.push('n'); }
        if inp.redeem_script.is_some() { g.push('r'); }
        if inp.witness_script.is_some() { g.push('W'); }
        if !inp.bip32_derivation.is_empty() { g.push('b'); }
        if !inp.partial_sigs.is_empty() { g.push('s'); }
        if !(inp.sha256_preimages.is_empty() && inp.hash256_preimages.is_empty() && inp.ripemd160_preimages.is_empty() && inp.hash160_preimages.is_empty()) { g.push('h'); }
        if inp.tap_internal_key.is_some() { g.push('I'); }
        if inp.tap_merkle_root.is_some() { g.push('R'); }
        if !inp.tap_scripts.is_empty() { g.push('T'); }
        if !inp.tap_key_origins.is_empty() { g.push('o'); }
        if inp.tap_key_sig.is_some() { g.push('k'); }
        if !inp.tap_script_sigs.is_empty() { g.push('S'); }
        if inp.sighash_type.is_some() || !inp.unknown.is_empty() || !inp.proprietary.is_empty() { g.push('?'); }
        if g.is_empty() { g.push('-'); }
        format!("{}/{}:{}", ss, w, g)
    }).collect::<Vec<_>>().join(";")
}

/* ------------------------------------------------------------------ oracles (model parameters) */

/// An independent `Satisfier` over the CONTENTS of one PSBT input (written against
/// rust-bitcoin only; `PsbtInputSatisfier` of the psbt module is code under test).
struct FieldSat<'a> {
    tx: &'a Transaction, idx: usize, inp: &'a psbt::Input,
    /// keys a raw key hash can be resolved to WITHOUT a signature: what the PSBT records as key
    /// origins (`bip32_derivation` of all inputs - as compressed keys, the map is keyed by curve
    /// point - and `tap_key_origins` of all inputs)
    known: Vec<PublicKey>,
    known_x: Vec<XOnlyPublicKey>,
}
fn field_sat<'a>(p: &'a Psbt, i: usize) -> FieldSat<'a> {
    FieldSat { tx: &p.unsigned_tx, idx: i, inp: &p.inputs[i],
        known: p.inputs.iter().flat_map(|inp| inp.bip32_derivation.keys().map(|k| PublicKey::new(*k))).collect(),
        known_x: p.inputs.iter().flat_map(|inp| inp.tap_key_origins.keys().cloned()).collect() }
}

impl<'a, Pk: MiniscriptKey + ToPublicKey> Satisfier<Pk> for FieldSat<'a> {
    fn lookup_ecdsa_sig(&self, pk: &Pk) -> Option<ecdsa::Signature> { self.inp.partial_sigs.get(&pk.to_public_key()).copied() }
    fn lookup_tap_key_spend_sig(&self, _: &Pk) -> Option<taproot::Signature> { None }
    fn lookup_raw_pkh_pk(&self, h: &hash160::Hash) -> Option<PublicKey> {
        self.known.iter().find(|k| hash160::Hash::hash(&k.to_bytes()) == *h).cloned()
    }
    fn lookup_raw_pkh_x_only_pk(&self, h: &hash160::Hash) -> Option<XOnlyPublicKey> {
        self.known_x.iter().find(|k| hash160::Hash::hash(&k.serialize()) == *h).cloned()
    }
    fn lookup_raw_pkh_ecdsa_sig(&self, h: &hash160::Hash) -> Option<(PublicKey, ecdsa::Signature)> {
        self.inp.partial_sigs.iter().find(|(k, _)| hash160::Hash::hash(&k.to_bytes()) == *h).map(|(k, s)| (*k, *s))
    }
    fn lookup_raw_pkh_tap_leaf_script_sig(&self, h: &(hash160::Hash, TapLeafHash)) -> Option<(XOnlyPublicKey, taproot::Signature)> {
        self.inp.tap_script_sigs.iter().find(|((k, lh), _)| hash160::Hash::hash(&k.serialize()) == h.0 && *lh == h.1).map(|((k, _), s)| (*k, *s))
    }
    fn lookup_tap_leaf_script_sig(&self, pk: &Pk, lh: &TapLeafHash) -> Option<taproot::Signature> {
        self.inp.tap_script_sigs.get(&(pk.to_x_only_pubkey(), *lh)).copied()
    }
    fn lookup_sha256(&self, h: &Pk::Sha256) -> Option<[u8; 32]> {
        self.inp.sha256_preimages.get(&Pk::to_sha256(h)).and_then(|v| <[u8; 32]>::try_from(&v[..]).ok())
    }
    fn lookup_hash256(&self, h: &Pk::Hash256) -> Option<[u8; 32]> {
        let hh = Pk::to_hash256(h);
        self.inp.hash256_preimages.get(&sha256d::Hash::from_byte_array(hh.to_byte_array())).and_then(|v| <[u8; 32]>::try_from(&v[..]).ok())
    }
    fn lookup_ripemd160(&self, h: &Pk::Ripemd160) -> Option<[u8; 32]> {
        self.inp.ripemd160_preimages.get(&Pk::to_ripemd160(h)).and_then(|v| <[u8; 32]>::try_from(&v[..]).ok())
    }
    fn lookup_hash160(&self, h: &Pk::Hash160) -> Option<[u8; 32]> {
        self.inp.hash160_preimages.get(&Pk::to_hash160(h)).and_then(|v| <[u8; 32]>::try_from(&v[..]).ok())
    }
    fn check_older(&self, n: relative::LockTime) -> bool {
        let seq = self.tx.input[self.idx].sequence;
        self.tx.version.0 >= 2 && seq.is_relative_lock_time() && n.is_implied_by_sequence(seq)
    }
    fn check_after(&self, n: absolute::LockTime) -> bool {
        self.tx.input[self.idx].sequence != Sequence::MAX && n.is_implied_by(self.tx.lock_time)
    }
}

fn varint_len(n: usize) -> usize { if n < 0xfd { 1 } else if n <= 0xffff { 3 } else if n <= 0xffff_ffff { 5 } else { 9 } }
fn wit_size(w: &[Vec<u8>]) -> usize { w.iter().map(|e| varint_len(e.len()) + e.len()).sum::<usize>() + varint_len(w.len()) }

/// the satisfier parameter on one point: (scriptSig, witness) for the input's CURRENT fields.
/// Non-taproot: the true descriptor's satisfier; taproot: the script-path part only (smallest
/// witness over the leaves recorded in `tap_scripts`, ties to the larger control block).
fn sat_oracle(case: &Case, p: &Psbt, i: usize, mall: bool) -> Option<(ScriptBuf, Witness)> {
    use miniscript::{BareCtx, Legacy, Miniscript, Segwitv0, Tap};
    let c = &case.inputs[i];
    let sat = field_sat(p, i);
    // The scripts are DECODED (pkh() fragments become raw key hashes), as any finalizer has to: which
    // key a hash stands for is known only through the PSBT's own fields (`FieldSat::known*`, the
    // signature maps).  The decoder and the descriptor satisfier are outside the psbt module.
    if let Descriptor::Tr(tr) = &c.spec.derived {
        let info = tr.spend_info();
        let mut best: Option<(usize, ControlBlock, Vec<Vec<u8>>)> = None;
        for l in info.leaves() {
            let cb = l.control_block().clone();
            match p.inputs[i].tap_scripts.get(&cb) { Some((s, LeafVersion::TapScript)) if s.as_bytes() == l.script().as_bytes() => {}, _ => continue }
            let ms = match Miniscript::<XOnlyPublicKey, Tap>::decode_consensus(l.script()) { Ok(m) => m, Err(_) => continue };
            let r = if mall { ms.satisfy_malleable(&sat) } else { ms.satisfy(&sat) };
            if let Ok(mut w) = r {
                w.push(l.script().to_bytes());
                w.push(cb.serialize());
                let sz = wit_size(&w);
                let better = match &best { None => true, Some((bsz, bcb, _)) => sz < *bsz || (sz == *bsz && cb > *bcb) };
                if better { best = Some((sz, cb, w)); }
            }
        }
        best.map(|(_, _, w)| (ScriptBuf::new(), Witness::from_slice(&w)))
    } else {
        let d: Descriptor<PublicKey> = match c.spec.kind {
            Kind::Wsh => Descriptor::new_wsh(Miniscript::<PublicKey, Segwitv0>::decode_consensus(&c.spec.derived.explicit_script().ok()?).ok()?).ok()?,
            Kind::ShWsh => Descriptor::new_sh_wsh(Miniscript::<PublicKey, Segwitv0>::decode_consensus(&c.spec.derived.explicit_script().ok()?).ok()?).ok()?,
            Kind::Sh => Descriptor::new_sh(Miniscript::<PublicKey, Legacy>::decode_consensus(&c.spec.derived.explicit_script().ok()?).ok()?).ok()?,
            Kind::Bare => Descriptor::new_bare(Miniscript::<PublicKey, BareCtx>::decode_consensus(&c.utxo.script_pubkey).ok()?).ok()?,
            _ => c.spec.derived.clone(),
        };
        let r = if mall { d.get_satisfaction_mall(&sat) } else { d.get_satisfaction(&sat) };
        r.ok().map(|(w, s)| (s, Witness::from_slice(&w)))
    }
}

/// the previous outputs as a finalizer sees them: `witness_utxo` if present, else output `vout` of
/// `non_witness_utxo` (independent of the code under test; `None` if some input has neither)
fn psbt_prevouts(p: &Psbt) -> Option<Vec<TxOut>> {
    p.inputs.iter().enumerate().map(|(i, inp)| match (&inp.witness_utxo, &inp.non_witness_utxo) {
        (Some(u), _) => Some(u.clone()),
        (None, Some(t)) => t.output.get(p.unsigned_tx.input.get(i)?.previous_output.vout as usize).cloned(),
        _ => None,
    }).collect()
}
/// per input: `o` the output really being spent, `x` anything else (a disagreeing witness_utxo)
fn utxo_view_tok(case: &Case, p: &Psbt) -> String {
    match psbt_prevouts(p) {
        None => "?".into(),
        Some(v) => v.iter().enumerate().map(|(i, u)| if *u == case.inputs[i].utxo { 'o' } else { 'x' }).collect(),
    }
}

/// the interpreter parameter on one point (the interpreter module directly, no psbt code)
fn interp_oracle(case: &Case, p: &Psbt, i: usize, ss: &ScriptBuf, w: &Witness) -> bool {
    let utxos: Vec<TxOut> = match psbt_prevouts(p) { Some(v) => v, None => return false };
    let spk = &utxos[i].script_pubkey;
    let _ = case;
    let tx = &p.unsigned_tx;
    let r = catch_unwind(AssertUnwindSafe(|| {
        match Interpreter::from_txdata(spk, ss, w, tx.input[i].sequence, tx.lock_time) {
            Err(_) => false,
            Ok(int) => {
                let pv = Prevouts::All(&utxos);
                let ok = int.iter(secp(), tx, i, &pv).all(|r| r.is_ok());
                ok
            }
        }
    }));
    r.unwrap_or(false)
}

/// canonical description of the satisfaction-relevant contents of input `i`
fn field_sig(case: &Case, p: &Psbt, i: usize) -> String {
    let c = &case.inputs[i];
    let inp = &p.inputs[i];
    let mut t: Vec<String> = vec![];
    for k in 0..NKEYS {
        if c.spec.kind == Kind::Tr {
            // all leaves of a key are inserted together
            let mut st: Option<bool> = None;
            for (li, leaf) in c.spec.leaves.iter().enumerate() {
                if let Some((g, _)) = c.tapsigs.get(&(k, li)) {
                    let x = key(k).public.inner.x_only_public_key().0;
                    if let Some(s) = inp.tap_script_sigs.get(&(x, leaf.hash)) { st = Some(s == g); }
                }
            }
            if let Some(g) = st { t.push(format!("{}{}", if g { "s" } else { "b" }, k)); }
        } else if let Some(s) = inp.partial_sigs.get(&key(k).public) {
            t.push(format!("{}{}", if *s == c.ecdsa[k as usize].0 { "s" } else { "b" }, k));
        }
    }
    for j in 0..NHASHES {
        let (kind, h) = hashes()[j];
        let v = ast::hash_value(kind, h);
        let got = match kind {
            HK::Sha256 => inp.sha256_preimages.get(&sha256::Hash::from_slice(&v).unwrap()),
            HK::Hash256 => inp.hash256_preimages.get(&sha256d::Hash::from_slice(&v).unwrap()),
            HK::Ripemd160 => inp.ripemd160_preimages.get(&ripemd160::Hash::from_slice(&v).unwrap()),
            HK::Hash160 => inp.hash160_preimages.get(&hash160::Hash::from_slice(&v).unwrap()),
        };
        if let Some(pre) = got { t.push(format!("{}{}", if pre[..] == ast::preimage(h)[..] { "p" } else { "q" }, j)); }
    }
    if c.spec.kind == Kind::Tr && !inp.tap_scripts.is_empty() { t.push("u".into()); }
    if inp.tap_scripts.values().any(|(_, v)| *v != LeafVersion::TapScript) { t.push("L".into()); }
    // which inputs record key origins (a raw key hash can be resolved through them)
    for (j, other) in p.inputs.iter().enumerate() {
        if !other.bip32_derivation.is_empty() || !other.tap_key_origins.is_empty() { t.push(format!("O{}", j)); }
    }
    if t.is_empty() { "-".into() } else { t.join("+") }
}

/// `<kind>:<single key|->:<utxo mode>:<keys>:<leaf key sets>:<internal key>:<script decodes>` per input
fn setup_tok(case: &Case) -> String {
    case.inputs.iter().map(|c| {
        let single = match c.spec.kind { Kind::Pk | Kind::Pkh | Kind::Wpkh | Kind::ShWpkh => c.spec.keys[0].to_string(), _ => "-".into() };
        let keys = c.spec.keys.iter().map(|k| k.to_string()).collect::<Vec<_>>().join("+");
        let leaves = if c.spec.leaves.is_empty() { "-".to_string() } else {
            c.spec.leaves.iter().map(|l| if l.keys.is_empty() { "_".to_string() } else { l.keys.iter().map(|k| k.to_string()).collect::<Vec<_>>().join("+") }).collect::<Vec<_>>().join("|")
        };
        let ik = match &c.spec.derived { Descriptor::Tr(tr) => key_id(tr.internal_key()).map(|k| k.to_string()).unwrap_or("-".into()), _ => "-".into() };
        // does the script the finalizer will see decode in its context?  (decode_consensus is
        // outside the psbt module: a parameter of the model)
        let dec = {
            use miniscript::{BareCtx, Legacy, Miniscript, Segwitv0};
            match c.spec.kind {
                Kind::Wsh | Kind::ShWsh => c.spec.derived.explicit_script().ok().map(|s| Miniscript::<PublicKey, Segwitv0>::decode_consensus(&s).is_ok()).unwrap_or(false),
                Kind::Sh => c.spec.derived.explicit_script().ok().map(|s| Miniscript::<PublicKey, Legacy>::decode_consensus(&s).is_ok()).unwrap_or(false),
                Kind::Pk | Kind::Bare => Miniscript::<PublicKey, BareCtx>::decode_consensus(&c.utxo.script_pubkey).is_ok(),
                _ => true,
            }
        };
        format!("{}:{}:{}:{}:{}:{}:{}", c.spec.kind.name(), single, c.mode.name(), keys, leaves, ik, dec as u8)
    }).collect::<Vec<_>>().join(";")
}

#[derive(Default)]
struct Oracle { entries: BTreeMap<String, String>, observed: BTreeSet<String> }
impl Oracle {
    fn tok(&self) -> String {
        if self.entries.is_empty() { "-".into() } else { self.entries.iter().map(|(k, v)| format!("{}={}", k, v)).collect::<Vec<_>>().join(";") }
    }
    /// record every parameter value the model may ask for when `op` is applied to `p`
    fn prepare(&mut self, case: &Case, p: &Psbt, op: &Op) {
        let n = case.inputs.len();
        self.entries.insert("G".into(), wit_tok(&garbage_witness()));
        for i in 0..n {
            if let Some((g, b)) = case.inputs[i].keysig {
                self.entries.insert(format!("K{}.g", i), wit_tok(&Witness::from_slice(&[g.to_vec()])));
                self.entries.insert(format!("K{}.b", i), wit_tok(&Witness::from_slice(&[b.to_vec()])));
            }
        }
        let targets: Vec<(usize, bool)> = match op {
            Op::Fin | Op::OldFin => (0..n).map(|i| (i, false)).collect(),
            Op::FinMall | Op::OldFinMall => (0..n).map(|i| (i, true)).collect(),
            Op::FinInp(i) if *i < n => vec![(*i, false)],
            Op::FinInpMall(i) if *i < n => vec![(*i, true)],
            _ => vec![],
        };
        let is_loop = matches!(op, Op::Fin | Op::FinMall | Op::OldFin | Op::OldFinMall);
        for (i, mall) in targets {
            if is_final(&p.inputs[i]) { continue; }
            // inside a loop over all inputs the earlier inputs may have been finalized by the time
            // input i is reached (their origin maps are then gone, and with them keys a raw key hash
            // can be resolved to): supply the parameter for every such state
            let earlier: Vec<usize> = if is_loop { (0..i).filter(|j| !is_final(&p.inputs[*j])).collect() } else { vec![] };
            for mask in 0..(1usize << earlier.len()) {
            let mut pv = p.clone();
            for (b, j) in earlier.iter().enumerate() { if mask >> b & 1 == 1 { pv.inputs[*j].bip32_derivation.clear(); pv.inputs[*j].tap_key_origins.clear(); } }
            let p = &pv;
            let fs = field_sig(case, p, i);
            let key_ = format!("S{}.{}.{}", i, mall as u8, fs);
            let r = sat_oracle(case, p, i, mall);
            if r.is_none() && case.inputs[i].spec.kind != Kind::Tr && mask == 0 {
                // OBSERVATION: the descriptor itself (which knows its keys) could be satisfied with these
                // signatures, but a finalizer cannot: a pkh() key that has to be pushed WITHOUT a signature
                // (dissatisfied branch) is only known through bip32_derivation, i.e. as a compressed key
                let direct = { let sat = field_sat(p, i); if mall { case.inputs[i].spec.derived.get_satisfaction_mall(&sat) } else { case.inputs[i].spec.derived.get_satisfaction(&sat) } };
                if direct.is_ok() && !p.inputs[i].bip32_derivation.is_empty() && p.inputs[i].witness_script.is_some() | p.inputs[i].redeem_script.is_some() | (case.inputs[i].spec.kind == Kind::Bare) {
                    self.observed.insert(format!("{}", case.inputs[i].spec.tmpl));
                }
            }
            let mut cands: Vec<(ScriptBuf, Witness)> = vec![];
            match &r {
                None => { self.entries.insert(key_, "none".into()); }
                Some((ss, w)) => { self.entries.insert(key_, format!("{}/{}", ss_tok(ss), wit_tok(w))); cands.push((ss.clone(), w.clone())); }
            }
            if let (Some(sig), Some(_)) = (p.inputs[i].tap_key_sig, p.inputs[i].tap_internal_key) {
                cands.push((ScriptBuf::new(), Witness::from_slice(&[sig.to_vec()])));
            }
            for (ss, w) in cands {
                let ok = interp_oracle(case, p, i, &ss, &w);
                self.entries.insert(format!("I{}.{}.{}/{}", i, utxo_view_tok(case, p), ss_tok(&ss), wit_tok(&w)), if ok { "ok" } else { "err" }.into());
            }
            }
        }
        if *op == Op::Extract {
            for i in 0..n {
                if !is_final(&p.inputs[i]) { continue; }
                let ss = p.inputs[i].final_script_sig.clone().unwrap_or_default();
                let w = p.inputs[i].final_script_witness.clone().unwrap_or_default();
                let ok = interp_oracle(case, p, i, &ss, &w);
                self.entries.insert(format!("I{}.{}.{}/{}", i, utxo_view_tok(case, p), ss_tok(&ss), wit_tok(&w)), if ok { "ok" } else { "err" }.into());
            }
        }
    }
}

/* ------------------------------------------------------------------ judges */

fn last_push(script: &ScriptBuf) -> Option<Vec<u8>> {
    let mut last = None;
    for ins in script.instructions() {
        match ins { Ok(miniscript::bitcoin::script::Instruction::PushBytes(b)) => last = Some(b.as_bytes().to_vec()), Ok(_) => {}, Err(_) => return None }
    }
    last
}

/// multi-input version of `desc::register_valid`: from the PRODUCED data only, work out the
/// digest each signature must verify against (input `idx` of `tx`, all prevouts), verify the
/// candidates with libsecp256k1 and register the valid ones for the Lean judge.
fn register_valid_at(out: &mut Out, tx: &Transaction, idx: usize, prevouts: &[TxOut], script_sig: &ScriptBuf,
                     witness: &[Vec<u8>], candidates: &[(Vec<u8>, Vec<u8>)]) {
    out.line("D clearsigs", "ok");
    for f in valid_facts(tx, idx, prevouts, script_sig, witness, candidates) { out.line(&format!("D {}", f), "ok"); }
}

/// the facts (`dsig <domain> <pk> <sig>`, `tapcommit <cb> <script> <output key>`) established with
/// rust-bitcoin / libsecp256k1 from the PRODUCED data only
fn valid_facts(tx: &Transaction, idx: usize, prevouts: &[TxOut], script_sig: &ScriptBuf,
               witness: &[Vec<u8>], candidates: &[(Vec<u8>, Vec<u8>)]) -> Vec<String> {
    struct Sink(Vec<String>);
    impl Sink { fn line(&mut self, l: &str, _: &str) { self.0.push(l.trim_start_matches("D ").to_string()); } }
    let mut sink = Sink(vec![]);
    let out = &mut sink;
    // a signature that occurs neither in the witness nor in the scriptSig cannot reach a CHECKSIG
    let present: Vec<(Vec<u8>, Vec<u8>)> = candidates.iter().filter(|(_, sig)|
        witness.iter().any(|w| w == sig) || contains_sub(script_sig.as_bytes(), sig)).cloned().collect();
    let candidates = &present[..];
    let prevout = &prevouts[idx];
    let spk = &prevout.script_pubkey;
    let mut cache = SighashCache::new(tx);
    let mut inner = spk.clone();
    if spk.is_p2sh() { if let Some(r) = last_push(script_sig) { inner = ScriptBuf::from_bytes(r); } }
    // the digest an ECDSA signature with sighash type `ty` must verify against
    let mut ecdsa_digest = |ty: EcdsaSighashType| -> Option<(u32, [u8; 32])> {
        if inner.is_p2wpkh() {
            cache.p2wpkh_signature_hash(idx, &inner, prevout.value, ty).ok().map(|h| (desc::DOM_SEGWITV0, h.to_byte_array()))
        } else if inner.is_p2wsh() {
            let ws = witness.last()?;
            cache.p2wsh_signature_hash(idx, &ScriptBuf::from_bytes(ws.clone()), prevout.value, ty).ok().map(|h| (desc::DOM_SEGWITV0, h.to_byte_array()))
        } else if !spk.is_p2tr() {
            cache.legacy_signature_hash(idx, &inner, ty.to_u32()).ok().map(|h| (desc::DOM_LEGACY, h.to_byte_array()))
        } else { None }
    };
    for (pk, sig) in candidates {
        if let (Ok(pk_), Ok(sig_)) = (PublicKey::from_slice(pk), ecdsa::Signature::from_slice(sig)) {
            if let Some((dom, digest)) = ecdsa_digest(sig_.sighash_type) {
                if secp().verify_ecdsa(&Message::from_digest(digest), &sig_.signature, &pk_.inner).is_ok() {
                    out.line(&format!("D dsig {} {} {}", dom, hex(pk), hex(sig)), "ok");
                }
            }
        }
    }
    let mut cache = SighashCache::new(tx);
    if spk.is_p2tr() {
        let outkey = XOnlyPublicKey::from_slice(&spk.as_bytes()[2..34]).ok();
        if witness.len() == 1 {
            if let (Some(ok), Ok(sig)) = (outkey, taproot::Signature::from_slice(&witness[0])) {
                if let Ok(d) = cache.taproot_key_spend_signature_hash(idx, &Prevouts::All(prevouts), sig.sighash_type) {
                    if secp().verify_schnorr(&sig.signature, &Message::from_digest(d.to_byte_array()), &ok).is_ok() {
                        out.line(&format!("D dsig {} {} {}", desc::DOM_TAPKEY, hex(&ok.serialize()), hex(&witness[0])), "ok");
                    }
                }
            }
        } else if witness.len() >= 2 {
            let script = ScriptBuf::from_bytes(witness[witness.len() - 2].clone());
            let cb_bytes = &witness[witness.len() - 1];
            if let (Some(ok), Ok(cb)) = (outkey, ControlBlock::decode(cb_bytes)) {
                if cb.verify_taproot_commitment(secp(), ok, &script) {
                    out.line(&format!("D tapcommit {} {} {}", hex(cb_bytes), hex(script.as_bytes()), hex(&ok.serialize())), "ok");
                }
            }
            let leaf = TapLeafHash::from_script(&script, LeafVersion::TapScript);
            for (pk, sig) in candidates {
                if let (Ok(x), Ok(s)) = (XOnlyPublicKey::from_slice(pk), taproot::Signature::from_slice(sig)) {
                    if let Ok(d) = cache.taproot_script_spend_signature_hash(idx, &Prevouts::All(prevouts), leaf, s.sighash_type) {
                        if secp().verify_schnorr(&s.signature, &Message::from_digest(d.to_byte_array()), &x).is_ok() {
                            out.line(&format!("D dsig {} {} {}", desc::DOM_TAPSCRIPT, hex(pk), hex(sig)), "ok");
                        }
                    }
                }
            }
        }
    }
    sink.0
}

/// every (pubkey, signature) the harness ever made for input `i` (good and bad)
fn candidates(c: &InpCase) -> Vec<(Vec<u8>, Vec<u8>)> {
    let mut v = vec![];
    for (k, (g, b)) in c.ecdsa.iter().enumerate() {
        v.push((key(k as u32).public.to_bytes(), g.to_vec()));
        v.push((key(k as u32).public.to_bytes(), b.to_vec()));
    }
    for ((k, _), (g, b)) in &c.tapsigs {
        let x = key(*k).public.inner.x_only_public_key().0.serialize().to_vec();
        v.push((x.clone(), g.to_vec()));
        v.push((x, b.to_vec()));
    }
    v
}

fn judge_spend_at(out: &mut Out, case: &Case, tx: &Transaction, i: usize, ss: &ScriptBuf, w: &Witness, info: &str) {
    judge_spend_with(out, case, tx, i, ss, w, info, &[])
}
fn judge_spend_with(out: &mut Out, case: &Case, tx: &Transaction, i: usize, ss: &ScriptBuf, w: &Witness, info: &str, extra: &[(Vec<u8>, Vec<u8>)]) {
    let prevouts: Vec<TxOut> = case.inputs.iter().map(|c| c.utxo.clone()).collect();
    let wv: Vec<Vec<u8>> = w.to_vec();
    let mut cands = candidates(&case.inputs[i]);
    cands.extend(extra.iter().cloned());
    if tx.version.0 != 2 {
        // `J spend` judges with transaction version 2; any other version goes through `J spendv`, which
        // carries the version and (inline) the validated signature facts
        let facts = valid_facts(tx, i, &prevouts, ss, &wv, &cands);
        let ft = if facts.is_empty() { "-".to_string() } else { facts.iter().map(|f| f.replace(' ', ":")).collect::<Vec<_>>().join(",") };
        out.line(&format!("J spendv {} {} {} {} {} {} {} | {}", tx.version.0, tx.lock_time.to_consensus_u32(), tx.input[i].sequence.to_consensus_u32(),
            hex(prevouts[i].script_pubkey.as_bytes()), hex(ss.as_bytes()), desc::wit_wire(&wv), ft, info), "ok");
        return;
    }
    register_valid_at(out, tx, i, &prevouts, ss, &wv, &cands);
    out.line(&format!("J spend {} {} {} {} {} | {}", tx.lock_time.to_consensus_u32(), tx.input[i].sequence.to_consensus_u32(),
        hex(prevouts[i].script_pubkey.as_bytes()), hex(ss.as_bytes()), desc::wit_wire(&wv), info), "ok");
}

fn verdict(out: &mut Out, name: &str, input: &str, bad: Option<String>) {
    let v = match bad { None => "ok".to_string(), Some(why) => format!("bad:{}", why.replace(' ', "_")) };
    out.line(&format!("J {} {} {}", name, input, v), "ok");
}

/// Drive one history on one case; emits the C line after every operation and all judges.
fn run_history(out: &mut Out, case: &Case, hist: &[Op], judged: &mut BTreeSet<String>) { run_history_from(out, case, hist, judged, 0) }

/// as `run_history`, but the lines (C and J) of the first `from_step` operations are not emitted
/// (they are applied, and their oracle values recorded, all the same): designated passes that share
/// a long common prefix judge only what follows it
fn run_history_from(out: &mut Out, case: &Case, hist: &[Op], judged: &mut BTreeSet<String>, from_step: usize) {
    let setup = setup_tok(case);
    let mut p = case.psbt0.clone();
    let mut oracle = Oracle::default();
    let mut obs_done: BTreeSet<String> = BTreeSet::new();
    let mut sofar: Vec<Op> = vec![];
    for op in hist {
        let before = p.clone();
        oracle.prepare(case, &p, op);
        let res = apply(case, &mut p, op);
        for t in oracle.observed.iter() {
            if obs_done.insert(t.clone()) { out.count(&format!("observation: satisfiable by the descriptor but not from the PSBT's fields: {}", if t.contains("or_i(") || t.contains("ln:") || t.contains("l:") { "legacy script with or_i is refused by the decoder" } else { "a pkh() key to be pushed without signature is known only as a compressed key (bip32_derivation)" })); }
        }
        sofar.push(op.clone());
        if sofar.len() <= from_step { continue; }
        let h = hist_tok(&sofar);
        out.line(&format!("C psbtstep {} {} {}", setup, h, oracle.tok()), &format!("{} {}", res, abs_state(&p)));
        out.count(&format!("op {} {}", op.tok().chars().next().unwrap(), if res.starts_with("ok") { "ok".to_string() } else { res.split(|c| c == ':' || c == '@').take(2).collect::<Vec<_>>().join(":") }));
        let id = format!("{} {}", case.label, h);
        // no operation of any history may panic (F8 / F8b are repaired; `v` = short previous tx)
        if res == "panic" { out.line(&format!("J nopanic psbt history {} PANIC", id), "ok"); }
        if matches!(op, Op::Update(_)) {
            // a refused update leaves the whole PSBT as it was; an accepted one touches only its input
            let bad = if res.starts_with("err") { if p.serialize() != before.serialize() { Some("refused-update-changed-psbt".to_string()) } else { None } }
                      else { (0..p.inputs.len()).find(|j| Op::Update(*j) != *op && p.inputs[*j] != before.inputs[*j]).map(|j| format!("input{}-changed", j)) };
            verdict(out, "update-atomic", &id, bad);
        }
        if matches!(op, Op::Fin | Op::FinMall | Op::FinInp(_) | Op::FinInpMall(_)) {
            // the by-value wrappers (finalize / finalize_mall / finalize_inp / finalize_inp_mall) return
            // the same result class and the same PSBT bytes as the `_mut` forms
            let byval = catch_unwind(AssertUnwindSafe(|| -> (String, Psbt) {
                let q = before.clone();
                let errs = |es: &Vec<miniscript::psbt::Error>| format!("err:{}", es.iter().map(err_class).collect::<Vec<_>>().join("+"));
                match op {
                    Op::Fin => match q.finalize(secp()) { Ok(x) => ("ok".into(), x), Err((x, es)) => (errs(&es), x) },
                    Op::FinMall => match q.finalize_mall(secp()) { Ok(x) => ("ok".into(), x), Err((x, es)) => (errs(&es), x) },
                    Op::FinInp(j) => match q.finalize_inp(secp(), *j) { Ok(x) => ("ok".into(), x), Err((x, e)) => (format!("err:{}", err_class(&e)), x) },
                    Op::FinInpMall(j) => match q.finalize_inp_mall(secp(), *j) { Ok(x) => ("ok".into(), x), Err((x, e)) => (format!("err:{}", err_class(&e)), x) },
                    _ => unreachable!(),
                }
            }));
            let bad = match byval {
                Err(_) => if res == "panic" { None } else { Some("by-value-form-panics".to_string()) },
                Ok((r2, q)) => if r2 != res { Some(format!("by-value-{}-mut-{}", r2, res)) } else if q.serialize() != p.serialize() { Some("bytes-differ".into()) } else { None },
            };
            verdict(out, "byvalue-agrees", &id, bad);
        }
        if op.is_finalize() || *op == Op::Extract {
            // final-untouched
            let mut bad = None;
            for i in 0..p.inputs.len() {
                if is_final(&before.inputs[i]) && p.inputs[i] != before.inputs[i] { bad = Some(format!("input{}-changed", i)); }
            }
            verdict(out, "final-untouched", &id, bad);
        }
        if op.is_finalize() {
            // atomic: an input is either byte-identical or (was not final and) is now final with
            // every other field except the utxos cleared; a failing single-input call changes nothing
            let mut bad = None;
            let failed: Vec<usize> = res.strip_prefix("err:").map(|e| e.split('+').filter_map(|x| x.split('@').nth(1).and_then(|n| n.parse().ok())).collect()).unwrap_or_default();
            for i in 0..p.inputs.len() {
                let same = p.inputs[i] == before.inputs[i];
                if !same {
                    let mut expect = psbt::Input::default();
                    expect.witness_utxo = before.inputs[i].witness_utxo.clone();
                    expect.non_witness_utxo = before.inputs[i].non_witness_utxo.clone();
                    expect.final_script_sig = p.inputs[i].final_script_sig.clone();
                    expect.final_script_witness = p.inputs[i].final_script_witness.clone();
                    if is_final(&before.inputs[i]) || !is_final(&p.inputs[i]) || p.inputs[i] != expect { bad = Some(format!("input{}-half-written", i)); }
                    if failed.contains(&i) && matches!(op, Op::Fin | Op::FinMall) { bad = Some(format!("input{}-failed-but-changed", i)); }
                }
                match op { Op::FinInp(j) | Op::FinInpMall(j) => { if *j != i && !same { bad = Some(format!("input{}-not-targeted-but-changed", i)); } }, _ => {} }
            }
            if matches!(op, Op::FinInp(_) | Op::FinInpMall(_)) && res.starts_with("err") && p.serialize() != before.serialize() { bad = Some("failing-finalize_inp-changed-psbt".into()); }
            if matches!(op, Op::OldFin | Op::OldFinMall) && res.starts_with("err") {
                // the deprecated loop stops at the first failing input: that input and every later one
                // are byte-identical (a sanity_check failure: the whole PSBT is)
                let first = (0..p.inputs.len()).find(|j| !is_final(&p.inputs[*j])).unwrap_or(p.inputs.len());
                for j in first..p.inputs.len() { if p.inputs[j] != before.inputs[j] { bad = Some(format!("input{}-changed-after-the-failing-input", j)); } }
            }
            if p.unsigned_tx != before.unsigned_tx || p.outputs != before.outputs { bad = Some("tx-or-outputs-changed".into()); }
            verdict(out, "atomic", &id, bad);
            // idempotent: the same call again returns the same class and changes nothing
            let mut q = p.clone();
            let res2 = apply(case, &mut q, op);
            let bad = if q.serialize() != p.serialize() { Some("second-call-changed-bytes".to_string()) }
                      else if res2 != res { Some(format!("second-call-{}-first-{}", res2, res)) } else { None };
            verdict(out, "idempotent", &id, bad);
            // mode-honoured: a freshly written scriptSig/witness is the one the satisfier yields in
            // the mode the entry point is documented to use (non-malleable unless `_mall`)
            {
                let modes: Vec<bool> = match op { Op::Fin | Op::OldFin | Op::FinInp(_) => vec![false], _ => vec![true] };
                let mut bad = None;
                for i in 0..p.inputs.len() {
                    if !is_final(&before.inputs[i]) && is_final(&p.inputs[i]) {
                        let ss = p.inputs[i].final_script_sig.clone().unwrap_or_default();
                        let w = p.inputs[i].final_script_witness.clone().unwrap_or_default();
                        let mut expect: Vec<(ScriptBuf, Witness)> = modes.iter().filter_map(|m| sat_oracle(case, &before, i, *m)).collect();
                        if let (Some(sig), Some(_)) = (before.inputs[i].tap_key_sig, before.inputs[i].tap_internal_key) {
                            if case.inputs[i].spec.kind == Kind::Tr { expect = vec![(ScriptBuf::new(), Witness::from_slice(&[sig.to_vec()]))]; }
                        }
                        if !expect.contains(&(ss, w)) { bad = Some(format!("input{}-not-the-{}-satisfaction", i, if modes == vec![true] { "malleable" } else { "non-malleable" })); }
                    }
                }
                verdict(out, "mode-honoured", &id, bad);
            }
            // spend: every newly finalized input
            for i in 0..p.inputs.len() {
                if !is_final(&before.inputs[i]) && is_final(&p.inputs[i]) {
                    let ss = p.inputs[i].final_script_sig.clone().unwrap_or_default();
                    let w = p.inputs[i].final_script_witness.clone().unwrap_or_default();
                    let k = format!("{} {} {} {}", case.label, i, ss_tok(&ss), wit_tok(&w));
                    if judged.insert(k) {
                        out.count(&format!("finalized {}", case.inputs[i].spec.kind.name()));
                        judge_spend_at(out, case, &p.unsigned_tx, i, &ss, &w, &format!("{} input={}", id, i));
                    }
                }
            }
        }
        if *op == Op::Extract {
            // `psbt::interpreter_check` (public) is the check `extract` runs: both accept or both refuse
            // whenever every input is final and the sanity check passes
            let all_final = p.inputs.iter().all(is_final);
            let ic = catch_unwind(AssertUnwindSafe(|| miniscript::psbt::interpreter_check(&p, secp()).is_ok()));
            let bad = match ic {
                Err(_) => Some("interpreter_check-panics".to_string()),
                Ok(okc) => if all_final && res.starts_with("ok") && !okc { Some("extract-ok-but-interpreter_check-fails".into()) }
                           else if all_final && res.starts_with("err:Interpreter") && okc { Some("extract-refuses-but-interpreter_check-ok".into()) } else { None },
            };
            verdict(out, "interpreter-check-agrees", &id, bad);
            // extract takes &self: nothing may change
            if p.serialize() != before.serialize() { verdict(out, "atomic", &format!("{} extract", id), Some("extract-changed-psbt".into())); }
        }
        if *op == Op::Extract && res.starts_with("ok") {
            if let Ok(tx) = p.extract(secp()) {
                out.count("extracted");
                for i in 0..tx.input.len() {
                    let k = format!("X {} {} {} {}", case.label, i, ss_tok(&tx.input[i].script_sig), wit_tok(&tx.input[i].witness));
                    if judged.insert(k) {
                        judge_spend_at(out, case, &tx, i, &tx.input[i].script_sig, &tx.input[i].witness, &format!("{} extracted input={}", id, i));
                    }
                }
                // the extracted transaction is the unsigned one plus scriptSigs / witnesses
                let mut stripped = tx.clone();
                for t in stripped.input.iter_mut() { t.script_sig = ScriptBuf::new(); t.witness = Witness::new(); }
                verdict(out, "extract-same-tx", &id, if stripped == p.unsigned_tx { None } else { Some("differs".into()) });
            }
        }
    }
}

fn progress_ops(case: &Case, i: usize) -> Vec<Op> {
    let c = &case.inputs[i];
    let mut v = vec![Op::Update(i)];
    for k in &c.spec.keys { v.push(Op::Sig(i, *k, true)); }
    for j in &c.spec.hashes { v.push(Op::Pre(i, *j, true)); }
    v
}

fn random_history(case: &Case, rng: &mut Rng) -> Vec<Op> {
    let n = case.inputs.len();
    let len = 4 + rng.below(9);
    let mut h: Vec<Op> = vec![];
    let mut todo: Vec<Op> = (0..n).flat_map(|i| progress_ops(case, i)).collect();
    while h.len() < len {
        let r = rng.below(100);
        let i = rng.below(n);
        let op = if r < 42 && !todo.is_empty() {
            // progress, mostly in order (update first), sometimes shuffled
            let idx = if rng.below(4) == 0 { rng.below(todo.len()) } else { 0 };
            todo.remove(idx)
        } else if r < 66 {
            match rng.below(12) { 0..=3 => Op::Fin, 4 => Op::FinMall, 5..=7 => Op::FinInp(i), 8 => Op::FinInpMall(i), 9 => Op::FinInp(n), 10 => Op::OldFin, _ => Op::OldFinMall }
        } else if r < 74 { Op::Extract }
        else {
            let c = &case.inputs[i];
            match rng.below(18) {
                0 => Op::Update(i),
                1 | 2 => Op::Sig(i, if c.spec.keys.is_empty() { 0 } else { *rng.pick(&c.spec.keys) }, false),
                3 => Op::Sig(i, rng.below(NKEYS as usize) as u32, true),
                4 => Op::KeySig(i, true),
                5 => Op::KeySig(i, rng.coin()),
                6 => if c.spec.hashes.is_empty() { Op::Pre(i, rng.below(4), true) } else { Op::Pre(i, *rng.pick(&c.spec.hashes), false) },
                7 => Op::Corrupt(i),
                8 => Op::Drop(i),
                9 => Op::Restore(i),
                10..=16 => match rng.below(12) { 0 | 1 => Op::ShortPrev(i), 2 => Op::SighashField(i), 3 | 4 => Op::DropOrigins(i), 5 => Op::OtherTxid(i),
                    6 => Op::Disagree(i), 7 => Op::WitnessOnly(i), 8 | 9 => Op::Stray(i), 10 => Op::LeafVersion(i), _ => Op::Garbage(i) },
                _ => { let v = progress_ops(case, i); v[rng.below(v.len())].clone() }
            }
        };
        h.push(op);
    }
    h
}

/// same multiset of field insertions in several orders => identical PSBT bytes before and after finalize
fn judge_order(out: &mut Out, case: &Case, rng: &mut Rng) {
    let n = case.inputs.len();
    let mut ops: Vec<Op> = vec![];
    for i in 0..n {
        for op in progress_ops(case, i) { if matches!(op, Op::Update(_)) || rng.below(5) != 0 { ops.push(op); } }
        if case.inputs[i].keysig.is_some() && rng.below(3) == 0 { ops.push(Op::KeySig(i, true)); }
    }
    let mut results: Vec<(Vec<u8>, String, Vec<u8>)> = vec![];
    let mut orders = vec![];
    for _ in 0..3 {
        let mut o = ops.clone();
        for a in (1..o.len()).rev() { let b = rng.below(a + 1); o.swap(a, b); }
        let mut p = case.psbt0.clone();
        for op in &o { apply(case, &mut p, op); }
        let pre = p.serialize();
        let res = apply(case, &mut p, &Op::Fin);
        results.push((pre, res, p.serialize()));
        orders.push(hist_tok(&o));
    }
    let bad = if results.iter().any(|r| r.0 != results[0].0) { Some("bytes-before-finalize-differ".to_string()) }
              else if results.iter().any(|r| r.1 != results[0].1) { Some("finalize-result-differs".to_string()) }
              else if results.iter().any(|r| r.2 != results[0].2) { Some("bytes-after-finalize-differ".to_string()) } else { None };
    out.count(&format!("order-independent finalize {}", results[0].1.split('@').next().unwrap_or("")));
    verdict(out, "order-independent", &format!("{} {}", case.label, orders.join("|")), bad);
}

/// after update_input_with_descriptor: scripts hash to the utxo's spk, every key has its origin,
/// taproot data verify with rust-bitcoin
fn judge_update(out: &mut Out, case: &Case) {
    let mut p = case.psbt0.clone();
    for i in 0..case.inputs.len() {
        let c = &case.inputs[i];
        let r = p.update_input_with_descriptor(i, &c.spec.desc);
        let mut bad: Option<String> = None;
        let inp = &p.inputs[i];
        let spk = &c.utxo.script_pubkey;
        if r.is_err() { bad = Some(format!("update-failed-{:?}", r)); }
        else {
            match c.spec.kind {
                Kind::Wsh => match &inp.witness_script { Some(ws) if ScriptBuf::new_p2wsh(&ws.wscript_hash()) == *spk => {}, _ => bad = Some("witness_script".into()) },
                Kind::ShWsh => match (&inp.witness_script, &inp.redeem_script) {
                    (Some(ws), Some(rs)) if ScriptBuf::new_p2wsh(&ws.wscript_hash()) == *rs && ScriptBuf::new_p2sh(&rs.script_hash()) == *spk => {}
                    _ => bad = Some("witness/redeem_script".into()) },
                Kind::Sh | Kind::ShWpkh => match &inp.redeem_script { Some(rs) if ScriptBuf::new_p2sh(&rs.script_hash()) == *spk => {}, _ => bad = Some("redeem_script".into()) },
                _ => {}
            }
            if matches!(c.spec.kind, Kind::Wsh | Kind::Pk | Kind::Pkh | Kind::Wpkh | Kind::Bare) && inp.redeem_script.is_some() { bad = Some("unexpected-redeem_script".into()); }
            if matches!(c.spec.kind, Kind::Sh | Kind::ShWpkh | Kind::Pk | Kind::Pkh | Kind::Wpkh | Kind::Bare) && inp.witness_script.is_some() { bad = Some("unexpected-witness_script".into()); }
            if c.spec.kind != Kind::Tr {
                // `bip32_derivation` is keyed by the curve point (rust-bitcoin: secp256k1::PublicKey): a
                // descriptor holding one point in both encodings has ONE entry for it, carrying the
                // origin of one of the two keys
                let points: BTreeSet<secp256k1::PublicKey> = c.spec.keys.iter().map(|k| key(*k).public.inner).collect();
                if inp.bip32_derivation.len() != points.len() { bad = Some("bip32-count".into()); }
                if points.len() != c.spec.keys.len() { out.count("observation: one curve point in both encodings shares one bip32_derivation entry"); }
                for k in &c.spec.keys {
                    let cands: Vec<&KeyInfo> = c.spec.keys.iter().map(|j| key(*j)).filter(|j| j.public.inner == key(*k).public.inner).collect();
                    match inp.bip32_derivation.get(&key(*k).public.inner) { Some((fp, path)) if cands.iter().any(|j| *fp == j.fp && *path == j.path) => {}, _ => bad = Some(format!("origin-K{}", k)) }
                }
                if inp.tap_internal_key.is_some() || !inp.tap_scripts.is_empty() || !inp.tap_key_origins.is_empty() || inp.tap_merkle_root.is_some() { bad = Some("unexpected-tap-fields".into()); }
            } else if let Descriptor::Tr(tr) = &c.spec.derived {
                let outkey = XOnlyPublicKey::from_slice(&spk.as_bytes()[2..34]).unwrap();
                let ik = tr.internal_key().inner.x_only_public_key().0;
                if inp.tap_internal_key != Some(ik) { bad = Some("tap_internal_key".into()); }
                let (tweaked, _) = ik.tap_tweak(secp(), inp.tap_merkle_root);
                if tweaked.to_inner() != outkey { bad = Some("tap_merkle_root".into()); }
                if inp.tap_scripts.len() != c.spec.leaves.len() { bad = Some("tap_scripts-count".into()); }
                for (cb, (script, ver)) in &inp.tap_scripts {
                    if *ver != LeafVersion::TapScript || !cb.verify_taproot_commitment(secp(), outkey, script) { bad = Some("control-block".into()); }
                    if cb.internal_key != ik || cb.leaf_version != LeafVersion::TapScript || cb.merkle_branch.len() > 128 { bad = Some("control-block-fields".into()); }
                }
                // exactly the descriptor's leaves: same (control block, script) set, nothing else
                let got: BTreeSet<(Vec<u8>, Vec<u8>)> = inp.tap_scripts.iter().map(|(cb, (s, _))| (cb.serialize(), s.to_bytes())).collect();
                let want: BTreeSet<(Vec<u8>, Vec<u8>)> = c.spec.leaves.iter().map(|l| (l.cb.serialize(), l.script.to_bytes())).collect();
                if got != want { bad = Some("tap_scripts-set".into()); }
                if inp.tap_merkle_root.is_some() != !c.spec.leaves.is_empty() { bad = Some("tap_merkle_root-presence".into()); }
                if !bip32_empty_ok(inp) { bad = Some("unexpected-bip32".into()); }
                if inp.tap_key_origins.len() != c.spec.keys.len() { bad = Some("tap_key_origins-count".into()); }
                for k in &c.spec.keys {
                    let x = key(*k).public.inner.x_only_public_key().0;
                    let mut want: Vec<TapLeafHash> = c.spec.leaves.iter().filter(|l| l.keys.contains(k))
                        .map(|l| TapLeafHash::from_script(&l.script, LeafVersion::TapScript)).collect();
                    want.sort(); want.dedup();
                    match inp.tap_key_origins.get(&x) {
                        Some((lhs, (fp, path))) if *fp == key(*k).fp && *path == key(*k).path && *lhs == want => {}
                        _ => bad = Some(format!("tap-origin-K{}", k)),
                    }
                }
            }
        }
        // the unchecked updater (PsbtInputExt::update_with_descriptor_unchecked) writes exactly the same
        // fields and returns the derived descriptor
        {
            use miniscript::psbt::PsbtInputExt;
            let mut raw = case.psbt0.inputs[i].clone();
            let r2 = raw.update_with_descriptor_unchecked(&c.spec.desc);
            let bad2 = match r2 {
                Err(_) => Some("unchecked-update-failed".to_string()),
                Ok(d) => if r.is_ok() && raw != p.inputs[i] { Some("fields-differ-from-checked-update".into()) }
                         else if d != c.spec.derived { Some("returned-descriptor-differs".into()) } else { None },
            };
            verdict(out, "update-unchecked-agrees", &format!("{}@{}", c.spec.tmpl, c.mode.name()), bad2);
        }
        // updating twice changes nothing
        let once = p.inputs[i].clone();
        let _ = p.update_input_with_descriptor(i, &c.spec.desc);
        if p.inputs[i] != once { bad = Some("second-update-changed-input".into()); }
        out.count(&format!("update-consistent {}", c.spec.kind.name()));
        verdict(out, "update-consistent", &format!("{}@{}", c.spec.tmpl, c.mode.name()), bad);
        // a descriptor with another script_pubkey is refused and leaves the input alone
        let other = &case.inputs[(i + 1) % case.inputs.len()].spec;
        if other.derived.script_pubkey() != *spk {
            let mut q = case.psbt0.clone();
            let r = q.update_input_with_descriptor(i, &other.desc);
            let bad = if r.is_ok() { Some("accepted".to_string()) } else if q.inputs[i] != case.psbt0.inputs[i] { Some("refused-but-changed".into()) } else { None };
            verdict(out, "update-mismatch-refused", &format!("{}@{} with {}", c.spec.tmpl, c.mode.name(), other.tmpl), bad);
        }
    }
    judge_update_outputs(out, case);
}

/// `update_output_with_descriptor` on EVERY output: exact contents for the descriptor that pays
/// to it, refusal (and no change) for any other descriptor and for an index out of range.
fn judge_update_outputs(out: &mut Out, case: &Case) {
    let base = { let mut p = case.psbt0.clone(); if p.outputs.len() != p.unsigned_tx.output.len() { p.outputs.resize(p.unsigned_tx.output.len(), Default::default()); } p };
    for (j, od) in case.out_desc.iter().enumerate() {
        let mut p = base.clone();
        let mut bad: Option<String> = None;
        let spk = p.unsigned_tx.output[j].script_pubkey.clone();
        // a descriptor with another script_pubkey is refused and leaves the output alone
        for c2 in case.inputs.iter() {
            if c2.spec.derived.script_pubkey() != spk {
                let r = p.update_output_with_descriptor(j, &c2.spec.desc);
                if r.is_ok() { bad = Some("mismatching-descriptor-accepted".into()); }
                if p.outputs[j] != base.outputs[j] { bad = Some("refused-but-changed".into()); }
            }
        }
        if let Some(ix) = od {
            let c = &case.inputs[*ix];
            let r = p.update_output_with_descriptor(j, &c.spec.desc);
            let o = p.outputs[j].clone();
            if r.is_err() { bad = Some(format!("update-failed-{:?}", r)); }
            else if c.spec.kind == Kind::Tr {
                if let Descriptor::Tr(tr) = &c.spec.derived {
                    let ik = tr.internal_key().inner.x_only_public_key().0;
                    let outkey = XOnlyPublicKey::from_slice(&spk.as_bytes()[2..34]).unwrap();
                    if o.tap_internal_key != Some(ik) { bad = Some("tap_internal_key".into()); }
                    if !o.bip32_derivation.is_empty() || o.witness_script.is_some() || o.redeem_script.is_some() { bad = Some("unexpected-non-tap-fields".into()); }
                    // key -> (leaf hashes, origin), exactly
                    let mut want: BTreeMap<XOnlyPublicKey, (Vec<TapLeafHash>, (Fingerprint, DerivationPath))> = BTreeMap::new();
                    for k in &c.spec.keys {
                        let mut lhs: Vec<TapLeafHash> = c.spec.leaves.iter().filter(|l| l.keys.contains(k)).map(|l| TapLeafHash::from_script(&l.script, LeafVersion::TapScript)).collect();
                        lhs.sort(); lhs.dedup();
                        want.insert(key(*k).public.inner.x_only_public_key().0, (lhs, (key(*k).fp, key(*k).path.clone())));
                    }
                    if o.tap_key_origins != want { bad = Some("tap_key_origins".into()); }
                    match (&o.tap_tree, c.spec.leaves.is_empty()) {
                        (None, true) => {}
                        (Some(t), false) => {
                            // exact leaf set with depths and scripts ...
                            let got: BTreeSet<(usize, Vec<u8>, u8)> = t.script_leaves().map(|l| (l.merkle_branch().len(), l.script().to_bytes(), l.version().to_consensus())).collect();
                            let wantl: BTreeSet<(usize, Vec<u8>, u8)> = c.spec.leaves.iter().map(|l| (l.cb.merkle_branch.len(), l.script.to_bytes(), LeafVersion::TapScript.to_consensus())).collect();
                            if got != wantl { bad = Some("tap_tree-leaves".into()); }
                            // ... and the tree as a whole commits to the output key (rust-bitcoin only)
                            for l in t.script_leaves() {
                                let mut h = miniscript::bitcoin::taproot::TapNodeHash::from(TapLeafHash::from_script(l.script(), l.version()));
                                for sib in l.merkle_branch().iter() { h = miniscript::bitcoin::taproot::TapNodeHash::from_node_hashes(h, *sib); }
                                if ik.tap_tweak(secp(), Some(h)).0.to_inner() != outkey { bad = Some("tap_tree-leaf-does-not-commit-to-output-key".into()); }
                            }
                        }
                        _ => bad = Some("tap_tree-presence".into()),
                    }
                }
            } else {
                let points: BTreeSet<secp256k1::PublicKey> = c.spec.keys.iter().map(|k| key(*k).public.inner).collect();
                if o.bip32_derivation.len() != points.len() { bad = Some("bip32_derivation-count".into()); }
                for (pt, (fp, path)) in &o.bip32_derivation {
                    if !c.spec.keys.iter().map(|j| key(*j)).any(|j| j.public.inner == *pt && j.fp == *fp && j.path == *path) { bad = Some("bip32_derivation".into()); }
                }
                if o.tap_internal_key.is_some() || o.tap_tree.is_some() || !o.tap_key_origins.is_empty() { bad = Some("unexpected-tap-fields".into()); }
                let ok = match c.spec.kind {
                    Kind::Wsh => matches!((&o.witness_script, &o.redeem_script), (Some(ws), None) if ScriptBuf::new_p2wsh(&ws.wscript_hash()) == spk),
                    Kind::ShWsh => matches!((&o.witness_script, &o.redeem_script), (Some(ws), Some(rs)) if ScriptBuf::new_p2wsh(&ws.wscript_hash()) == *rs && ScriptBuf::new_p2sh(&rs.script_hash()) == spk),
                    Kind::Sh => matches!((&o.witness_script, &o.redeem_script), (None, Some(rs)) if ScriptBuf::new_p2sh(&rs.script_hash()) == spk),
                    Kind::ShWpkh => matches!((&o.witness_script, &o.redeem_script), (None, Some(rs)) if ScriptBuf::new_p2sh(&rs.script_hash()) == spk
                        && key(c.spec.keys[0]).public.wpubkey_hash().map(|h| ScriptBuf::new_p2wpkh(&h) == *rs).unwrap_or(false)),
                    _ => o.witness_script.is_none() && o.redeem_script.is_none(),
                };
                if !ok { bad = Some("witness_script/redeem_script".into()); }
            }
            // updating twice changes nothing
            let _ = p.update_output_with_descriptor(j, &c.spec.desc);
            if p.outputs[j] != o { bad = Some("second-update-changed-output".into()); }
            out.count(&format!("update-output-consistent {}", c.spec.kind.name()));
        } else {
            out.count("update-output-consistent plain-output");
        }
        // the other outputs are never touched
        for j2 in 0..p.outputs.len() { if j2 != j && p.outputs[j2] != base.outputs[j2] { bad = Some(format!("output{}-changed", j2)); } }
        verdict(out, "update-output-consistent", &format!("{} out={}", case.label, j), bad);
    }
    // index out of range
    let mut p = base.clone();
    let r = p.update_output_with_descriptor(base.outputs.len(), &case.inputs[0].spec.desc);
    verdict(out, "update-output-consistent", &format!("{} out=out-of-range", case.label),
        if r.is_ok() { Some("accepted".to_string()) } else if p.outputs != base.outputs { Some("changed".into()) } else { None });
}
fn bip32_empty_ok(inp: &psbt::Input) -> bool { inp.bip32_derivation.is_empty() && inp.redeem_script.is_none() && inp.witness_script.is_none() }

/// `sighash_msg` (library) equals the digest computed with rust-bitcoin's SighashCache
fn judge_sighash(out: &mut Out, case: &Case) {
    let mut p = case.psbt0.clone();
    for i in 0..case.inputs.len() { let _ = p.update_input_with_descriptor(i, &case.inputs[i].spec.desc); }
    let prevouts: Vec<TxOut> = case.inputs.iter().map(|c| c.utxo.clone()).collect();
    for i in 0..case.inputs.len() {
        let c = &case.inputs[i];
        let mut cache = SighashCache::new(&p.unsigned_tx);
        let mut mine = SighashCache::new(&p.unsigned_tx);
        let mut checks: Vec<(String, Option<[u8; 32]>, Option<[u8; 32]>)> = vec![];
        if c.spec.kind == Kind::Tr {
            let lib = p.sighash_msg(i, &mut cache, None).ok().map(|m| *m.to_secp_msg().as_ref());
            let me = mine.taproot_key_spend_signature_hash(i, &Prevouts::All(&prevouts), TapSighashType::Default).ok().map(|h| h.to_byte_array());
            checks.push(("keypath".into(), lib, me));
            for (li, l) in c.spec.leaves.iter().enumerate() {
                let lib = p.sighash_msg(i, &mut cache, Some(l.hash)).ok().map(|m| *m.to_secp_msg().as_ref());
                let lh = TapLeafHash::from_script(&l.script, LeafVersion::TapScript);
                let me = mine.taproot_script_spend_signature_hash(i, &Prevouts::All(&prevouts), lh, TapSighashType::Default).ok().map(|h| h.to_byte_array());
                checks.push((format!("leaf{}", li), lib, me));
            }
        } else {
            let lib = p.sighash_msg(i, &mut cache, None).ok().map(|m| *m.to_secp_msg().as_ref());
            checks.push(("ecdsa".into(), lib, ecdsa_digest(&c.spec, &p.unsigned_tx, i, &c.utxo)));
        }
        for (what, lib, me) in checks {
            let bad = if lib.is_none() { Some("library-error".to_string()) } else if lib != me { Some("digest-differs".into()) } else { None };
            verdict(out, "sighash-agrees", &format!("{} input={} {}", case.label, i, what), bad);
        }
    }
}

fn ety_name(t: EcdsaSighashType) -> &'static str {
    match t { EcdsaSighashType::All => "ALL", EcdsaSighashType::None => "NONE", EcdsaSighashType::Single => "SINGLE",
        EcdsaSighashType::AllPlusAnyoneCanPay => "ALL|ACP", EcdsaSighashType::NonePlusAnyoneCanPay => "NONE|ACP", EcdsaSighashType::SinglePlusAnyoneCanPay => "SINGLE|ACP" }
}
fn tty_name(t: TapSighashType) -> &'static str {
    match t { TapSighashType::Default => "DEFAULT", TapSighashType::All => "ALL", TapSighashType::None => "NONE", TapSighashType::Single => "SINGLE",
        TapSighashType::AllPlusAnyoneCanPay => "ALL|ACP", TapSighashType::NonePlusAnyoneCanPay => "NONE|ACP", TapSighashType::SinglePlusAnyoneCanPay => "SINGLE|ACP" }
}

/// put every good preimage of the descriptor into input `i`
fn add_preimages(case: &Case, p: &mut Psbt, i: usize) {
    for j in case.inputs[i].spec.hashes.clone() { apply(case, p, &Op::Pre(i, j, true)); }
}

/// Every sighash type: (a) `sighash_msg` with the PSBT's `sighash_type` field set equals the
/// digest computed with rust-bitcoin's SighashCache for that type (both fail together, e.g.
/// taproot SINGLE without a matching output); (b) signatures of that type made over the
/// INDEPENDENT digest finalize exactly when the default-type signatures do, and the result is
/// a valid spend (Lean verifySpend; the signature is validated against the digest of its own
/// sighash byte).
fn judge_sighash_types(out: &mut Out, case: &Case) {
    let n = case.inputs.len();
    let mut upd = case.psbt0.clone();
    for i in 0..n { let _ = upd.update_input_with_descriptor(i, &case.inputs[i].spec.desc); }
    let prevouts: Vec<TxOut> = case.inputs.iter().map(|c| c.utxo.clone()).collect();
    let tx = upd.unsigned_tx.clone();
    for i in 0..n {
        let c = &case.inputs[i];
        // reference: default-type signatures
        let reference = |keypath: bool| -> bool {
            let mut p = upd.clone();
            if keypath { apply(case, &mut p, &Op::KeySig(i, true)); }
            else { for op in progress_ops(case, i) { apply(case, &mut p, &op); } }
            apply(case, &mut p, &Op::FinInp(i)) == "ok"
        };
        if c.spec.kind == Kind::Tr {
            let ik = match &c.spec.derived { Descriptor::Tr(tr) => key_id(tr.internal_key()).unwrap(), _ => unreachable!() };
            let root = match &c.spec.derived { Descriptor::Tr(tr) => tr.spend_info().merkle_root(), _ => unreachable!() };
            let ref_script = !c.spec.leaves.is_empty() && reference(false);
            let ref_key = reference(true);
            for ty in TAP_TYPES {
                let mut p = upd.clone();
                p.inputs[i].sighash_type = Some(ty.into());
                let mut cache = SighashCache::new(&tx);
                let mut targets: Vec<(String, Option<TapLeafHash>, Option<&ScriptBuf>)> = vec![("keypath".into(), None, None)];
                for (li, l) in c.spec.leaves.iter().enumerate() { targets.push((format!("leaf{}", li), Some(l.hash), Some(&l.script))); }
                for (what, lh, ls) in &targets {
                    let lib = p.sighash_msg(i, &mut cache, *lh).ok().map(|m| *m.to_secp_msg().as_ref());
                    let me = tap_digest_typed(&tx, i, &prevouts, *ls, ty);
                    out.count(&format!("sighash type tap {} {}", tty_name(ty), if me.is_some() { "digest" } else { "no-digest" }));
                    verdict(out, "sighash-agrees", &format!("{} input={} {} type={}", case.label, i, what, tty_name(ty)),
                        if lib != me { Some(if lib.is_none() { "library-error".to_string() } else if me.is_none() { "library-digest-where-none-exists".into() } else { "digest-differs".into() }) } else { None });
                }
                // key path with a signature of this type
                if let Some(d) = tap_digest_typed(&tx, i, &prevouts, None, ty) {
                    let kp = secp256k1::Keypair::from_secret_key(secp(), &key(ik).secret).tap_tweak(secp(), root).to_inner();
                    let mut sig = sign_schnorr(d, &kp); sig.sighash_type = ty;
                    let mut q = p.clone();
                    q.inputs[i].tap_key_sig = Some(sig);
                    let r = apply(case, &mut q, &Op::FinInp(i));
                    let id = format!("{} input={} keypath type={}", case.label, i, tty_name(ty));
                    verdict(out, "sighash-type-finalizes", &id, if ref_key && r != "ok" { Some(format!("default-type-finalizes-but-{}", r)) } else { None });
                    if r == "ok" {
                        let w = q.inputs[i].final_script_witness.clone().unwrap_or_default();
                        judge_spend_with(out, case, &tx, i, &ScriptBuf::new(), &w, &id, &[]);
                    }
                }
                // script path with signatures of this type
                if !c.spec.leaves.is_empty() {
                    let mut q = p.clone();
                    let mut extra = vec![];
                    let mut all = true;
                    for (li, l) in c.spec.leaves.iter().enumerate() {
                        match tap_digest_typed(&tx, i, &prevouts, Some(&l.script), ty) {
                            None => all = false,
                            Some(d) => for k in &l.keys {
                                let kp = secp256k1::Keypair::from_secret_key(secp(), &key(*k).secret);
                                let mut sig = sign_schnorr(d, &kp); sig.sighash_type = ty;
                                let x = key(*k).public.inner.x_only_public_key().0;
                                q.inputs[i].tap_script_sigs.insert((x, l.hash), sig);
                                extra.push((x.serialize().to_vec(), sig.to_vec()));
                                let _ = li;
                            }
                        }
                    }
                    if all {
                        add_preimages(case, &mut q, i);
                        let r = apply(case, &mut q, &Op::FinInp(i));
                        let id = format!("{} input={} scriptpath type={}", case.label, i, tty_name(ty));
                        verdict(out, "sighash-type-finalizes", &id, if ref_script && r != "ok" { Some(format!("default-type-finalizes-but-{}", r)) } else { None });
                        if r == "ok" {
                            let w = q.inputs[i].final_script_witness.clone().unwrap_or_default();
                            judge_spend_with(out, case, &tx, i, &ScriptBuf::new(), &w, &id, &extra);
                        }
                    }
                }
            }
        } else {
            let refok = reference(false);
            for ty in ECDSA_TYPES {
                let mut p = upd.clone();
                p.inputs[i].sighash_type = Some(ty.into());
                let mut cache = SighashCache::new(&tx);
                let lib = p.sighash_msg(i, &mut cache, None).ok().map(|m| *m.to_secp_msg().as_ref());
                let me = ecdsa_digest_typed(&c.spec, &tx, i, &c.utxo, ty);
                out.count(&format!("sighash type ecdsa {} {}{}", ety_name(ty), if me.is_some() { "digest" } else { "no-digest" },
                    if i >= tx.output.len() && matches!(ty, EcdsaSighashType::Single | EcdsaSighashType::SinglePlusAnyoneCanPay) { " (no matching output)" } else { "" }));
                verdict(out, "sighash-agrees", &format!("{} input={} ecdsa type={}", case.label, i, ety_name(ty)),
                    if lib != me { Some(if lib.is_none() { "library-error".to_string() } else { "digest-differs".into() }) } else { None });
                if let Some(d) = me {
                    let mut q = p.clone();
                    let mut extra = vec![];
                    for k in &c.spec.keys {
                        let mut sig = sign_ecdsa(d, &key(*k).secret); sig.sighash_type = ty;
                        q.inputs[i].partial_sigs.insert(key(*k).public, sig);
                        extra.push((key(*k).public.to_bytes(), sig.to_vec()));
                    }
                    add_preimages(case, &mut q, i);
                    let r = apply(case, &mut q, &Op::FinInp(i));
                    let id = format!("{} input={} type={}", case.label, i, ety_name(ty));
                    verdict(out, "sighash-type-finalizes", &id, if refok && r != "ok" { Some(format!("default-type-finalizes-but-{}", r)) } else { None });
                    if r == "ok" {
                        let ss = q.inputs[i].final_script_sig.clone().unwrap_or_default();
                        let w = q.inputs[i].final_script_witness.clone().unwrap_or_default();
                        judge_spend_with(out, case, &tx, i, &ss, &w, &id, &extra);
                        // the extractor accepts it as well (sighash_type field and signature bytes agree)
                        if n == 1 {
                            let rx = apply(case, &mut q, &Op::Extract);
                            verdict(out, "sighash-type-extracts", &id, if rx.starts_with("ok") { None } else { Some(rx) });
                        }
                    }
                }
            }
        }
    }
}

/// OBSERVATION (not a judge: the property does not say that the finalizer must refuse it, and the
/// spend is valid): what each entry point does with signatures whose sighash byte contradicts the
/// input's `sighash_type` field (field SINGLE, signatures ALL / DEFAULT).  The histories go through
/// the normal stream, so the Lean state machine is compared step by step (`C psbtstep`, incl. the
/// `sanity_check` of the deprecated finalize and of extract) and every finalized input is verified
/// by the Lean verifySpend (`J spend`).
fn observe_sighash_mismatch(out: &mut Out, spec: &Spec, rng: &mut Rng, judged: &mut BTreeSet<String>) {
    let case = build_case(vec![spec.clone()], rng);
    let mut base: Vec<Op> = progress_ops(&case, 0);
    if spec.kind == Kind::Tr && spec.leaves.is_empty() { base.push(Op::KeySig(0, true)); }
    // reference: without the contradiction the input finalizes
    { let mut q = case.psbt0.clone(); for op in &base { apply(&case, &mut q, op); } if apply(&case, &mut q, &Op::Fin) != "ok" { out.count("observation: sighash-mismatch skipped (not finalizable)"); return; } }
    base.push(Op::SighashField(0));
    for (name, ops) in [("finalize_mut", vec![Op::Fin]), ("finalize_mall_mut", vec![Op::FinMall]), ("finalize_inp_mut", vec![Op::FinInp(0)]),
                        ("finalize_inp_mall_mut", vec![Op::FinInpMall(0)]), ("deprecated-finalize", vec![Op::OldFin]), ("extract-after-finalize_mut", vec![Op::Fin, Op::Extract])] {
        let mut hist = base.clone();
        hist.extend(ops.iter().cloned());
        if hist.len() > 12 { let cut = hist.len() - 12; hist.drain(1..1 + cut); }
        let mut q = case.psbt0.clone();
        let mut last = String::new();
        for op in &hist { last = apply(&case, &mut q, op); }
        let class = if last.starts_with("ok") { "USED".to_string() } else { format!("refused:{}", last.split('@').next().unwrap().trim_start_matches("err:")) };
        out.count(&format!("observation: sighash-mismatch {} {} {}", if spec.kind == Kind::Tr { "taproot" } else { "ecdsa" }, name, class));
        run_history(out, &case, &hist, judged);
    }
}

/// pkh() fragments when the finalizer cannot map the key hash back to a key through
/// `bip32_derivation` / `tap_key_origins`: the script is then decoded with a RAW key hash and the
/// key comes from `partial_sigs` / `tap_script_sigs` (`lookup_raw_pkh_ecdsa_sig`,
/// `lookup_raw_pkh_tap_leaf_script_sig`).  The input must finalize to the same bytes as with
/// origins, and the result must be a valid spend (leaf `DUP HASH160 <hash160(x-only)>
/// EQUALVERIFY CHECKSIG` in taproot).
fn judge_rawpkh(out: &mut Out, spec: &Spec, rng: &mut Rng) {
    let case = build_case(vec![spec.clone()], rng);
    let mut full = case.psbt0.clone();
    for op in progress_ops(&case, 0) { apply(&case, &mut full, &op); }
    let mut variants: Vec<(&str, Psbt)> = vec![("with-origins", full.clone())];
    { let mut p = full.clone(); apply(&case, &mut p, &Op::DropOrigins(0)); variants.push(("origins-dropped", p)); }
    if spec.kind == Kind::Tr {
        // nothing but the leaf scripts and the signatures
        let mut p = case.psbt0.clone();
        p.inputs[0].tap_scripts = full.inputs[0].tap_scripts.clone();
        p.inputs[0].tap_script_sigs = full.inputs[0].tap_script_sigs.clone();
        p.inputs[0].sha256_preimages = full.inputs[0].sha256_preimages.clone();
        p.inputs[0].hash160_preimages = full.inputs[0].hash160_preimages.clone();
        variants.push(("tap_scripts-and-sigs-only", p));
    }
    let mut reference: Option<(String, Vec<u8>)> = None;
    for (name, v) in variants {
        let mut q = v.clone();
        let r = apply(&case, &mut q, &Op::Fin);
        let fin = (r.clone(), q.inputs[0].final_script_witness.as_ref().map(|w| miniscript::bitcoin::consensus::serialize(w)).unwrap_or_default()
            .into_iter().chain(q.inputs[0].final_script_sig.as_ref().map(|s| s.to_bytes()).unwrap_or_default()).collect::<Vec<u8>>());
        let bad = match &reference {
            None => { reference = Some(fin.clone()); None }
            // without origins the key behind a raw key hash is only known through a signature, so a
            // DIFFERENT valid spend may be chosen (e.g. or_b(pk(K7),a:pkh(K0)): the dissatisfaction
            // of pkh(K0) needs the key; with a raw hash the satisfier takes the other branch).  The
            // statement claims validity of what is produced (judged below), not equal bytes.
            Some(rf) => if rf.0 == "ok" && r != "ok" { Some(format!("differs-from-with-origins:{}", r)) }
                else { if rf.0 == "ok" && *rf != fin { out.count("observation: raw-pkh route finalizes to a different valid spend than with origins"); } None },
        };
        out.count(&format!("rawpkh {} {}", name, r.split('@').next().unwrap()));
        let id = format!("{} {}", spec.tmpl, name);
        verdict(out, "rawpkh-finalizes", &id, bad);
        if r == "ok" {
            let ss = q.inputs[0].final_script_sig.clone().unwrap_or_default();
            let w = q.inputs[0].final_script_witness.clone().unwrap_or_default();
            judge_spend_at(out, &case, &q.unsigned_tx, 0, &ss, &w, &format!("rawpkh {}", id));
        }
    }
}

/// `C psbtupd`: the redeem_script / witness_script recorded by `update_input_with_descriptor`,
/// byte for byte, against `Model/PsbtUpdate.updateScripts` over C16's descriptor model (real
/// SHA256 / HASH160 on the Lean side).  Descriptors from the shared AST generator with the
/// shared atom keys (compressed and, in legacy contexts, uncompressed); the atom tables travel
/// on the line.
fn emit_update_corr(out: &mut Out, rng: &mut Rng, thorough: bool) {
    struct Single;
    impl Translator<PublicKey> for Single {
        type TargetPk = DefiniteDescriptorKey;
        type Error = ();
        fn pk(&mut self, pk: &PublicKey) -> Result<DefiniteDescriptorKey, ()> { DefiniteDescriptorKey::from_str(&pk.to_string()).map_err(|_| ()) }
        fn sha256(&mut self, h: &sha256::Hash) -> Result<sha256::Hash, ()> { Ok(*h) }
        fn hash256(&mut self, h: &hash256::Hash) -> Result<hash256::Hash, ()> { Ok(*h) }
        fn ripemd160(&mut self, h: &ripemd160::Hash) -> Result<ripemd160::Hash, ()> { Ok(*h) }
        fn hash160(&mut self, h: &hash160::Hash) -> Result<hash160::Hash, ()> { Ok(*h) }
    }
    let mut emit = |out: &mut Out, wire: String, d: &Descriptor<PublicKey>, keys: Vec<u32>, hs: Vec<(HK, u32)>| {
        let dd = match d.translate_pk(&mut Single) { Ok(x) => x, Err(_) => return };
        let spk = d.script_pubkey();
        let prev = Transaction { version: transaction::Version::TWO, lock_time: absolute::LockTime::ZERO, input: vec![],
            output: vec![TxOut { value: Amount::from_sat(5000), script_pubkey: spk.clone() }] };
        let tx = Transaction { version: transaction::Version::TWO, lock_time: absolute::LockTime::ZERO,
            input: vec![TxIn { previous_output: OutPoint { txid: prev.compute_txid(), vout: 0 }, script_sig: ScriptBuf::new(), sequence: Sequence::MAX, witness: Witness::new() }],
            output: vec![TxOut { value: Amount::from_sat(4000), script_pubkey: spk }] };
        let mut p = Psbt::from_unsigned_tx(tx).unwrap();
        p.inputs[0].non_witness_utxo = Some(prev);
        if p.update_input_with_descriptor(0, &dd).is_err() { out.count("psbtupd update-refused"); return; }
        let mut ks: Vec<u32> = keys; ks.sort(); ks.dedup();
        let mut hh = hs; hh.sort(); hh.dedup();
        let kt = if ks.is_empty() { "-".to_string() } else { ks.iter().map(|k| format!("{}={}", k, hex(&ast::full_key(*k).to_bytes()))).collect::<Vec<_>>().join(",") };
        let ht = if hh.is_empty() { "-".to_string() } else { hh.iter().map(|(k, h)| format!("{}:{}={}", k.name(), h, hex(&ast::hash_value(*k, *h)))).collect::<Vec<_>>().join(",") };
        let f = |s: &Option<ScriptBuf>| s.as_ref().map(|x| hex(x.as_bytes())).unwrap_or("none".into());
        out.line(&format!("C psbtupd {} {} {}", wire, kt, ht), &format!("{} {}", f(&p.inputs[0].redeem_script), f(&p.inputs[0].witness_script)));
        // the output updater writes the same scripts
        let mut q = p.clone();
        let same = q.update_output_with_descriptor(0, &dd).is_ok() && q.outputs[0].redeem_script == p.inputs[0].redeem_script && q.outputs[0].witness_script == p.inputs[0].witness_script;
        verdict(out, "update-output-consistent", &format!("{} same-scripts-as-input", wire), if same { None } else { Some("differs".into()) });
    };
    for (ctx, wraps) in [(CtxK::Segwitv0, vec![(Wrap::Wsh, "wsh(@)"), (Wrap::ShWsh, "sh(wsh(@))")]), (CtxK::Legacy, vec![(Wrap::Sh, "sh(@)")])] {
        let atoms = ast::default_atoms(ctx, !thorough);
        let frags = ast::enumerate(ctx, &atoms, if thorough { 3 } else { 2 }, if thorough { 40 } else { 12 }, rng);
        for t in frags.iter().filter(|t| t.base == miniscript::miniscript::types::Base::B) {
            let mut rp = vec![]; t.node.rawpkhs(&mut rp);
            if !rp.is_empty() { continue; }
            for (w, pat) in &wraps {
                if let Some(d) = desc::build_desc(*w, &t.node, 0) {
                    let mut ks = vec![]; t.node.keys(&mut ks);
                    let mut hs = vec![]; t.node.hashes(&mut hs);
                    emit(out, pat.replace('@', &t.node.wire()), &d, ks, hs);
                }
            }
        }
    }
    for k in [0u32, 1, 2, 100, 101] {
        for (w, pat) in [(Wrap::Pkh, "pkh(@)"), (Wrap::Wpkh, "wpkh(@)"), (Wrap::ShWpkh, "sh(wpkh(@))")] {
            if let Some(d) = desc::build_desc(w, &ast::Node::True, k) { emit(out, pat.replace('@', &k.to_string()), &d, vec![k], vec![]); }
        }
    }
}

/// Designated relative-lock cases (every tier): each older() descriptor of the hand-written pool
/// under transaction version 2 AND 1 and under every nSequence variant (exact, bits above the mask,
/// other unit, too small, disable flag, final).  All go through the normal stream: `C psbtstep`
/// (the satisfier parameter honours version and sequence independently), `J mode-honoured`, and
/// `J spend` / `J spendv` (the Lean Script semantics has nSequence and the transaction version).
fn designated_lock_cases(out: &mut Out, pool: &[Spec], judged: &mut BTreeSet<String>) {
    let mut rng = Rng(0xC14F);
    let mut n = 0;
    for spec in pool.iter().filter(|s| !s.olders.is_empty()) {
        if n >= 16 { break; }
        n += 1;
        let o = spec.olders.iter().cloned().max_by_key(|o| (o & 0xffff, *o)).unwrap();
        let mut seqs = seq_variants(o); seqs.sort(); seqs.dedup();
        for version in [2, 1] {
            for sq in &seqs {
                if version == 1 && ![o, o | (1 << 16), 0xffff_ffff].contains(sq) { continue; }
                let case = build_case_with(vec![spec.clone()], &mut rng, &CaseOpts { version: Some(version), seqs: vec![Some(*sq)] });
                let mut h = progress_ops(&case, 0);
                h.extend([Op::Fin, Op::FinMall, Op::Extract]);
                if h.len() > 12 { let cut = h.len() - 12; h.drain(1..1 + cut); }
                out.count(&format!("designated lock case v{}", version));
                run_history(out, &case, &h, judged);
            }
        }
    }
}

/// R1 - EVERY finalize entry point on EVERY descriptor of the pool: from the fully signed single-input
/// PSBT each of finalize_mut / finalize_mall_mut / finalize_inp_mut / finalize_inp_mall_mut / deprecated
/// psbt::finalize / psbt::finalize_mall is applied (one C psbtstep line + all judges per route; the
/// by-value wrappers ride on `J byvalue-agrees`, the extractor and `interpreter_check` on the last).
fn all_routes(out: &mut Out, spec: &Spec, rng: &mut Rng, judged: &mut BTreeSet<String>) {
    let case = build_case_with(vec![spec.clone()], rng, &CaseOpts { version: Some(2), seqs: vec![spec.olders.iter().cloned().max_by_key(|o| (o & 0xffff, *o))] });
    let mut base = progress_ops(&case, 0);
    if base.len() > 10 { let cut = base.len() - 10; base.drain(1..1 + cut); }
    let n0 = base.len();
    for route in [vec![Op::FinMall], vec![Op::FinInpMall(0)], vec![Op::OldFin], vec![Op::OldFinMall, Op::Extract]] {
        let mut h = base.clone();
        h.extend(route);
        out.count("route pass");
        run_history_from(out, &case, &h, judged, n0);
    }
}

/// R2 - descriptors the library REFUSES today, one reason each.  If a rule ever lets one through the
/// sane parser it joins the pool (and every judge); in any case the script is pushed through the
/// finalizer by the permissive constructors (`from_str_insane` + `new_wsh` / `new_sh` / `new_sh_wsh`),
/// where validity, atomicity, idempotence and the model correspondence are judged all the same - a
/// finalizer works on whatever script the PSBT carries.
const REFUSED_TODAY: &[(&str, &str)] = &[
    ("repeated key pk/pk", "or_d(pk(K0),and_v(v:pk(K0),older(10)))"),
    ("repeated key pk/pkh", "or_d(pk(K0),and_v(v:pkh(K0),older(10)))"),
    ("repeated key pkh/pkh", "or_d(pkh(K0),and_v(v:pkh(K0),older(10)))"),
    ("repeated key pk/multi", "or_d(pk(K0),and_v(v:multi(1,K0,K1),older(10)))"),
    ("repeated key in multi", "multi(2,K0,K0,K1)"),
    ("mixed lock units after", "and_v(v:pk(K0),and_v(v:after(100),after(500000001)))"),
    ("mixed lock units older", "and_v(v:pk(K0),and_v(v:older(10),older(4194305)))"),
    ("sigless branch", "or_d(pk(K0),and_v(v:sha256(H0),older(10)))"),
    ("malleable or_i of hashes", "and_v(v:pk(K0),or_i(sha256(H0),hash160(H1)))"),
    ("malleable or_b of hashes", "and_v(v:pk(K0),or_b(sha256(H0),a:ripemd160(H2)))"),
    ("unsatisfiable branch", "or_d(pk(K0),and_v(v:pk(K1),0))"),
    ("older(0)", "and_v(v:pk(K0),older(0))"),
];

/// whole descriptors refused today by a context rule (no permissive constructor builds them): judged
/// by everything the day the parser lets one through
const REFUSED_CONTEXT: &[(&str, &str)] = &[
    ("uncompressed key in segwit v0", "wsh(pk(K10))"), ("uncompressed key in sh-wsh", "sh(wsh(pk(K10)))"), ("uncompressed key in wpkh", "wpkh(K10)"),
    ("multi_a outside taproot", "wsh(multi_a(1,K0,K1))"), ("multi in taproot", "tr(K0,multi(1,K1,K2))"), ("older(0)", "wsh(and_v(v:pk(K0),older(0)))"),
    ("after(0)", "wsh(and_v(v:pk(K0),after(0)))"), ("bare non-standard", "and_v(v:pk(K0),pk(K1))"), ("21-key multi", "wsh(multi(1,K0,K1,K2,K3,K4,K5,K6,K7,K8,K9,K12,K13,K14,K0,K1,K2,K3,K4,K5,K6,K7))"),
    ("top level not B", "wsh(v:pk(K0))"), ("nested sh", "sh(sh(pk(K0)))"), ("wsh in wsh", "wsh(wsh(pk(K0)))"),
];

fn refused_today(out: &mut Out, rng: &mut Rng, judged: &mut BTreeSet<String>) {
    use miniscript::{Legacy, Miniscript, Segwitv0};
    for (reason, tmpl) in REFUSED_CONTEXT {
        match spec_from_tmpl(tmpl) {
            None => out.count(&format!("designated-odd {}: refused by the parser (judged the day it is accepted)", reason)),
            Some(spec) => {
                if matches!(spec.kind, Kind::Wpkh | Kind::ShWpkh) && !key(spec.keys[0]).public.compressed {
                    // no BIP143 digest exists for an uncompressed key hash: nothing can be signed
                    // (what the parser accepts is C12's subject: an observation here)
                    out.count(&format!("observation: designated-odd {} ACCEPTED by the parser, nothing to sign (no BIP143 digest)", reason));
                    continue;
                }
                out.count(&format!("designated-odd {}: ACCEPTED by the parser -> judged", reason));
                let case = build_case_with(vec![spec.clone()], rng, &CaseOpts { version: Some(2), seqs: vec![None] });
                let mut h = progress_ops(&case, 0);
                h.extend([Op::FinInp(0), Op::FinMall, Op::Extract]);
                if h.len() > 12 { let cut = h.len() - 12; h.drain(1..1 + cut); }
                run_history(out, &case, &h, judged);
            }
        }
    }
    for (reason, ms) in REFUSED_TODAY {
        for wrap in ["wsh(@)", "sh(wsh(@))", "sh(@)", "tr(K9,@)"] {
            let tmpl = wrap.replace('@', ms);
            let (spec, how) = match spec_from_tmpl(&tmpl) {
                Some(s) => { (Some(s), "ACCEPTED-by-the-sane-parser") }
                None => {
                    let text = expand(ms);
                    let d: Option<Descriptor<DefiniteDescriptorKey>> = match wrap {
                        "wsh(@)" => Miniscript::<DefiniteDescriptorKey, Segwitv0>::from_str_insane(&text).ok().and_then(|m| Descriptor::new_wsh(m).ok()),
                        "sh(wsh(@))" => Miniscript::<DefiniteDescriptorKey, Segwitv0>::from_str_insane(&text).ok().and_then(|m| Descriptor::new_sh_wsh(m).ok()),
                        "sh(@)" => Miniscript::<DefiniteDescriptorKey, Legacy>::from_str_insane(&text).ok().and_then(|m| Descriptor::new_sh(m).ok()),
                        _ => None,   // taproot: `Tr::new` validates its leaves, no permissive constructor
                    };
                    (d.and_then(|d| spec_from_desc(d, false)), "refused-by-the-sane-parser")
                }
            };
            // (the descriptor parser of this library applies the SANE rules to taproot leaves only: in
            // wsh / sh these scripts parse today and are judged like any other member of the pool)
            out.count(&format!("designated-odd {} in {}: {} {}", reason, wrap.replace("(@)", "").replace(",@)", ""), how, if spec.is_some() { "-> judged" } else { "(no permissive constructor; judged the day it is accepted)" }));
            if let Some(mut spec) = spec {
                spec.tmpl = tmpl.clone();
                let case = build_case_with(vec![spec.clone()], rng, &CaseOpts { version: Some(2), seqs: vec![spec.olders.iter().cloned().max_by_key(|o| (o & 0xffff, *o))] });
                let mut h = progress_ops(&case, 0);
                h.extend([Op::FinInp(0), Op::FinMall, Op::Extract]);
                if h.len() > 12 { let cut = h.len() - 12; h.drain(1..1 + cut); }
                run_history(out, &case, &h, judged);
            }
        }
    }
}

/// R4 - USED PSBTs: a complete input A next to an input B that fails at EXACTLY one fallible step of
/// finalize_input (utxo lookup / prevouts - which also stops A, after A's satisfaction succeeded -,
/// descriptor inference, satisfaction, interpreter check), B before and after A, through every entry
/// point, followed by the calls a wallet makes next on the used object: update again (on the failed
/// and on the already-final input), finalize again, extract, finalize and extract once more.
fn used_states(out: &mut Out, pool: &[Spec], judged: &mut BTreeSet<String>) {
    let mut rng = Rng(0xC150);
    let find = |t: &str| pool.iter().find(|s| s.tmpl == t).cloned();
    let a_specs: Vec<Spec> = ["wsh(multi(2,K0,K1,K2))", "tr(K0,{pk(K1),pk(K2)})", "pkh(K1)", "sh(wsh(pk(K0)))", "tr(K0)"].iter().filter_map(|t| find(t)).collect();
    let b_specs: Vec<Spec> = ["tr(K0,pk(K1))", "wsh(and_v(v:pk(K0),sha256(H0)))", "sh(multi(2,K0,K1))"].iter().filter_map(|t| find(t)).collect();
    let mut k = 0usize;
    for a in &a_specs { for b in &b_specs { for b_first in [false, true] {
        let (ia, ib) = if b_first { (1usize, 0usize) } else { (0, 1) };
        let specs = if b_first { vec![b.clone(), a.clone()] } else { vec![a.clone(), b.clone()] };
        let case = build_case_with(specs, &mut rng, &CaseOpts { version: Some(2), seqs: vec![None, None] });
        let mut complete_a = progress_ops(&case, ia);
        if case.inputs[ia].keysig.is_some() && case.inputs[ia].spec.leaves.is_empty() { complete_a.push(Op::KeySig(ia, true)); }
        let full_b = progress_ops(&case, ib);
        // B fails at exactly this step
        let fails: Vec<(&str, Vec<Op>)> = vec![
            ("utxo+prevouts", { let mut v = full_b.clone(); v.push(Op::Drop(ib)); v }),
            ("descriptor", { let mut v = full_b.clone(); v.push(if case.inputs[ib].spec.kind == Kind::Tr { Op::LeafVersion(ib) } else { Op::Corrupt(ib) }); v }),
            ("satisfaction", vec![Op::Update(ib)]),
            ("interpreter", { let mut v: Vec<Op> = full_b.iter().map(|o| match o { Op::Sig(i, k, _) => Op::Sig(*i, *k, false), x => x.clone() }).collect(); v.retain(|_| true); v }),
        ];
        for (step, ops_b) in fails {
            // rotate the entry point so that every (A, B, order, step) sees one, and all are seen often
            let entry = [Op::Fin, Op::FinMall, Op::FinInp(ib), Op::FinInpMall(ib), Op::OldFin, Op::OldFinMall][k % 6].clone();
            k += 1;
            let mut h = complete_a.clone();
            h.extend(ops_b);
            let n0 = h.len();
            h.extend([entry, Op::Update(ib), Op::Update(ia), Op::Fin, Op::Extract, Op::Restore(ib), Op::Fin, Op::Extract]);
            out.count(&format!("used-state {} fails at {}", if b_first { "B,A" } else { "A,B" }, step));
            run_history_from(out, &case, &h, judged, n0.saturating_sub(1));
        }
    }}}
}

/// R3 - RAW PSBT fields no updater writes, offered next to a complete neighbour input: script fields of
/// length 0..3, witness-program look-alikes one byte short / long, a redeem_script that does not hash
/// to the script_pubkey, a witness_utxo with a foreign or a raw script_pubkey.  Judged: no entry point
/// panics, a failing call leaves EVERY input byte-identical, the neighbour finalizes to the very bytes it
/// gets alone, and whatever is finalized against the REAL utxo is a valid spend (J spend).
fn raw_channel(out: &mut Out, pool: &[Spec], judged: &mut BTreeSet<String>) {
    let mut rng = Rng(0xC151);
    let find = |t: &str| pool.iter().find(|s| s.tmpl == t).cloned();
    let nb = match find("wpkh(K2)") { Some(s) => s, None => return };
    for t in ["wsh(multi(2,K0,K1,K2))", "sh(wsh(pk(K0)))", "sh(multi(2,K0,K1))", "sh(wpkh(K3))", "tr(K0,pk(K1))", "pkh(K1)", "multi(1,K0,K1)"] {
        let spec = match find(t) { Some(s) => s, None => continue };
        let case = build_case_with(vec![spec.clone(), nb.clone()], &mut rng, &CaseOpts { version: Some(2), seqs: vec![None, None] });
        let mut ready = case.psbt0.clone();
        for i in 0..2 { for op in progress_ops(&case, i) { apply(&case, &mut ready, &op); } }
        // the neighbour alone
        let reference = { let mut q = ready.clone(); apply(&case, &mut q, &Op::FinInp(1)); q.inputs[1].clone() };
        let sb = |b: &[u8]| ScriptBuf::from_bytes(b.to_vec());
        let h20 = [0x11u8; 20]; let h32 = [0x22u8; 32];
        let mut scripts: Vec<(String, ScriptBuf)> = vec![];
        for l in 0..4usize { scripts.push((format!("len{}", l), sb(&vec![0x00; l]))); }
        scripts.push(("op0".into(), sb(&[0x00])));
        for (name, mut v) in [("p2wpkh", [vec![0x00, 0x14], h20.to_vec()].concat()), ("p2wsh", [vec![0x00, 0x20], h32.to_vec()].concat()),
                              ("p2sh", [vec![0xa9, 0x14], h20.to_vec(), vec![0x87]].concat()), ("p2pkh", [vec![0x76, 0xa9, 0x14], h20.to_vec(), vec![0x88, 0xac]].concat()),
                              ("p2tr", [vec![0x51, 0x20], h32.to_vec()].concat())] {
            scripts.push((format!("{}-exact", name), sb(&v)));
            let short = v[..v.len() - 1].to_vec(); scripts.push((format!("{}-short", name), sb(&short)));
            v.push(0x00); scripts.push((format!("{}-long", name), sb(&v)));
        }
        let mut variants: Vec<(String, Psbt)> = vec![];
        for (name, sc) in &scripts {
            { let mut p = ready.clone(); p.inputs[0].witness_script = Some(sc.clone()); variants.push((format!("witness_script={}", name), p)); }
            { let mut p = ready.clone(); p.inputs[0].redeem_script = Some(sc.clone()); variants.push((format!("redeem_script={}", name), p)); }
            { let mut p = ready.clone(); p.inputs[0].witness_utxo = Some(TxOut { value: case.inputs[0].utxo.value, script_pubkey: sc.clone() }); p.inputs[0].non_witness_utxo = None;
              variants.push((format!("witness_utxo.spk={}", name), p)); }
        }
        { let mut p = ready.clone(); p.inputs[0].witness_utxo = Some(case.inputs[1].utxo.clone()); p.inputs[0].non_witness_utxo = None; variants.push(("witness_utxo=neighbour's".into(), p)); }
        for (vname, v) in variants {
            let foreign_utxo = vname.starts_with("witness_utxo");
            for (ename, op) in [("finalize_mut", Op::Fin), ("finalize_mall_mut", Op::FinMall), ("finalize_inp_mut", Op::FinInp(0)), ("deprecated-finalize", Op::OldFin)] {
                let mut q = v.clone();
                let r = apply(&case, &mut q, &op);
                let id = format!("{} {} {}", spec.tmpl, vname, ename);
                if r == "panic" { out.line(&format!("J nopanic psbt raw-field {} PANIC", id), "ok"); continue; }
                let mut bad: Option<String> = None;
                let changed0 = q.inputs[0] != v.inputs[0];
                if changed0 {
                    // input 0 was finalized after all: completely rewritten ...
                    let mut expect = psbt::Input::default();
                    expect.witness_utxo = v.inputs[0].witness_utxo.clone(); expect.non_witness_utxo = v.inputs[0].non_witness_utxo.clone();
                    expect.final_script_sig = q.inputs[0].final_script_sig.clone(); expect.final_script_witness = q.inputs[0].final_script_witness.clone();
                    if !is_final(&q.inputs[0]) || q.inputs[0] != expect { bad = Some("input0-half-written".into()); }
                    // ... and, when the PSBT told the truth about the utxo, a valid spend of it
                    if !foreign_utxo && is_final(&q.inputs[0]) {
                        let ss = q.inputs[0].final_script_sig.clone().unwrap_or_default();
                        let w = q.inputs[0].final_script_witness.clone().unwrap_or_default();
                        if judged.insert(format!("raw {} {}", id, wit_tok(&w))) { judge_spend_at(out, &case, &q.unsigned_tx, 0, &ss, &w, &format!("raw-field {}", id)); }
                    } else if foreign_utxo { out.count("observation: finalized against a witness_utxo that is not the spent output"); }
                }
                // the neighbour: finalized to the bytes it gets alone, unless the call could not reach it
                let reached = match op { Op::FinInp(_) => false, Op::OldFin => is_final(&q.inputs[0]), _ => true };
                let taproot_blocked = foreign_utxo && false;
                let _ = taproot_blocked;
                if reached && q.inputs[1] != reference && !(foreign_utxo) { bad = Some("neighbour-differs-from-its-lone-finalization".into()); }
                if !reached && q.inputs[1] != v.inputs[1] { bad = Some("untargeted-neighbour-changed".into()); }
                if q.unsigned_tx != v.unsigned_tx || q.outputs != v.outputs { bad = Some("tx-or-outputs-changed".into()); }
                out.count(&format!("raw-field {} {}", ename, r.split('@').next().unwrap()));
                verdict(out, "raw-field", &id, bad);
            }
        }
    }
}

/// `finalize_inp_mall_mut(i)` must behave like `finalize_mall_mut` restricted to input i
fn judge_mall(out: &mut Out, spec: &Spec, rng: &mut Rng) {
    let case = build_case(vec![spec.clone()], rng);
    let mut p = case.psbt0.clone();
    for op in progress_ops(&case, 0) { apply(&case, &mut p, &op); }
    let mut a = p.clone(); let ra = apply(&case, &mut a, &Op::FinMall);
    let mut b = p.clone(); let rb = apply(&case, &mut b, &Op::FinInpMall(0));
    let mut c = p.clone(); let rc = apply(&case, &mut c, &Op::Fin);
    out.count(&format!("mall-honoured finalize_mall={} finalize={}", ra.split('@').next().unwrap(), rc.split('@').next().unwrap()));
    let bad = if ra.split('@').next() != rb.split('@').next() { Some(format!("finalize_mall_mut={} finalize_inp_mall_mut={}", ra, rb)) }
              else if a.serialize() != b.serialize() { Some("bytes-differ".into()) } else { None };
    verdict(out, "mall-honoured", &format!("{} all-sigs-and-preimages", spec.tmpl), bad);
    // the four by-value wrappers on the same input (deterministic: this is where the malleable and the
    // non-malleable mode differ)
    {
        let cls = |r: Result<Psbt, (Psbt, Vec<miniscript::psbt::Error>)>| match r { Ok(x) => ("ok".to_string(), x), Err((x, es)) => (format!("err:{}", es.iter().map(err_class).collect::<Vec<_>>().join("+")), x) };
        let cls1 = |r: Result<Psbt, (Psbt, miniscript::psbt::Error)>| match r { Ok(x) => ("ok".to_string(), x), Err((x, e)) => (format!("err:{}", err_class(&e)), x) };
        let mut d = p.clone(); let rd = apply(&case, &mut d, &Op::FinInp(0));
        let checks: Vec<(&str, (String, Psbt), (&String, &Psbt))> = vec![
            ("finalize", cls(p.clone().finalize(secp())), (&rc, &c)),
            ("finalize_mall", cls(p.clone().finalize_mall(secp())), (&ra, &a)),
            ("finalize_inp", cls1(p.clone().finalize_inp(secp(), 0)), (&rd, &d)),
            ("finalize_inp_mall", cls1(p.clone().finalize_inp_mall(secp(), 0)), (&rb, &b)),
        ];
        for (name, (r1, q), (r2, m)) in checks {
            let bad = if r1 != *r2 { Some(format!("by-value-{}-mut-{}", r1, r2)) } else if q.serialize() != m.serialize() { Some("bytes-differ".into()) } else { None };
            verdict(out, "byvalue-agrees", &format!("{} all-sigs-and-preimages {}", spec.tmpl, name), bad);
        }
    }
    if ra == "ok" {
        let ss = a.inputs[0].final_script_sig.clone().unwrap_or_default();
        let w = a.inputs[0].final_script_witness.clone().unwrap_or_default();
        judge_spend_at(out, &case, &a.unsigned_tx, 0, &ss, &w, &format!("{} finalize_mall", spec.tmpl));
    }
}

/// adversarial PSBTs: no public entry point may panic
fn judge_nopanic(out: &mut Out, pool: &[Spec], rng: &mut Rng) {
    let find = |t: &str| pool.iter().find(|s| s.tmpl == t).cloned();
    let picks: Vec<Spec> = ["wsh(multi(2,K0,K1,K2))", "pkh(K1)", "sh(multi(2,K0,K1,K2))", "tr(K0,{pk(K1),pk(K2)})", "sh(wsh(pk(K0)))", "wpkh(K2)"]
        .iter().filter_map(|t| find(t)).collect();
    for spec in &picks {
        let other = picks.iter().find(|s| s.tmpl != spec.tmpl).unwrap().clone();
        let case = build_case(vec![spec.clone(), other.clone()], rng);
        let mut ready = case.psbt0.clone();
        for i in 0..2 { for op in progress_ops(&case, i) { apply(&case, &mut ready, &op); } }
        let mut variants: Vec<(&str, Psbt)> = vec![];
        { let mut p = ready.clone(); p.inputs[0].witness_utxo = None; p.inputs[0].non_witness_utxo = None; variants.push(("missing-utxo", p)); }
        {   // (former F8) the previous transaction has fewer outputs than `vout`
            let mut p = ready.clone();
            let mut prev = case.inputs[0].prev_tx.clone();
            prev.output.truncate(p.unsigned_tx.input[0].previous_output.vout as usize);
            p.inputs[0].witness_utxo = None; p.inputs[0].non_witness_utxo = Some(prev);
            variants.push(("vout-out-of-range", p));
        }
        { let mut p = ready.clone(); p.inputs[0].witness_utxo = Some(case.inputs[0].utxo.clone()); p.inputs[0].non_witness_utxo = None; variants.push(("witness-utxo-only", p)); }
        { let mut p = ready.clone(); p.inputs[0].witness_utxo = Some(case.inputs[1].utxo.clone()); p.inputs[0].non_witness_utxo = None; variants.push(("utxo-of-other-input", p)); }
        { let mut p = ready.clone(); p.inputs[0].non_witness_utxo = Some(case.inputs[1].prev_tx.clone()); p.inputs[0].witness_utxo = None; variants.push(("prev-tx-of-other-input", p)); }
        { let mut p = ready.clone(); p.inputs[0].witness_script = ready.inputs[1].witness_script.clone().or(Some(ScriptBuf::from_bytes(vec![0x51]))); p.inputs[0].redeem_script = Some(ScriptBuf::from_bytes(vec![0x00, 0x14])); variants.push(("mismatching-scripts", p)); }
        { let mut p = ready.clone(); p.inputs[0].sighash_type = Some(PsbtSighashType::from_u32(0x55)); variants.push(("unknown-sighash-type", p)); }
        { let mut p = ready.clone(); p.inputs[0].sighash_type = Some(PsbtSighashType::from_u32(0x83)); variants.push(("sighash-single-acp", p)); }
        { let mut p = ready.clone(); p.inputs.pop(); variants.push(("fewer-psbt-inputs-than-tx-inputs", p)); }
        { let mut p = ready.clone(); p.unsigned_tx.input.pop(); variants.push(("more-psbt-inputs-than-tx-inputs", p)); }
        { let mut p = ready.clone(); p.unsigned_tx.input.clear(); p.inputs.clear(); variants.push(("no-inputs", p)); }
        { let mut p = ready.clone(); p.inputs[0].final_script_witness = Some(garbage_witness()); p.inputs[1].final_script_sig = Some(ScriptBuf::from_bytes(vec![0x4c])); variants.push(("garbage-final-fields", p)); }
        { let mut p = ready.clone(); p.inputs[0].witness_utxo = Some(TxOut { value: Amount::from_sat(1), script_pubkey: ScriptBuf::new() }); p.inputs[0].non_witness_utxo = None; variants.push(("empty-script-pubkey", p)); }
        { let mut p = ready.clone(); let mut b = vec![0x21]; b.extend([0xffu8; 33]); b.push(0xac);
          p.inputs[0].witness_utxo = Some(TxOut { value: Amount::from_sat(1), script_pubkey: ScriptBuf::from_bytes(b) }); p.inputs[0].non_witness_utxo = None; variants.push(("p2pk-invalid-key", p)); }
        {   let mut p = ready.clone();
            let items: Vec<(ControlBlock, (ScriptBuf, LeafVersion))> = p.inputs[0].tap_scripts.iter().map(|(a, b)| (a.clone(), b.clone())).collect();
            for (cb, (_, _)) in items { p.inputs[0].tap_scripts.insert(cb, (ScriptBuf::from_bytes(vec![0x6a, 0xff]), LeafVersion::TapScript)); }
            p.inputs[0].tap_internal_key = None;
            variants.push(("tap-scripts-not-miniscript", p)); }
        {   // a bare script that is a miniscript but not a standard bare one: `<A> CHECKSIGVERIFY <B> CHECKSIG`
            let mut b = vec![0x21]; b.extend(key(0).public.to_bytes()); b.push(0xad); b.push(0x21); b.extend(key(1).public.to_bytes()); b.push(0xac);
            let mut p = ready.clone();
            p.inputs[0].witness_utxo = Some(TxOut { value: Amount::from_sat(1), script_pubkey: ScriptBuf::from_bytes(b) }); p.inputs[0].non_witness_utxo = None;
            p.inputs[0].witness_script = None; p.inputs[0].redeem_script = None;
            variants.push(("bare-nonstandard-miniscript", p)); }
        { let mut p = ready.clone(); p.inputs[0].sighash_type = Some(PsbtSighashType::from_u32(0x03)); p.inputs[1].sighash_type = Some(PsbtSighashType::from_u32(0x81)); variants.push(("sighash-type-contradicts-signatures", p)); }
        { let mut p = ready.clone(); p.unsigned_tx.version = transaction::Version::ONE; p.unsigned_tx.lock_time = absolute::LockTime::from_consensus(500_000_001); variants.push(("version-1-time-locktime", p)); }
        for (name, v) in variants {
            let mut calls: Vec<(&str, Box<dyn Fn(&mut Psbt)>)> = vec![
                ("finalize_mut", Box::new(|p: &mut Psbt| { let _ = p.finalize_mut(secp()); })),
                ("finalize_mall_mut", Box::new(|p: &mut Psbt| { let _ = p.finalize_mall_mut(secp()); })),
                ("finalize_inp_mut", Box::new(|p: &mut Psbt| { let _ = p.finalize_inp_mut(secp(), 0); let _ = p.finalize_inp_mut(secp(), 1); let _ = p.finalize_inp_mut(secp(), 7); })),
                ("finalize_inp_mall_mut", Box::new(|p: &mut Psbt| { let _ = p.finalize_inp_mall_mut(secp(), 0); let _ = p.finalize_inp_mall_mut(secp(), 1); })),
                ("extract", Box::new(|p: &mut Psbt| { let _ = p.extract(secp()); })),
                ("finalize-then-extract", Box::new(|p: &mut Psbt| { let _ = p.finalize_mut(secp()); let _ = p.extract(secp()); })),
                ("sighash_msg", Box::new(|p: &mut Psbt| { let tx = p.unsigned_tx.clone(); let mut c = SighashCache::new(&tx); for i in 0..3 { let _ = p.sighash_msg(i, &mut c, None); } })),
                ("interpreter_check", Box::new(|p: &mut Psbt| { let _ = miniscript::psbt::interpreter_check(p, secp()); })),
            ];
            #[allow(deprecated)]
            { calls.push(("deprecated-finalize", Box::new(|p: &mut Psbt| { let _ = miniscript::psbt::finalize(p, secp()); }))); }
            let d0 = case.inputs[0].spec.desc.clone();
            calls.push(("update_input_with_descriptor", Box::new(move |p: &mut Psbt| { for i in 0..3 { let _ = p.update_input_with_descriptor(i, &d0); } })));
            let d1 = case.inputs[0].spec.desc.clone();
            calls.push(("update_output_with_descriptor", Box::new(move |p: &mut Psbt| { for i in 0..3 { let _ = p.update_output_with_descriptor(i, &d1); } })));
            for (cname, f) in calls {
                let mut p = v.clone();
                let r = catch_unwind(AssertUnwindSafe(|| f(&mut p)));
                out.count("nopanic call");
                out.line(&format!("J nopanic psbt {} {} {}{}", name, cname, spec.tmpl, if r.is_err() { " PANIC" } else { "" }), "ok");
            }
        }
    }
}

/* ------------------------------------------------------------------ entry point */

pub fn run(out: &mut Out, thorough: bool, seed: u64) {
    if std::env::var("C14_DEBUG").is_err() { std::panic::set_hook(Box::new(|_| {})); }
    let mut rng = Rng(seed ^ 0xC14);
    let (pool, mall) = build_pool(&mut Rng(0xC14), thorough);
    out.note("descriptors", pool.len().to_string());
    for s in &pool { out.count(&format!("desc {}", s.kind.name())); }
    let mut judged = BTreeSet::new();
    // 1. every descriptor alone: canonical history, update/sighash judges, random histories
    for spec in &pool {
        let case = build_case(vec![spec.clone()], &mut rng);
        guarded(out, "judge_update", &case.label, |out| judge_update(out, &case));
        guarded(out, "judge_sighash", &case.label, |out| judge_sighash(out, &case));
        guarded(out, "judge_sighash_types", &case.label, |out| judge_sighash_types(out, &case));
        let mut h = progress_ops(&case, 0);
        if case.inputs[0].keysig.is_some() && spec.leaves.is_empty() { h.push(Op::KeySig(0, true)); }
        h.extend([Op::FinInp(0), Op::Fin, Op::Extract]);
        if h.len() > 12 { let cut = h.len() - 12; h.drain(1..1 + cut); }
        run_history(out, &case, &h, &mut judged);
        for _ in 0..(if thorough { 8 } else { 3 }) {
            let case = build_case(vec![spec.clone()], &mut rng);
            let h = random_history(&case, &mut rng);
            run_history(out, &case, &h, &mut judged);
        }
        guarded(out, "judge_order", &case.label, |out| judge_order(out, &case, &mut rng));
    }
    // 2. multi-input PSBTs
    let n_multi = if thorough { 12000 } else { 1500 };
    for _ in 0..n_multi {
        let n = 2 + rng.below(2);
        // kind first (uniform over the 8 output types), then a descriptor of that kind
        let specs: Vec<Spec> = (0..n).map(|_| {
            let kinds = [Kind::Pk, Kind::Pkh, Kind::Wpkh, Kind::ShWpkh, Kind::Wsh, Kind::ShWsh, Kind::Sh, Kind::Tr, Kind::Bare];
            let k = kinds[rng.below(kinds.len())];
            let of_kind: Vec<&Spec> = pool.iter().filter(|s| s.kind == k).collect();
            if of_kind.is_empty() { pool[rng.below(pool.len())].clone() } else { of_kind[rng.below(of_kind.len())].clone() }
        }).collect();
        let case = build_case(specs, &mut rng);
        out.count(&format!("case inputs={}", n));
        let h = random_history(&case, &mut rng);
        run_history(out, &case, &h, &mut judged);
        if rng.below(3) == 0 { guarded(out, "judge_order", &case.label, |out| judge_order(out, &case, &mut rng)); }
        if rng.below(6) == 0 {
            guarded(out, "judge_update", &case.label, |out| judge_update(out, &case));
            guarded(out, "judge_sighash", &case.label, |out| judge_sighash(out, &case));
        }
        if rng.below(12) == 0 { guarded(out, "judge_sighash_types", &case.label, |out| judge_sighash_types(out, &case)); }
    }
    // 3. allow_mall is honoured by every entry point (malleable scripts: outside the sane pool)
    let mut fixed = Rng(0xC14A);
    for s in mall.iter().chain(pool.iter().take(12)) { guarded(out, "judge_mall", &s.tmpl, |out| judge_mall(out, s, &mut fixed)); }
    // 3b. OBSERVATION: signatures contradicting the input's sighash_type field (see props.d "observations")
    {
        let mut seen = BTreeSet::new();
        let mut fixed = Rng(0xC14C);
        for s in pool.iter() { if seen.insert(s.kind.name()) || s.tmpl == "tr(K0)" { observe_sighash_mismatch(out, s, &mut fixed, &mut judged); } }
        out.note("observation sighash-mismatch", "an input whose sighash_type field is SINGLE while its signatures carry ALL (taproot: DEFAULT) is finalized by finalize_mut / finalize_mall_mut / finalize_inp_mut / finalize_inp_mall_mut and then extracted; only the deprecated psbt::finalize refuses (WrongSighashFlag), and taproot signatures are checked by nothing; the spends are valid (J spend)".into());
    }
    // 3c. pkh() fragments completed from the signature maps (raw key hashes)
    {
        let mut fixed = Rng(0xC14D);
        for t in ["tr(K0,pkh(K1))", "tr(K0,{pkh(K1),pk(K2)})", "tr(K0,{and_v(v:pkh(K1),pk(K2)),pkh(K3)})"] {
            if let Some(s) = spec_from_tmpl(t) { guarded(out, "judge_rawpkh", &s.tmpl, |out| judge_rawpkh(out, &s, &mut fixed)); }
        }
        for s in pool.iter().filter(|s| s.tmpl.contains("pkh(") && !matches!(s.kind, Kind::Pkh | Kind::Wpkh | Kind::ShWpkh)) { guarded(out, "judge_rawpkh", &s.tmpl, |out| judge_rawpkh(out, s, &mut fixed)); }
    }
    // 3f. ROUTES x CORPUS, REFUSED-TODAY, USED STATES, RAW FIELDS (every tier)
    {
        let mut fixed = Rng(0xC152);
        for s in pool.iter() { guarded(out, "all_routes", &s.tmpl, |out| all_routes(out, s, &mut fixed, &mut judged)); }
        guarded(out, "refused_today", "-", |out| refused_today(out, &mut fixed, &mut judged));
        guarded(out, "used_states", "-", |out| used_states(out, &pool, &mut judged));
        guarded(out, "raw_channel", "-", |out| raw_channel(out, &pool, &mut judged));
    }
    // 3e. relative locks: transaction version x nSequence variants
    guarded(out, "designated_lock_cases", "-", |out| designated_lock_cases(out, &pool, &mut judged));
    // 3d. updater, byte level, against the descriptor model
    guarded(out, "emit_update_corr", "-", |out| emit_update_corr(out, &mut Rng(seed ^ 0xC14E), thorough));
    // 4. adversarial PSBTs
    judge_nopanic(out, &pool, &mut Rng(0xC14B));
    let _ = std::panic::take_hook();
    out.note("distinct_nontrivial", (pool.len() + n_multi).to_string());
    out.note("domain", "definite descriptors (hand pool x {wsh, sh-wsh, sh} + pk/pkh/wpkh/sh-wpkh/bare multi + tr key/script path + enumerated fragments + ast::dimension_corpus incl. wrapper towers; xpub shapes; uncompressed keys) x 1-3 inputs x seeded random histories (<= 12 ops, 25 operation kinds) ; EVERY finalize entry point (mut / by-value / _mall / _inp / deprecated) on EVERY pool descriptor (all_routes); designated-odd scripts (repeated keys, mixed lock units, sigless / malleable / unsatisfiable branches; context-rule violations judged when accepted); used PSBT states (a complete input next to one failing at each fallible step of finalize_input, both orders, every entry point, then update / finalize / extract again); raw script fields and raw witness_utxo script_pubkeys (lengths 0-3, template look-alikes one byte short / long) next to a complete neighbour".into());
}

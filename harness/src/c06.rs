//! C06: static types predict execution.  For every enumerated well-typed fragment (ALL base
//! types, all four contexts) plus a hand corpus, emit the type the LIBRARY assigned
//! (`Miniscript::ty`); the Lean driver executes the encoded fragment on a bounded set of input
//! stacks with the Script specification and tests every letter of that type against what it
//! observes (`J typeexec`, which carries the library's own script bytes).
use crate::ast::{self, CtxK, Node, HK};
use crate::c05::ts;
use crate::common::{Out, Rng};
use crate::msops;
use crate::with_ctx;
use miniscript::{Miniscript, ScriptContext};
use std::collections::BTreeSet;

fn bx(n: Node) -> Box<Node> { Box::new(n) }

/// hand corpus: the fragments whose labels are delicate (see DESIGN C06)
fn corpus(ctx: CtxK) -> Vec<Node> {
    use Node::*;
    let k = ast::ctx_keys(ctx, 3);
    let (a, b, c) = (k[0], k[1], k[2]);
    let pk = |i: u32| Check(bx(PkK(i)));
    let pkh = |i: u32| Check(bx(PkH(i)));
    let sha = Hash(HK::Sha256, 0);
    let h160 = Hash(HK::Hash160, 1);
    let mut v = vec![
        // d: (the 2022 advisory: `d:` must not be `u` without MINIMALIF)
        DupIf(bx(Verify(bx(True)))),
        DupIf(bx(Verify(bx(After(100))))),
        DupIf(bx(Verify(bx(Older(10))))),
        OrD(bx(pk(a)), bx(DupIf(bx(Verify(bx(Older(10))))))),
        AndB(bx(pk(a)), bx(Alt(bx(DupIf(bx(Verify(bx(True)))))))),
        // j: / n:
        NonZero(bx(pk(a))),
        NonZero(bx(sha.clone())),
        NonZero(bx(AndV(bx(Verify(bx(pk(a)))), bx(pk(b))))),
        NonZero(bx(DupIf(bx(Verify(bx(True)))))),
        ZeroNotEqual(bx(DupIf(bx(Verify(bx(True)))))),
        ZeroNotEqual(bx(After(100))),
        ZeroNotEqual(bx(OrI(bx(After(100)), bx(False)))),
        OrD(bx(NonZero(bx(pk(a)))), bx(pk(b))),
        // or_i with asymmetric arms
        OrI(bx(True), bx(False)),
        OrI(bx(False), bx(True)),
        OrI(bx(pk(a)), bx(False)),
        OrI(bx(False), bx(pk(a))),
        OrI(bx(After(100)), bx(pk(a))),
        OrI(bx(sha.clone()), bx(Older(10))),
        OrI(bx(Verify(bx(pk(a)))), bx(Verify(bx(sha.clone())))),
        OrI(bx(PkK(a)), bx(PkH(b))),
        OrI(bx(AndV(bx(Verify(bx(pk(a)))), bx(True))), bx(False)),
        // andor
        AndOr(bx(pk(a)), bx(pk(b)), bx(pk(c))),
        AndOr(bx(pk(a)), bx(After(100)), bx(False)),
        AndOr(bx(pk(a)), bx(Older(10)), bx(sha.clone())),
        AndOr(bx(sha.clone()), bx(pk(a)), bx(False)),
        AndOr(bx(pk(a)), bx(PkK(b)), bx(PkH(c))),
        AndOr(bx(pk(a)), bx(Verify(bx(pk(b)))), bx(Verify(bx(sha.clone())))),
        AndOr(bx(False), bx(True), bx(True)),
        // thresh
        Thresh(1, vec![pk(a)]),
        Thresh(1, vec![False]),
        Thresh(1, vec![pk(a), Swap(bx(pk(b)))]),
        Thresh(2, vec![pk(a), Swap(bx(pk(b))), Alt(bx(sha.clone()))]),
        Thresh(2, vec![pk(a), Swap(bx(pk(b))), Swap(bx(pk(c)))]),
        Thresh(3, vec![pk(a), Swap(bx(pk(b))), Alt(bx(pkh(c)))]),
        Thresh(2, vec![sha.clone(), Alt(bx(h160.clone())), Swap(bx(pk(a)))]),
        // hashes
        sha.clone(), h160.clone(), Hash(HK::Hash256, 2), Hash(HK::Ripemd160, 3),
        Verify(bx(sha.clone())),
        AndV(bx(Verify(bx(sha.clone()))), bx(pk(a))),
        AndB(bx(sha.clone()), bx(Alt(bx(h160.clone())))),
        OrB(bx(sha.clone()), bx(Alt(bx(h160.clone())))),
        Swap(bx(sha.clone())),
        // time locks
        After(1), After(16), After(17), After(100), After(499_999_999), After(500_000_000), After(500_000_001),
        Older(1), Older(16), Older(65535), Older(4_194_305),
        AndV(bx(Verify(bx(After(100)))), bx(Older(10))),
        AndV(bx(Verify(bx(After(100)))), bx(pk(a))),
        AndB(bx(After(100)), bx(Alt(bx(Older(10))))),
        OrC(bx(pk(a)), bx(Verify(bx(After(100))))),
        OrD(bx(pk(a)), bx(After(100))),
        Verify(bx(After(100))),
        // keys
        PkK(a), PkH(a), pk(a), pkh(a), Verify(bx(pk(a))), Verify(bx(pkh(a))), Alt(bx(pk(a))), Swap(bx(pk(a))),
        AndV(bx(Verify(bx(pk(a)))), bx(PkK(b))),
        AndV(bx(Verify(bx(pk(a)))), bx(PkH(b))),
        Check(bx(AndV(bx(Verify(bx(pk(a)))), bx(PkK(b))))),
        Check(bx(OrI(bx(PkK(a)), bx(PkH(b))))),
        AndB(bx(pk(a)), bx(Swap(bx(pk(b))))),
        OrB(bx(pk(a)), bx(Swap(bx(pk(b))))),
        OrB(bx(pk(a)), bx(Alt(bx(pkh(b))))),
        OrC(bx(pk(a)), bx(Verify(bx(pk(b))))),
        OrD(bx(pk(a)), bx(pk(b))),
        OrD(bx(pk(a)), bx(pkh(b))),
        AndV(bx(OrC(bx(pk(a)), bx(Verify(bx(pk(b)))))), bx(True)),
        RawPkH(if ctx == CtxK::Tap { 200 } else { 0 }),
        Check(bx(RawPkH(if ctx == CtxK::Tap { 200 } else { 0 }))),
        True, False,
        Alt(bx(True)), Alt(bx(False)), Verify(bx(True)),
        AndV(bx(Verify(bx(True))), bx(True)),
        OrI(bx(Verify(bx(True))), bx(Verify(bx(False)))),
    ];
    if ctx == CtxK::Tap {
        v.extend([
            MultiA(1, vec![a]), MultiA(1, vec![a, b]), MultiA(2, vec![a, b]), MultiA(2, vec![a, b, c]), MultiA(3, vec![a, b, c]),
            SortedMultiA(2, vec![c, a, b]),
            Verify(bx(MultiA(2, vec![a, b]))), Alt(bx(MultiA(1, vec![a, b]))),
            NonZero(bx(AndV(bx(Verify(bx(pk(c)))), bx(MultiA(1, vec![a, b]))))),
            OrD(bx(MultiA(1, vec![a, b])), bx(pk(c))),
            Thresh(1, vec![MultiA(1, vec![a, b]), Alt(bx(MultiA(1, vec![b, c])))]),
        ]);
    } else {
        v.extend([
            Multi(1, vec![a]), Multi(1, vec![a, b]), Multi(2, vec![a, b]), Multi(2, vec![a, b, c]), Multi(3, vec![a, b, c]),
            SortedMulti(2, vec![c, a, b]),
            Verify(bx(Multi(2, vec![a, b]))), Alt(bx(Multi(1, vec![a, b]))),
            NonZero(bx(Multi(1, vec![a, b]))), NonZero(bx(Multi(2, vec![a, b]))),
            OrD(bx(NonZero(bx(Multi(1, vec![a, b])))), bx(pk(c))),
            Thresh(1, vec![Multi(1, vec![a, b]), Alt(bx(Multi(1, vec![b, c])))]),
        ]);
        if matches!(ctx, CtxK::Bare | CtxK::Legacy) {
            v.extend([PkK(100), PkH(100), pk(100), pkh(100), Multi(1, vec![100, a])]);
        }
    }
    v
}

fn emit_one<Pk: msops::HKey, Ctx: ScriptContext>(out: &mut Out, ctx: CtxK, node: &Node, op: &str) -> bool {
    let ms: Miniscript<Pk, Ctx> = match ast::to_ms(node) { Ok(m) => m, Err(_) => return false };
    let w = node.wire();
    // the judge executes the LIBRARY's script; the theorems speak about the model's encoding,
    // which is tied to it by this correspondence line
    let script = ast::hex(ms.encode().as_bytes());
    out.line(&format!("C encode {} {}", ctx.name(), w), &script);
    out.line(&format!("J {} {} {} {} {}", op, ctx.name(), w, script, ts(&ms.ty)), "ok");
    out.count(&format!("base {:?}", ms.ty.corr.base));
    out.count(&format!("input {:?}", ms.ty.corr.input));
    if ms.ty.corr.dissatisfiable { out.count("label d"); }
    if ms.ty.corr.unit { out.count("label u"); }
    if ms.ty.mall.signed { out.count("label s"); }
    if ms.ty.mall.dissat == miniscript::miniscript::types::Dissat::None { out.count("label f"); }
    node.count_frags(out);
    true
}

pub fn run(out: &mut Out, thorough: bool, seed: u64) {
    let mut rng = Rng(seed ^ 0xC06);
    ast::emit_defs(out);
    msops::emit_sig_defs(out);
    let op = if thorough { "typeexecx" } else { "typeexec" };
    let mut n_frag = 0u64;
    for ctx in CtxK::ALL {
        let mut seen: BTreeSet<String> = BTreeSet::new();
        // hand corpus first (ill-typed members for this context are skipped by `to_ms`)
        for node in corpus(ctx) {
            if !seen.insert(node.wire()) { continue; }
            if with_ctx!(ctx, emit_one(out, ctx, &node, op)) { n_frag += 1; out.count("corpus fragment"); }
        }
        let atoms = ast::default_atoms(ctx, true);
        let (depth, quota) = if thorough { (3, 30) } else { (3, 7) };
        let frags = ast::enumerate(ctx, &atoms, depth, quota, &mut rng);
        for t in frags.iter() {
            // keep the per-fragment alphabet small: at most 3 distinct keys + 2 hashes
            let mut ks = vec![]; t.node.keys(&mut ks); ks.sort(); ks.dedup();
            if ks.len() > 3 || t.node.size() > 14 { out.count("skipped large fragment"); continue; }
            if !seen.insert(t.node.wire()) { continue; }
            if with_ctx!(ctx, emit_one(out, ctx, &t.node, op)) { n_frag += 1; out.count("enumerated fragment"); }
        }
    }
    // negative controls: a deliberately too strong type for a known fragment must be refuted by
    // the judge on the stated letter (shows the judge is not vacuous; independent of the library)
    let neg: [(&str, &str, &str, &str); 9] = [
        // the 2022-04-20 advisory: `d:` typed `u` — refuted without MINIMALIF by input [02]
        ("bare", "d(v(1))", "BO11/e01", "u"),
        ("legacy", "d(v(1))", "BO11/e01", "u"),
        // or_i(1,0) is not zero-arg, and `after` is not unit
        ("segwitv0", "or_i(1,0)", "Bz11/x01", "z"),
        ("segwitv0", "after(100)", "Bz01/f01", "u"),
        // a hash fragment is not signed, and `1` is not dissatisfiable
        ("segwitv0", "sha256(0)", "BO11/x11", "s"),
        ("tap", "1", "Bz11/f01", "d"),
        // pk_h consumes two elements, not one; j:multi must not claim `f`
        ("segwitv0", "c(pk_h(0))", "BO11/e11", "o"),
        ("segwitv0", "j(multi(1,0,1))", "BN11/f11", "f"),
        // `a:` leaves x on top: claiming base B is refuted by the shape test
        ("segwitv0", "and_v(v(c(pk_k(0))),c(pk_k(1)))", "Vo00/f11", "V"),
    ];
    for (ctx, astw, ty, l) in neg {
        out.line(&format!("J typeexecneg {} {} {} {}", ctx, astw, ty, l), "refuted");
    }
    out.note("distinct_nontrivial", n_frag.to_string());
    out.note("domain", format!(
        "TESTS (not proofs) of the type letters: hand corpus + all base types B/V/K/W enumerated to depth {} (quota-thinned) in 4 contexts; per fragment all input stacks of length <= 3 over the full alphabet ([], 01, 02, 00, 80, valid sig per key, wrong-key sig, invalid sig, key serialisations, preimages, wrong preimage, 32 zero bytes, 33-byte junk) and of length {}, above the sentinel [aa],[bb]; 1 or 3 (nLockTime,nSequence) settings; `d` is searched among these inputs plus the specification's canonical dissatisfaction",
        3, if thorough { "4 (full alphabet, thinned to 20000) and 5 (core alphabet, thinned to 5000)" } else { "4 (core alphabet, thinned to 2000)" }));
}

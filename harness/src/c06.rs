//! C06: static types predict execution.  For every enumerated well-typed fragment (ALL base
//! types, all four contexts) plus a hand corpus, emit the type the LIBRARY assigned
//! (`Miniscript::ty`); the Lean driver executes the encoded fragment on a bounded set of input
//! stacks with the Script specification and tests every letter of that type against what it
//! observes (`J typeexec`, which carries the library's own script bytes).
use crate::ast::{self, CtxK, Node, HK};
use crate::c05::ts;
use crate::common::{Out, Rng};
use crate::msops;
use crate::with_ctx;
use miniscript::{Miniscript, ScriptContext, Terminal, Threshold};
use std::collections::{BTreeMap, BTreeSet};
use std::sync::Arc;

fn bx(n: Node) -> Box<Node> { Box::new(n) }

/// hand corpus: the fragments whose labels are delicate (see DESIGN C06)
fn corpus(ctx: CtxK) -> Vec<Node> {
    use Node::*;
    let k = ast::ctx_keys(ctx, 3);
    let (a, b, c) = (k[0], k[1], k[2]);
    let pk = |i: u32| Check(bx(PkK(i)));
    let pkh = |i: u32| Check(bx(PkH(i)));
    let sha = Hash(HK::Sha256, 0);
    let h160 = Hash(HK::Hash160, 1);
    let mut v = vec![
        // d: (the 2022 advisory: `d:` must not be `u` without MINIMALIF)
        DupIf(bx(Verify(bx(True)))),
        DupIf(bx(Verify(bx(After(100))))),
        DupIf(bx(Verify(bx(Older(10))))),
        OrD(bx(pk(a)), bx(DupIf(bx(Verify(bx(Older(10))))))),
        AndB(bx(pk(a)), bx(Alt(bx(DupIf(bx(Verify(bx(True)))))))),
        // j: / n:
        NonZero(bx(pk(a))),
        NonZero(bx(sha.clone())),
        NonZero(bx(AndV(bx(Verify(bx(pk(a)))), bx(pk(b))))),
        NonZero(bx(DupIf(bx(Verify(bx(True)))))),
        ZeroNotEqual(bx(DupIf(bx(Verify(bx(True)))))),
        ZeroNotEqual(bx(After(100))),
        ZeroNotEqual(bx(OrI(bx(After(100)), bx(False)))),
        OrD(bx(NonZero(bx(pk(a)))), bx(pk(b))),
        // or_i with asymmetric arms
        OrI(bx(True), bx(False)),
        OrI(bx(False), bx(True)),
        OrI(bx(pk(a)), bx(False)),
        OrI(bx(False), bx(pk(a))),
        OrI(bx(After(100)), bx(pk(a))),
        OrI(bx(sha.clone()), bx(Older(10))),
        OrI(bx(Verify(bx(pk(a)))), bx(Verify(bx(sha.clone())))),
        OrI(bx(PkK(a)), bx(PkH(b))),
        OrI(bx(AndV(bx(Verify(bx(pk(a)))), bx(True))), bx(False)),
        // andor
        AndOr(bx(pk(a)), bx(pk(b)), bx(pk(c))),
        AndOr(bx(pk(a)), bx(After(100)), bx(False)),
        AndOr(bx(pk(a)), bx(Older(10)), bx(sha.clone())),
        AndOr(bx(sha.clone()), bx(pk(a)), bx(False)),
        AndOr(bx(pk(a)), bx(PkK(b)), bx(PkH(c))),
        AndOr(bx(pk(a)), bx(Verify(bx(pk(b)))), bx(Verify(bx(sha.clone())))),
        AndOr(bx(False), bx(True), bx(True)),
        // thresh
        Thresh(1, vec![pk(a)]),
        Thresh(1, vec![False]),
        Thresh(1, vec![pk(a), Swap(bx(pk(b)))]),
        Thresh(2, vec![pk(a), Swap(bx(pk(b))), Alt(bx(sha.clone()))]),
        Thresh(2, vec![pk(a), Swap(bx(pk(b))), Swap(bx(pk(c)))]),
        Thresh(3, vec![pk(a), Swap(bx(pk(b))), Alt(bx(pkh(c)))]),
        Thresh(2, vec![sha.clone(), Alt(bx(h160.clone())), Swap(bx(pk(a)))]),
        // hashes
        sha.clone(), h160.clone(), Hash(HK::Hash256, 2), Hash(HK::Ripemd160, 3),
        Verify(bx(sha.clone())),
        AndV(bx(Verify(bx(sha.clone()))), bx(pk(a))),
        AndB(bx(sha.clone()), bx(Alt(bx(h160.clone())))),
        OrB(bx(sha.clone()), bx(Alt(bx(h160.clone())))),
        Swap(bx(sha.clone())),
        // time locks
        After(1), After(16), After(17), After(100), After(499_999_999), After(500_000_000), After(500_000_001),
        Older(1), Older(16), Older(65535), Older(4_194_305),
        AndV(bx(Verify(bx(After(100)))), bx(Older(10))),
        AndV(bx(Verify(bx(After(100)))), bx(pk(a))),
        AndB(bx(After(100)), bx(Alt(bx(Older(10))))),
        OrC(bx(pk(a)), bx(Verify(bx(After(100))))),
        OrD(bx(pk(a)), bx(After(100))),
        Verify(bx(After(100))),
        // keys
        PkK(a), PkH(a), pk(a), pkh(a), Verify(bx(pk(a))), Verify(bx(pkh(a))), Alt(bx(pk(a))), Swap(bx(pk(a))),
        AndV(bx(Verify(bx(pk(a)))), bx(PkK(b))),
        AndV(bx(Verify(bx(pk(a)))), bx(PkH(b))),
        Check(bx(AndV(bx(Verify(bx(pk(a)))), bx(PkK(b))))),
        Check(bx(OrI(bx(PkK(a)), bx(PkH(b))))),
        AndB(bx(pk(a)), bx(Swap(bx(pk(b))))),
        OrB(bx(pk(a)), bx(Swap(bx(pk(b))))),
        OrB(bx(pk(a)), bx(Alt(bx(pkh(b))))),
        OrC(bx(pk(a)), bx(Verify(bx(pk(b))))),
        OrD(bx(pk(a)), bx(pk(b))),
        OrD(bx(pk(a)), bx(pkh(b))),
        AndV(bx(OrC(bx(pk(a)), bx(Verify(bx(pk(b)))))), bx(True)),
        RawPkH(if ctx == CtxK::Tap { 200 } else { 0 }),
        Check(bx(RawPkH(if ctx == CtxK::Tap { 200 } else { 0 }))),
        True, False,
        Alt(bx(True)), Alt(bx(False)), Verify(bx(True)),
        AndV(bx(Verify(bx(True))), bx(True)),
        OrI(bx(Verify(bx(True))), bx(Verify(bx(False)))),
    ];
    // fragments that can only be SATISFIED with four or more inputs (their satisfying run comes
    // from the specification's canonical satisfaction, not from the enumerated stacks)
    v.extend([
        AndB(bx(pkh(a)), bx(Alt(bx(pkh(b))))),
        Thresh(3, vec![pk(a), Swap(bx(pk(b))), Alt(bx(pkh(c)))]),
        AndV(bx(Verify(bx(pkh(a)))), bx(AndV(bx(Verify(bx(pkh(b)))), bx(After(100))))),
        AndOr(bx(AndB(bx(pkh(a)), bx(Alt(bx(pkh(b)))))), bx(Older(10)), bx(False)),
        OrD(bx(AndB(bx(pkh(a)), bx(Alt(bx(pkh(b)))))), bx(AndV(bx(Verify(bx(pkh(c)))), bx(After(100))))),
    ]);
    if ctx == CtxK::Tap {
        v.extend([
            AndV(bx(Verify(bx(MultiA(3, vec![a, b, c])))), bx(AndV(bx(Verify(bx(pk(a)))), bx(After(100))))),
            MultiA(1, vec![a]), MultiA(1, vec![a, b]), MultiA(2, vec![a, b]), MultiA(2, vec![a, b, c]), MultiA(3, vec![a, b, c]),
            SortedMultiA(2, vec![c, a, b]),
            Verify(bx(MultiA(2, vec![a, b]))), Alt(bx(MultiA(1, vec![a, b]))),
            NonZero(bx(AndV(bx(Verify(bx(pk(c)))), bx(MultiA(1, vec![a, b]))))),
            OrD(bx(MultiA(1, vec![a, b])), bx(pk(c))),
            Thresh(1, vec![MultiA(1, vec![a, b]), Alt(bx(MultiA(1, vec![b, c])))]),
        ]);
    } else {
        v.extend([
            AndV(bx(Verify(bx(Multi(3, vec![a, b, c])))), bx(After(100))),
            AndOr(bx(Multi(3, vec![a, b, c])), bx(After(100)), bx(False)),
            Multi(1, vec![a]), Multi(1, vec![a, b]), Multi(2, vec![a, b]), Multi(2, vec![a, b, c]), Multi(3, vec![a, b, c]),
            SortedMulti(2, vec![c, a, b]),
            Verify(bx(Multi(2, vec![a, b]))), Alt(bx(Multi(1, vec![a, b]))),
            NonZero(bx(Multi(1, vec![a, b]))), NonZero(bx(Multi(2, vec![a, b]))),
            OrD(bx(NonZero(bx(Multi(1, vec![a, b])))), bx(pk(c))),
            Thresh(1, vec![Multi(1, vec![a, b]), Alt(bx(Multi(1, vec![b, c])))]),
        ]);
        if matches!(ctx, CtxK::Bare | CtxK::Legacy) {
            v.extend([PkK(100), PkH(100), pk(100), pkh(100), Multi(1, vec![100, a])]);
        }
    }
    v
}

fn emit_one<Pk: msops::HKey, Ctx: ScriptContext>(out: &mut Out, ctx: CtxK, node: &Node, op: &str) -> bool {
    let ms: Miniscript<Pk, Ctx> = match ast::to_ms(node) { Ok(m) => m, Err(_) => return false };
    emit_ms(out, ctx, node, &ms, op);
    node.count_frags(out);
    true
}

/* ------------------------------------------------------------------ rule matrix
   Every wrapper and combinator is applied to children of EVERY type the library has produced so
   far (one representative per distinct `Miniscript::ty`, i.e. per z/o/n/d/u x e/f/s/m
   combination of every base type), in every position; the LIBRARY's `from_ast` alone decides
   which candidates are well typed - nothing is pre-filtered by the specification's rules. */

struct Rep<Pk: ast::KeyOf, Ctx: ScriptContext> { node: Node, ms: Arc<Miniscript<Pk, Ctx>>, ty: String }
impl<Pk: ast::KeyOf, Ctx: ScriptContext> Clone for Rep<Pk, Ctx> {
    fn clone(&self) -> Self { Rep { node: self.node.clone(), ms: self.ms.clone(), ty: self.ty.clone() } }
}

fn mk<Pk: ast::KeyOf, Ctx: ScriptContext>(t: Terminal<Pk, Ctx>, node: Node) -> Option<Rep<Pk, Ctx>> {
    let ms = Miniscript::from_ast(t).ok()?;
    Some(Rep { ty: ts(&ms.ty), ms: Arc::new(ms), node })
}

fn matrix_leaves(ctx: CtxK) -> Vec<Node> {
    use Node::*;
    let k = ast::ctx_keys(ctx, 3);
    let (a, b, c) = (k[0], k[1], k[2]);
    let mut v = vec![True, False, PkK(a), PkH(a), RawPkH(if ctx == CtxK::Tap { 200 } else { 0 }),
        After(100), After(500_000_001), Older(10), Older(4_194_305),
        Hash(HK::Sha256, 0), Hash(HK::Hash256, 2), Hash(HK::Ripemd160, 3), Hash(HK::Hash160, 1)];
    if ctx == CtxK::Tap {
        v.extend([MultiA(1, vec![a]), MultiA(1, vec![a, b]), MultiA(2, vec![a, b]), MultiA(2, vec![a, b, c]),
            MultiA(3, vec![a, b, c]), SortedMultiA(1, vec![b, a]), SortedMultiA(2, vec![c, a, b]), SortedMultiA(3, vec![c, b, a])]);
    } else {
        v.extend([Multi(1, vec![a]), Multi(1, vec![a, b]), Multi(2, vec![a, b]), Multi(2, vec![a, b, c]),
            Multi(3, vec![a, b, c]), SortedMulti(1, vec![b, a]), SortedMulti(2, vec![c, a, b]), SortedMulti(3, vec![c, b, a])]);
        if matches!(ctx, CtxK::Bare | CtxK::Legacy) { v.extend([PkK(100), PkH(100), Multi(1, vec![100, a])]); }
    }
    v
}

fn corr_key(ty: &str) -> String { ty[..4].to_string() }
fn mall_key(ty: &str) -> String { format!("{}{}", &ty[..1], &ty[4..]) }

/// Rule matrix.  `classes` = one smallest representative per distinct full type produced so far.
/// Unary rules (and single-child thresh) are applied to every class; binary rules, two-child
/// thresh and andor to every tuple of correctness-class representatives (one per B/V/K/W x
/// z/o/n x d x u value) and to every tuple of (base, malleability)-class representatives: the
/// typing rules are componentwise, so every rule sees every reachable argument tuple.  Thorough
/// tier: every accepted candidate is judged.  Quick tier: one candidate per (rule, base types of
/// the children, resulting type) plus a seeded sample of the rest.
/// Returns the emitted fragments (for the parser stream).
fn matrix<Pk: msops::HKey, Ctx: ScriptContext>(out: &mut Out, ctx: CtxK, thorough: bool, rng: &mut Rng, seen: &mut BTreeSet<String>) -> Vec<Node> {
    let mut emitted: Vec<Node> = vec![];
    let mut classes: BTreeMap<String, Rep<Pk, Ctx>> = BTreeMap::new();
    let mut done: BTreeSet<String> = BTreeSet::new();
    let mut strata: BTreeSet<String> = BTreeSet::new();
    let full = if thorough { "typeexecx" } else { "typeexec" };
    let note_class = |classes: &mut BTreeMap<String, Rep<Pk, Ctx>>, r: &Rep<Pk, Ctx>| {
        match classes.get(&r.ty) {
            Some(old) if old.node.size() <= r.node.size() => {}
            _ => { classes.insert(r.ty.clone(), r.clone()); }
        }
    };
    for n in matrix_leaves(ctx) {
        if let Ok(ms) = ast::to_ms::<Pk, Ctx>(&n) {
            let r = Rep { ty: ts(&ms.ty), ms: Arc::new(ms), node: n.clone() };
            if seen.insert(n.wire()) { emit_ms(out, ctx, &n, &r.ms, full); emitted.push(n.clone()); out.count("matrix leaf"); }
            note_class(&mut classes, &r);
        } else { out.count("matrix leaf rejected by the library"); }
    }
    let levels = 3;
    for level in 1..=levels {
        let reps: Vec<Rep<Pk, Ctx>> = classes.values().cloned().collect();
        let mut rc: BTreeMap<String, Rep<Pk, Ctx>> = BTreeMap::new();
        let mut rm: BTreeMap<String, Rep<Pk, Ctx>> = BTreeMap::new();
        for r in &reps {
            for (m, key) in [(&mut rc, corr_key(&r.ty)), (&mut rm, mall_key(&r.ty))] {
                match m.get(&key) { Some(o) if o.node.size() <= r.node.size() => {}, _ => { m.insert(key, r.clone()); } }
            }
        }
        let rc: Vec<Rep<Pk, Ctx>> = rc.into_values().collect();
        let rm: Vec<Rep<Pk, Ctx>> = rm.into_values().collect();
        out.note(&format!("matrix {} level {}", ctx.name(), level),
            format!("{} full types, {} correctness classes, {} (base,malleability) classes as children", reps.len(), rc.len(), rm.len()));
        let op = if level == 1 { full } else { "typeexecq" };
        let mut fresh: Vec<Rep<Pk, Ctx>> = vec![];
        let mut try_one = |out: &mut Out, rng: &mut Rng, kind: &str, bases: String, key: String, t: Terminal<Pk, Ctx>, node: Node,
                           fresh: &mut Vec<Rep<Pk, Ctx>>, emitted: &mut Vec<Node>| {
            if !done.insert(key) { return; }
            out.count(&format!("matrix tried {}", kind));
            if let Some(r) = mk::<Pk, Ctx>(t, node) {
                out.count(&format!("matrix accepted {}", kind));
                let new_stratum = strata.insert(format!("{} {} {}", kind, bases, r.ty));
                let sample = if level >= 3 { rng.below(if kind == "andor" { 150 } else { 25 }) == 0 }
                    else if kind == "andor" { rng.below(60) == 0 } else { rng.below(10) == 0 };
                if r.node.size() > 48 { out.count("matrix fragment above 48 nodes (not judged)"); }
                else if thorough || level == 1 || new_stratum || sample {
                    if seen.insert(r.node.wire()) {
                        emit_ms(out, ctx, &r.node, &r.ms, op);
                        emitted.push(r.node.clone());
                        out.count(&format!("matrix judged {}", kind));
                    }
                } else { out.count("matrix accepted candidate not judged in the quick tier (same rule, child bases and result type judged)"); }
                fresh.push(r);
            }
        };
        let b1 = |r: &Rep<Pk, Ctx>| r.ty[..1].to_string();
        let bxn = |r: &Rep<Pk, Ctx>| Box::new(r.node.clone());
        for x in &reps {
            let un: [(&str, Terminal<Pk, Ctx>, Node); 7] = [
                ("a", Terminal::Alt(x.ms.clone()), Node::Alt(bxn(x))), ("s", Terminal::Swap(x.ms.clone()), Node::Swap(bxn(x))),
                ("c", Terminal::Check(x.ms.clone()), Node::Check(bxn(x))), ("d", Terminal::DupIf(x.ms.clone()), Node::DupIf(bxn(x))),
                ("v", Terminal::Verify(x.ms.clone()), Node::Verify(bxn(x))), ("j", Terminal::NonZero(x.ms.clone()), Node::NonZero(bxn(x))),
                ("n", Terminal::ZeroNotEqual(x.ms.clone()), Node::ZeroNotEqual(bxn(x)))];
            for (kind, t, node) in un { try_one(out, rng, kind, b1(x), format!("{} {}", kind, x.ty), t, node, &mut fresh, &mut emitted); }
            for k in [1usize, 2] {
                match Threshold::new(k, vec![x.ms.clone()]) {
                    Ok(th) => try_one(out, rng, "thresh/1", b1(x), format!("thresh{}of1 {}", k, x.ty), Terminal::Thresh(th),
                        Node::Thresh(k, vec![x.node.clone()]), &mut fresh, &mut emitted),
                    Err(_) => out.count("matrix Threshold::new rejected k > n"),
                }
            }
        }
        for pool in [&rc, &rm] {
            for x in pool.iter() {
                for y in pool.iter() {
                    let bin: [(&str, Terminal<Pk, Ctx>, Node); 6] = [
                        ("and_v", Terminal::AndV(x.ms.clone(), y.ms.clone()), Node::AndV(bxn(x), bxn(y))),
                        ("and_b", Terminal::AndB(x.ms.clone(), y.ms.clone()), Node::AndB(bxn(x), bxn(y))),
                        ("or_b", Terminal::OrB(x.ms.clone(), y.ms.clone()), Node::OrB(bxn(x), bxn(y))),
                        ("or_d", Terminal::OrD(x.ms.clone(), y.ms.clone()), Node::OrD(bxn(x), bxn(y))),
                        ("or_c", Terminal::OrC(x.ms.clone(), y.ms.clone()), Node::OrC(bxn(x), bxn(y))),
                        ("or_i", Terminal::OrI(x.ms.clone(), y.ms.clone()), Node::OrI(bxn(x), bxn(y)))];
                    let bb = format!("{}{}", b1(x), b1(y));
                    for (kind, t, node) in bin { try_one(out, rng, kind, bb.clone(), format!("{} {} {}", kind, x.ty, y.ty), t, node, &mut fresh, &mut emitted); }
                    for k in [1usize, 2] {
                        if let Ok(th) = Threshold::new(k, vec![x.ms.clone(), y.ms.clone()]) {
                            try_one(out, rng, "thresh/2", bb.clone(), format!("thresh{}of2 {} {}", k, x.ty, y.ty), Terminal::Thresh(th),
                                Node::Thresh(k, vec![x.node.clone(), y.node.clone()]), &mut fresh, &mut emitted);
                        }
                    }
                    for z in pool.iter() {
                        try_one(out, rng, "andor", format!("{}{}", bb, b1(z)), format!("andor {} {} {}", x.ty, y.ty, z.ty),
                            Terminal::AndOr(x.ms.clone(), y.ms.clone(), z.ms.clone()), Node::AndOr(bxn(x), bxn(y), bxn(z)), &mut fresh, &mut emitted);
                    }
                }
            }
        }
        // thresholds whose child at index 2 / 3 ranges over EVERY type (the first two / three children
        // are fixed well-typed ones): the rule must check base, `d` and `u` at every index
        {
            let ks = ast::ctx_keys(ctx, 3);
            let good_b = ast::to_ms::<Pk, Ctx>(&Node::Check(Box::new(Node::PkK(ks[0])))).ok().map(Arc::new);
            let good_w = ast::to_ms::<Pk, Ctx>(&Node::Swap(Box::new(Node::Check(Box::new(Node::PkK(ks[1])))))).ok().map(Arc::new);
            if let (Some(gb), Some(gw)) = (good_b, good_w) {
                let nb = Node::Check(Box::new(Node::PkK(ks[0])));
                let nw = Node::Swap(Box::new(Node::Check(Box::new(Node::PkK(ks[1])))));
                for x in &reps {
                    for (n_fixed, kind) in [(2usize, "thresh/B,W,X"), (3, "thresh/B,W,W,X")] {
                        let mut subs = vec![gb.clone()]; let mut nodes = vec![nb.clone()];
                        for _ in 1..n_fixed { subs.push(gw.clone()); nodes.push(nw.clone()); }
                        subs.push(x.ms.clone()); nodes.push(x.node.clone());
                        for k in [1usize, n_fixed + 1] {
                            if let Ok(th) = Threshold::new(k, subs.clone()) {
                                try_one(out, rng, kind, b1(x), format!("{} k={} {}", kind, k, x.ty), Terminal::Thresh(th),
                                    Node::Thresh(k, nodes.clone()), &mut fresh, &mut emitted);
                            }
                        }
                    }
                }
            }
        }
        // three-child thresholds: k = 1, 2, 3 over a seeded sample of class representatives
        for _ in 0..(if thorough { 600 } else { 60 }) {
            let (x, y, z) = (&reps[rng.below(reps.len())], &reps[rng.below(reps.len())], &reps[rng.below(reps.len())]);
            let k = 1 + rng.below(3);
            if let Ok(th) = Threshold::new(k, vec![x.ms.clone(), y.ms.clone(), z.ms.clone()]) {
                try_one(out, rng, "thresh/3", format!("{}{}{}", b1(x), b1(y), b1(z)), format!("thresh{}of3 {} {} {}", k, x.ty, y.ty, z.ty),
                    Terminal::Thresh(th), Node::Thresh(k, vec![x.node.clone(), y.node.clone(), z.node.clone()]), &mut fresh, &mut emitted);
            }
        }
        for r in &fresh { note_class(&mut classes, r); }
    }
    // the empty threshold cannot be built at all
    if Threshold::<Arc<Miniscript<Pk, Ctx>>, 0>::new(1, vec![]).is_err() { out.count("matrix Threshold::new rejected n = 0"); }
    out.note(&format!("matrix {} final", ctx.name()), format!("{} distinct full types reached", classes.len()));
    emitted
}

fn emit_ms<Pk: msops::HKey, Ctx: ScriptContext>(out: &mut Out, ctx: CtxK, node: &Node, ms: &Miniscript<Pk, Ctx>, op: &str) {
    let w = node.wire();
    let script = ast::hex(ms.encode().as_bytes());
    out.line(&format!("C encode {} {}", ctx.name(), w), &script);
    out.line(&format!("C typeof {} {}", ctx.name(), w), &ts(&ms.ty));
    out.line(&format!("J {} {} {} {} {}", op, ctx.name(), w, script, ts(&ms.ty)), "ok");
    // the input domain the judge enumerates for this fragment (recomputed independently by the driver)
    let tier = match op { "typeexecq" => 0, "typeexec" => 1, _ => 2 };
    let (a, c, stacks, tx) = domain(node, ctx, tier);
    out.line(&format!("C typeexecdom {} {} {}", ctx.name(), w, tier), &format!("A={} C={} stacks={} tx={}", a, c, stacks, tx));
    let runs = stacks * tx * if ms.ty.corr.base == miniscript::miniscript::types::Base::W { 2 } else { 1 };
    *out.hist.entry("script executions (input stacks x transaction settings)".to_string()).or_insert(0) += runs as u64;
    *out.hist.entry(format!("script executions tier {}", tier)).or_insert(0) += runs as u64;
    out.count(&format!("base {:?}", ms.ty.corr.base));
    out.count(&format!("input {:?}", ms.ty.corr.input));
    if ms.ty.corr.dissatisfiable { out.count("label d"); }
    if ms.ty.corr.unit { out.count("label u"); }
    if ms.ty.mall.signed { out.count("label s"); }
    if ms.ty.mall.dissat == miniscript::miniscript::types::Dissat::None { out.count("label f"); }
}

/* ------------------------------------------------------------------ input domain of the judge
   Mirrors `mkAlphabet` / `inputStacks` of Driver/OpsTypeExec.lean; compared line by line
   (`C typeexecdom`), so the evidence can state exactly how many executions were tried. */

fn thin_count(stride: usize, n: usize) -> usize { if stride <= 1 { n } else { (n + stride - 1) / stride } }

fn domain(node: &Node, ctx: CtxK, tier: usize) -> (usize, usize, usize, usize) {
    let mut ids: Vec<u32> = vec![];
    let mut ks = vec![]; node.keys(&mut ks);
    let mut rs = vec![]; node.rawpkhs(&mut rs);
    for k in ks.into_iter().chain(rs.into_iter()) { if !ids.contains(&k) { ids.push(k); } }
    let nk = ids.len();
    let per_key = if ctx == CtxK::Tap && tier == 2 { 2 } else { 1 };
    // the signature tables are keyed by the secret (id mod 100): a compressed and an uncompressed
    // key of the same secret share their ECDSA signature bytes
    let mut secrets: Vec<u32> = ids.iter().map(|i| i % 100).collect(); secrets.sort(); secrets.dedup();
    // Tap, tiers 0/1: the first key also contributes its 65-byte signature (explicit sighash byte)
    let nsig = secrets.len() * per_key + if ctx == CtxK::Tap && tier < 2 && nk > 0 { 1 } else { 0 };
    let extra = if nk > 0 { 2 } else { 0 };            // wrong-key signature + invalid signature
    let mut hs = vec![]; node.hashes(&mut hs);
    let mut pre: Vec<u32> = vec![];
    for (_, h) in &hs { if !pre.contains(h) { pre.push(*h); } }
    let hj = if hs.is_empty() { 0 } else { 2 };
    let a = 5 + nsig + nk + extra + pre.len() + hj + 1;
    let c = 2 + nsig + nk + pre.len() + (if hj > 0 { 1 } else { 0 }) + 1;
    let up2 = 1 + a + a * a;
    let stacks = match tier {
        0 => up2 + thin_count((c.pow(3) + 599) / 600, c.pow(3)),
        1 => up2 + a.pow(3) + thin_count((c.pow(4) + 1999) / 2000, c.pow(4)),
        _ => up2 + a.pow(3) + thin_count((a.pow(4) + 19999) / 20000, a.pow(4)) + thin_count((c.pow(5) + 4999) / 5000, c.pow(5)),
    };
    let (mut af, mut ol) = (vec![], vec![]);
    node.locks(&mut af, &mut ol);
    let tx = if af.is_empty() && ol.is_empty() { 1 } else { 3 };
    (a, c, stacks, tx)
}

/* ------------------------------------------------------------------ parser path
   The neutral AST is printed as a Miniscript string by THIS printer (not the library's Display):
   `plain` uses only the basic fragment names, `sugar` uses the aliases the specification defines
   (pk(K) = c:pk_k(K), pkh(K) = c:pk_h(K), t:X = and_v(X,1), l:X = or_i(0,X), u:X = or_i(X,0),
   and_n(X,Y) = andor(X,Y,0)).  The string goes through `from_str` (all validation switches
   off, so that every base type parses); the resulting type and script are compared with the
   Lean model's typeOf / encode of the AST. */

fn key_str(ctx: CtxK, id: u32) -> String {
    if ctx == CtxK::Tap { ast::xonly_key(id).to_string() } else { ast::full_key(id).to_string() }
}

fn show_parts(n: &Node, sugar: bool, ctx: CtxK) -> (String, String) {
    use Node::*;
    let wrap = |c: char, x: &Node| { let (w, b) = show_parts(x, sugar, ctx); (format!("{}{}", c, w), b) };
    let sh = |x: &Node| show(x, sugar, ctx);
    let keys = |k: usize, v: &Vec<u32>| format!("{},{}", k, v.iter().map(|i| key_str(ctx, *i)).collect::<Vec<_>>().join(","));
    match n {
        Check(x) if sugar && matches!(**x, PkK(_)) => if let PkK(k) = **x { (String::new(), format!("pk({})", key_str(ctx, k))) } else { unreachable!() },
        Check(x) if sugar && matches!(**x, PkH(_)) => if let PkH(k) = **x { (String::new(), format!("pkh({})", key_str(ctx, k))) } else { unreachable!() },
        AndV(x, y) if sugar && **y == True => wrap('t', x),
        OrI(x, y) if sugar && **x == False => wrap('l', y),
        OrI(x, y) if sugar && **y == False => wrap('u', x),
        AndOr(x, y, z) if sugar && **z == False => (String::new(), format!("and_n({},{})", sh(x), sh(y))),
        Alt(x) => wrap('a', x), Swap(x) => wrap('s', x), Check(x) => wrap('c', x), DupIf(x) => wrap('d', x),
        Verify(x) => wrap('v', x), NonZero(x) => wrap('j', x), ZeroNotEqual(x) => wrap('n', x),
        True => (String::new(), "1".into()), False => (String::new(), "0".into()),
        PkK(k) => (String::new(), format!("pk_k({})", key_str(ctx, *k))),
        PkH(k) => (String::new(), format!("pk_h({})", key_str(ctx, *k))),
        RawPkH(h) => (String::new(), format!("expr_raw_pkh({})", ast::raw_pkh(*h))),
        After(t) => (String::new(), format!("after({})", t)), Older(t) => (String::new(), format!("older({})", t)),
        Hash(kind, h) => (String::new(), format!("{}({})", kind.name(), hash_str(*kind, *h))),
        AndV(x, y) => (String::new(), format!("and_v({},{})", sh(x), sh(y))),
        AndB(x, y) => (String::new(), format!("and_b({},{})", sh(x), sh(y))),
        AndOr(x, y, z) => (String::new(), format!("andor({},{},{})", sh(x), sh(y), sh(z))),
        OrB(x, y) => (String::new(), format!("or_b({},{})", sh(x), sh(y))),
        OrD(x, y) => (String::new(), format!("or_d({},{})", sh(x), sh(y))),
        OrC(x, y) => (String::new(), format!("or_c({},{})", sh(x), sh(y))),
        OrI(x, y) => (String::new(), format!("or_i({},{})", sh(x), sh(y))),
        Thresh(k, xs) => (String::new(), format!("thresh({},{})", k, xs.iter().map(|x| sh(x)).collect::<Vec<_>>().join(","))),
        Multi(k, v) => (String::new(), format!("multi({})", keys(*k, v))),
        SortedMulti(k, v) => (String::new(), format!("sortedmulti({})", keys(*k, v))),
        MultiA(k, v) => (String::new(), format!("multi_a({})", keys(*k, v))),
        SortedMultiA(k, v) => (String::new(), format!("sortedmulti_a({})", keys(*k, v))),
    }
}
fn show(n: &Node, sugar: bool, ctx: CtxK) -> String {
    let (w, b) = show_parts(n, sugar, ctx);
    if w.is_empty() { b } else { format!("{}:{}", w, b) }
}
fn hash_str(kind: HK, h: u32) -> String {
    use miniscript::bitcoin::hashes::{hash160, ripemd160, sha256, Hash};
    let v = ast::hash_value(kind, h);
    match kind {
        HK::Sha256 => sha256::Hash::from_slice(&v).unwrap().to_string(),
        HK::Hash256 => miniscript::hash256::Hash::from_slice(&v).unwrap().to_string(),
        HK::Ripemd160 => ripemd160::Hash::from_slice(&v).unwrap().to_string(),
        HK::Hash160 => hash160::Hash::from_slice(&v).unwrap().to_string(),
    }
}

fn emit_str_with<Pk: msops::HKey, Ctx: ScriptContext>(out: &mut Out, ctx: CtxK, node: &Node, op: &str,
    parse: fn(&str) -> Result<Miniscript<Pk, Ctx>, miniscript::Error>) {
    let w = node.wire();
    let ast_ms: Option<Miniscript<Pk, Ctx>> = ast::to_ms(node).ok();
    for (form, sugar) in [("plain", false), ("sugar", true)] {
        let s = show(node, sugar, ctx);
        if sugar && s == show(node, false, ctx) { continue; }      // no alias applies
        let res = std::panic::catch_unwind(|| parse(&s));
        match res {
            Err(_) => out.line(&format!("J strparse {} {} {} PANIC", ctx.name(), form, w), "ok"),
            Ok(Err(e)) => {
                let kind = e.to_string().split(' ').take(3).collect::<Vec<_>>().join("_");
                out.line(&format!("J strparse {} {} {} err:{}", ctx.name(), form, w, kind), "ok");
            }
            Ok(Ok(ms2)) => {
                out.line(&format!("J strparse {} {} {} ok", ctx.name(), form, w), "ok");
                let script = ast::hex(ms2.encode().as_bytes());
                out.line(&format!("C typeofstr {} {} {}", ctx.name(), form, w), &ts(&ms2.ty));
                out.line(&format!("C encodestr {} {} {}", ctx.name(), form, w), &script);
                // a type or script that differs from the from_ast path is judged by execution too
                let same = ast_ms.as_ref().map(|m| ts(&m.ty) == ts(&ms2.ty) && m.encode() == ms2.encode()).unwrap_or(false);
                if !same {
                    out.count("parser path: type or script differs from the from_ast path (judged by execution)");
                    out.line(&format!("J {} {} {} {} {}", op, ctx.name(), w, script, ts(&ms2.ty)), "ok");
                }
            }
        }
    }
}

fn emit_str(out: &mut Out, ctx: CtxK, node: &Node, op: &str) {
    use miniscript::bitcoin::secp256k1::XOnlyPublicKey;
    use miniscript::bitcoin::PublicKey;
    use miniscript::{BareCtx, Legacy, Segwitv0, Tap, ValidationParams};
    match ctx {
        CtxK::Bare => emit_str_with::<PublicKey, BareCtx>(out, ctx, node, op, |s| Miniscript::from_str_with_validation_params(s, &ValidationParams::MAX)),
        CtxK::Legacy => emit_str_with::<PublicKey, Legacy>(out, ctx, node, op, |s| Miniscript::from_str_with_validation_params(s, &ValidationParams::MAX)),
        CtxK::Segwitv0 => emit_str_with::<PublicKey, Segwitv0>(out, ctx, node, op, |s| Miniscript::from_str_with_validation_params(s, &ValidationParams::MAX)),
        CtxK::Tap => emit_str_with::<XOnlyPublicKey, Tap>(out, ctx, node, op, |s| Miniscript::from_str_with_validation_params(s, &ValidationParams::MAX)),
    }
}

/* ------------------------------------------------------------------ context acceptance
   Candidates are offered to EVERY context with both key types (full keys: ids 0.. compressed,
   100.. uncompressed; x-only keys: ids 200..).  What `from_ast` answers - the type, or the KIND of
   the first refusal (typing rule / context rule) - is compared with the Lean model
   (`Model/Validate.lean` nodeChecked + typeOf) on a `C typeofctx` line.  No J: the statement of
   C06 is about types vs execution, not about which context admits which fragment. */

fn build_kind<Pk: ast::KeyOf, Ctx: ScriptContext>(n: &Node) -> Result<Miniscript<Pk, Ctx>, &'static str> {
    use Node::*;
    let sub = |x: &Node| -> Result<Arc<Miniscript<Pk, Ctx>>, &'static str> { Ok(Arc::new(build_kind::<Pk, Ctx>(x)?)) };
    let keys = |v: &Vec<u32>| -> Vec<Pk> { v.iter().map(|i| Pk::of(*i)).collect() };
    let t: Terminal<Pk, Ctx> = match n {
        True => Terminal::True, False => Terminal::False,
        PkK(k) => Terminal::PkK(Pk::of(*k)), PkH(k) => Terminal::PkH(Pk::of(*k)),
        RawPkH(h) => Terminal::RawPkH(ast::raw_pkh(*h)),
        After(x) => Terminal::After(miniscript::AbsLockTime::from_consensus(*x).map_err(|_| "ERR:other")?),
        Older(x) => Terminal::Older(miniscript::RelLockTime::from_consensus(*x).map_err(|_| "ERR:other")?),
        Hash(..) => return ast::to_ms::<Pk, Ctx>(n).map_err(|_| "ERR:other"),
        Alt(x) => Terminal::Alt(sub(x)?), Swap(x) => Terminal::Swap(sub(x)?), Check(x) => Terminal::Check(sub(x)?),
        DupIf(x) => Terminal::DupIf(sub(x)?), Verify(x) => Terminal::Verify(sub(x)?), NonZero(x) => Terminal::NonZero(sub(x)?),
        ZeroNotEqual(x) => Terminal::ZeroNotEqual(sub(x)?),
        AndV(a, b) => Terminal::AndV(sub(a)?, sub(b)?), AndB(a, b) => Terminal::AndB(sub(a)?, sub(b)?),
        AndOr(a, b, c) => Terminal::AndOr(sub(a)?, sub(b)?, sub(c)?),
        OrB(a, b) => Terminal::OrB(sub(a)?, sub(b)?), OrD(a, b) => Terminal::OrD(sub(a)?, sub(b)?),
        OrC(a, b) => Terminal::OrC(sub(a)?, sub(b)?), OrI(a, b) => Terminal::OrI(sub(a)?, sub(b)?),
        Thresh(k, xs) => {
            let mut v = vec![]; for x in xs { v.push(sub(x)?); }
            Terminal::Thresh(Threshold::new(*k, v).map_err(|_| "ERR:other")?)
        }
        Multi(k, v) => Terminal::Multi(Threshold::new(*k, keys(v)).map_err(|_| "ERR:other")?),
        SortedMulti(k, v) => Terminal::SortedMulti(Threshold::new(*k, keys(v)).map_err(|_| "ERR:other")?),
        MultiA(k, v) => Terminal::MultiA(Threshold::new(*k, keys(v)).map_err(|_| "ERR:other")?),
        SortedMultiA(k, v) => Terminal::SortedMultiA(Threshold::new(*k, keys(v)).map_err(|_| "ERR:other")?),
    };
    Miniscript::from_ast(t).map_err(|e| match e {
        miniscript::Error::TypeCheck(_) => "ERR:type",
        miniscript::Error::ContextError(_) => "ERR:context",
        _ => "ERR:other",
    })
}

fn ctx_candidates(base: u32) -> Vec<Node> {
    use Node::*;
    // `base` = 0: full keys (0.. compressed, 100.. uncompressed); 200: x-only keys
    let (a, b, c) = (base, base + 1, base + 2);
    let alt_kind = if base == 0 { 100 } else { base + 3 };      // an uncompressed key where there is one
    let pk = |i: u32| Check(bx(PkK(i)));
    let pkh = |i: u32| Check(bx(PkH(i)));
    let mut v = vec![
        PkK(a), PkH(a), pk(a), pkh(a), PkK(alt_kind), PkH(alt_kind), pk(alt_kind), pkh(alt_kind),
        Multi(1, vec![a]), Multi(2, vec![a, b, c]), SortedMulti(2, vec![c, a, b]), Multi(1, vec![a, alt_kind]),
        MultiA(1, vec![a]), MultiA(2, vec![a, b, c]), SortedMultiA(2, vec![c, a, b]), MultiA(1, vec![a, alt_kind]),
        AndV(bx(Verify(bx(pk(a)))), bx(pk(alt_kind))),
        OrD(bx(pk(alt_kind)), bx(pk(a))),
        OrD(bx(pkh(alt_kind)), bx(pk(a))),
        AndB(bx(pk(a)), bx(Swap(bx(pkh(alt_kind))))),
        Thresh(2, vec![pk(a), Swap(bx(pk(b))), Swap(bx(pk(alt_kind)))]),
        Thresh(1, vec![Multi(1, vec![a, b]), Alt(bx(pk(c)))]),
        Thresh(1, vec![MultiA(1, vec![a, b]), Alt(bx(pk(c)))]),
        OrD(bx(Multi(1, vec![a, b])), bx(pk(c))), OrD(bx(MultiA(1, vec![a, b])), bx(pk(c))),
        Verify(bx(Multi(2, vec![a, b]))), Verify(bx(MultiA(2, vec![a, b]))),
        NonZero(bx(Multi(1, vec![a, b]))), NonZero(bx(MultiA(1, vec![a, b]))),
        // ill typed AND out of context: the child is refused first
        AndV(bx(pk(alt_kind)), bx(pk(a))), AndV(bx(pk(a)), bx(pk(alt_kind))), Verify(bx(PkK(alt_kind))),
        AndV(bx(Multi(1, vec![a])), bx(pk(a))), AndV(bx(MultiA(1, vec![a])), bx(pk(a))),
        // well typed everywhere, no keys
        AndV(bx(Verify(bx(After(100)))), bx(Older(10))), OrI(bx(True), bx(False)),
    ];
    if base == 0 { v.extend([RawPkH(100), Check(bx(RawPkH(100))), Multi(2, vec![100, 101]), MultiA(2, vec![100, 101])]); }
    v
}

fn emit_ctx_acceptance(out: &mut Out) {
    use miniscript::bitcoin::secp256k1::XOnlyPublicKey;
    use miniscript::bitcoin::PublicKey;
    use miniscript::{BareCtx, Legacy, Segwitv0, Tap};
    fn ans<Pk: ast::KeyOf, Ctx: ScriptContext>(n: &Node) -> String {
        match build_kind::<Pk, Ctx>(n) { Ok(ms) => ts(&ms.ty), Err(k) => k.to_string() }
    }
    for ctx in CtxK::ALL {
        for base in [0u32, 200] {
            for n in ctx_candidates(base) {
                let a = match (ctx, base) {
                    (CtxK::Bare, 0) => ans::<PublicKey, BareCtx>(&n), (CtxK::Bare, _) => ans::<XOnlyPublicKey, BareCtx>(&n),
                    (CtxK::Legacy, 0) => ans::<PublicKey, Legacy>(&n), (CtxK::Legacy, _) => ans::<XOnlyPublicKey, Legacy>(&n),
                    (CtxK::Segwitv0, 0) => ans::<PublicKey, Segwitv0>(&n), (CtxK::Segwitv0, _) => ans::<XOnlyPublicKey, Segwitv0>(&n),
                    (CtxK::Tap, 0) => ans::<PublicKey, Tap>(&n), (CtxK::Tap, _) => ans::<XOnlyPublicKey, Tap>(&n),
                };
                out.count(&format!("context acceptance {} {}: {}", ctx.name(), if base == 0 { "full keys" } else { "x-only keys" },
                    if a.starts_with("ERR") { a.as_str() } else { "accepted" }));
                out.line(&format!("C typeofctx {} {}", ctx.name(), n.wire()), &a);
            }
        }
    }
}

pub fn run(out: &mut Out, thorough: bool, seed: u64) {
    let mut rng = Rng(seed ^ 0xC06);
    ast::emit_defs(out);
    msops::emit_sig_defs(out);
    let op = if thorough { "typeexecx" } else { "typeexec" };
    let mut n_frag = 0u64;
    for ctx in CtxK::ALL {
        let mut seen: BTreeSet<String> = BTreeSet::new();
        let mut all: Vec<Node> = vec![];
        // hand corpus first (ill-typed members for this context are skipped by `to_ms`)
        for node in corpus(ctx) {
            if !seen.insert(node.wire()) { continue; }
            if with_ctx!(ctx, emit_one(out, ctx, &node, op)) { n_frag += 1; all.push(node); out.count("corpus fragment"); }
        }
        // the shared designated fragments (all hash kinds, both lock units, wide / surplus multisig,
        // raw key hashes, uncompressed keys in every position in Bare / Legacy)
        for node in ast::dimension_corpus(ctx) {
            if node.size() > 48 || !seen.insert(node.wire()) { continue; }
            let mut ks = vec![]; node.keys(&mut ks); ks.sort(); ks.dedup();
            let large = ks.len() > 3 || node.size() > 14;
            if with_ctx!(ctx, emit_one(out, ctx, &node, if large { "typeexecq" } else { op })) {
                n_frag += 1; all.push(node); out.count("dimension corpus fragment");
            } else { out.count("dimension corpus fragment refused by the library in this context"); }
        }
        let atoms = ast::default_atoms(ctx, true);
        let (depth, quota) = if thorough { (3, 30) } else { (3, 7) };
        let frags = ast::enumerate(ctx, &atoms, depth, quota, &mut rng);
        for t in frags.iter() {
            // large fragments (many keys -> large alphabet, or many nodes) get the light input
            // enumeration instead of being skipped; nothing below 49 nodes is left unjudged
            let mut ks = vec![]; t.node.keys(&mut ks); ks.sort(); ks.dedup();
            if t.node.size() > 48 { out.count("fragment above 48 nodes (not judged)"); continue; }
            let large = ks.len() > 3 || t.node.size() > 14;
            if !seen.insert(t.node.wire()) { continue; }
            if with_ctx!(ctx, emit_one(out, ctx, &t.node, if large { "typeexecq" } else { op })) {
                n_frag += 1; all.push(t.node.clone());
                out.count(if large { "enumerated fragment (large, light enumeration)" } else { "enumerated fragment" });
            }
        }
        let em = with_ctx!(ctx, matrix(out, ctx, thorough, &mut rng, &mut seen));
        n_frag += em.len() as u64;
        all.extend(em);
        // parser path for every judged fragment
        for node in &all { emit_str(out, ctx, node, "typeexecq"); }
    }
    emit_ctx_acceptance(out);
    // negative controls: a deliberately too strong type for a known fragment must be refuted by
    // the judge on the stated letter (shows the judge is not vacuous; independent of the library)
    let neg: [(&str, &str, &str, &str); 9] = [
        // the 2022-04-20 advisory: `d:` typed `u` — refuted without MINIMALIF by input [02]
        ("bare", "d(v(1))", "BO11/e01", "u"),
        ("legacy", "d(v(1))", "BO11/e01", "u"),
        // or_i(1,0) is not zero-arg, and `after` is not unit
        ("segwitv0", "or_i(1,0)", "Bz11/x01", "z"),
        ("segwitv0", "after(100)", "Bz01/f01", "u"),
        // a hash fragment is not signed, and `1` is not dissatisfiable
        ("segwitv0", "sha256(0)", "BO11/x11", "s"),
        ("tap", "1", "Bz11/f01", "d"),
        // pk_h consumes two elements, not one; j:multi must not claim `f`
        ("segwitv0", "c(pk_h(0))", "BO11/e11", "o"),
        ("segwitv0", "j(multi(1,0,1))", "BN11/f11", "f"),
        // `a:` leaves x on top: claiming base B is refuted by the shape test
        ("segwitv0", "and_v(v(c(pk_k(0))),c(pk_k(1)))", "Vo00/f11", "V"),
    ];
    for (ctx, astw, ty, l) in neg {
        out.line(&format!("J typeexecneg {} {} {} {}", ctx, astw, ty, l), "refuted");
        out.line(&format!("J typeexecnegq {} {} {} {}", ctx, astw, ty, l), "refuted");
    }
    out.note("distinct_nontrivial", n_frag.to_string());
    let total = out.hist.get("script executions (input stacks x transaction settings)").cloned().unwrap_or(0);
    out.note("executions_total", total.to_string());
    out.note("domain", format!(
        "TESTS (not proofs) of the type letters on {} fragments / {} script executions. FRAGMENTS: hand corpus; all base types B/V/K/W enumerated by ast::enumerate to depth 3 (quota-thinned); RULE MATRIX: every wrapper / combinator applied to one representative of every distinct Miniscript::ty the library has produced (closure over {} levels from the leaves 0, 1, pk_k, pk_h, raw pkh, after, older, the 4 hash kinds, multi/multi_a with k = 1 .. n, sortedmulti), unary rules on every full type, binary rules / thresh / andor on every tuple of correctness-class representatives and every tuple of (base, malleability)-class representatives, acceptance decided by the library's from_ast alone{}; every judged fragment also goes through from_str (plain and alias spelling). INPUTS per fragment (exhaustive part first): tier 1 (`typeexec`): ALL stacks of length <= 3 over the fragment's alphabet A (5 fixed values [], 01, 02, 00, 80; one valid signature per key; each key serialisation; a wrong-key signature; an invalid signature; each preimage; a wrong preimage; 32 zero bytes; 33-byte junk: |A| = 6..24) + length 4 over the core alphabet (thinned to <= 2000); tier 0 (`typeexecq`, large fragments and deeper matrix levels): ALL stacks of length <= 2 over A + length 3 over the core alphabet (thinned to <= 600); tier 2 (`typeexecx`, thorough): ALL of length <= 3 + length 4 over A (thinned to <= 20000) + length 5 core (thinned to <= 5000); always above the sentinel [aa],[bb], under 1 (no lock) or 3 (nLockTime, nSequence) settings, W fragments with 2 values of the top element. The exact count per fragment is on its `C typeexecdom` line (recomputed by the driver). LETTERS: shape (B/V/K/W), z, o, n, u, f, s are universally quantified claims, tested on EVERY enumerated run of the fragment; z / o additionally compare with the run on the empty / one-element stack; d is existential: a witness is searched among the enumerated signature-free inputs plus the specification's canonical dissatisfaction (SatTable.dsatWit), and the witness found is executed",
        n_frag, total, 3,
        if thorough { "; every accepted candidate is judged" } else { "; quick tier: one accepted candidate per (rule, base types of the children, resulting type) plus a seeded sample is judged, the thorough tier judges all" }));
}

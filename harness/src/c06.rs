//! C06: static types predict execution.  For every enumerated well-typed fragment (ALL base
//! types, all four contexts) plus a hand corpus, emit the type the LIBRARY assigned
//! (`Miniscript::ty`); the Lean driver executes the encoded fragment on a bounded set of input
//! stacks with the Script specification and tests every letter of that type against what it
//! observes (`J typeexec`, which carries the library's own script bytes).
use crate::ast::{self, CtxK, Node, HK};
use crate::c05::ts;
use crate::common::{Out, Rng};
use crate::msops;
use crate::with_ctx;
use miniscript::{Miniscript, ScriptContext, Terminal, Threshold};
use std::collections::{BTreeMap, BTreeSet};
use std::sync::Arc;

fn bx(n: Node) -> Box<Node> { Box::new(n) }

/// hand corpus: the fragments whose labels are delicate (see DESIGN C06)
fn corpus(ctx: CtxK) -> Vec<Node> {
    use Node::*;
    let k = ast::ctx_keys(ctx, 3);
    let (a, b, c) = (k[0], k[1], k[2]);
    let pk = |i: u32| Check(bx(PkK(i)));
    let pkh = |i: u32| Check(bx(PkH(i)));
    let sha = Hash(HK::Sha256, 0);
    let h160 = Hash(HK::Hash160, 1);
    let mut v = vec![
        // d: (the 2022 advisory: `d:` must not be `u` without MINIMALIF)
        DupIf(bx(Verify(bx(True)))),
        DupIf(bx(Verify(bx(After(100))))),
        DupIf(bx(Verify(bx(Older(10))))),
        OrD(bx(pk(a)), bx(DupIf(bx(Verify(bx(Older(10))))))),
        AndB(bx(pk(a)), bx(Alt(bx(DupIf(bx(Verify(bx(True)))))))),
        // j: / n:
        NonZero(bx(pk(a))),
        NonZero(bx(sha.clone())),
        NonZero(bx(AndV(bx(Verify(bx(pk(a)))), bx(pk(b))))),
        NonZero(bx(DupIf(bx(Verify(bx(True)))))),
        ZeroNotEqual(bx(DupIf(bx(Verify(bx(True)))))),
        ZeroNotEqual(bx(After(100))),
        ZeroNotEqual(bx(OrI(bx(After(100)), bx(False)))),
        OrD(bx(NonZero(bx(pk(a)))), bx(pk(b))),
        // or_i with asymmetric arms
        OrI(bx(True), bx(False)),
        OrI(bx(False), bx(True)),
        OrI(bx(pk(a)), bx(False)),
        OrI(bx(False), bx(pk(a))),
        OrI(bx(After(100)), bx(pk(a))),
        OrI(bx(sha.clone()), bx(Older(10))),
        OrI(bx(Verify(bx(pk(a)))), bx(Verify(bx(sha.clone())))),
        OrI(bx(PkK(a)), bx(PkH(b))),
        OrI(bx(AndV(bx(Verify(bx(pk(a)))), bx(True))), bx(False)),
        // andor
        AndOr(bx(pk(a)), bx(pk(b)), bx(pk(c))),
        AndOr(bx(pk(a)), bx(After(100)), bx(False)),
        AndOr(bx(pk(a)), bx(Older(10)), bx(sha.clone())),
        AndOr(bx(sha.clone()), bx(pk(a)), bx(False)),
        AndOr(bx(pk(a)), bx(PkK(b)), bx(PkH(c))),
        AndOr(bx(pk(a)), bx(Verify(bx(pk(b)))), bx(Verify(bx(sha.clone())))),
        AndOr(bx(False), bx(True), bx(True)),
        // thresh
        Thresh(1, vec![pk(a)]),
        Thresh(1, vec![False]),
        Thresh(1, vec![pk(a), Swap(bx(pk(b)))]),
        Thresh(2, vec![pk(a), Swap(bx(pk(b))), Alt(bx(sha.clone()))]),
        Thresh(2, vec![pk(a), Swap(bx(pk(b))), Swap(bx(pk(c)))]),
        Thresh(3, vec![pk(a), Swap(bx(pk(b))), Alt(bx(pkh(c)))]),
        Thresh(2, vec![sha.clone(), Alt(bx(h160.clone())), Swap(bx(pk(a)))]),
        // hashes
        sha.clone(), h160.clone(), Hash(HK::Hash256, 2), Hash(HK::Ripemd160, 3),
        Verify(bx(sha.clone())),
        AndV(bx(Verify(bx(sha.clone()))), bx(pk(a))),
        AndB(bx(sha.clone()), bx(Alt(bx(h160.clone())))),
        OrB(bx(sha.clone()), bx(Alt(bx(h160.clone())))),
        Swap(bx(sha.clone())),
        // time locks
        After(1), After(16), After(17), After(100), After(499_999_999), After(500_000_000), After(500_000_001),
        Older(1), Older(16), Older(65535), Older(4_194_305),
        AndV(bx(Verify(bx(After(100)))), bx(Older(10))),
        AndV(bx(Verify(bx(After(100)))), bx(pk(a))),
        AndB(bx(After(100)), bx(Alt(bx(Older(10))))),
        OrC(bx(pk(a)), bx(Verify(bx(After(100))))),
        OrD(bx(pk(a)), bx(After(100))),
        Verify(bx(After(100))),
        // keys
        PkK(a), PkH(a), pk(a), pkh(a), Verify(bx(pk(a))), Verify(bx(pkh(a))), Alt(bx(pk(a))), Swap(bx(pk(a))),
        AndV(bx(Verify(bx(pk(a)))), bx(PkK(b))),
        AndV(bx(Verify(bx(pk(a)))), bx(PkH(b))),
        Check(bx(AndV(bx(Verify(bx(pk(a)))), bx(PkK(b))))),
        Check(bx(OrI(bx(PkK(a)), bx(PkH(b))))),
        AndB(bx(pk(a)), bx(Swap(bx(pk(b))))),
        OrB(bx(pk(a)), bx(Swap(bx(pk(b))))),
        OrB(bx(pk(a)), bx(Alt(bx(pkh(b))))),
        OrC(bx(pk(a)), bx(Verify(bx(pk(b))))),
        OrD(bx(pk(a)), bx(pk(b))),
        OrD(bx(pk(a)), bx(pkh(b))),
        AndV(bx(OrC(bx(pk(a)), bx(Verify(bx(pk(b)))))), bx(True)),
        RawPkH(if ctx == CtxK::Tap { 200 } else { 0 }),
        Check(bx(RawPkH(if ctx == CtxK::Tap { 200 } else { 0 }))),
        True, False,
        Alt(bx(True)), Alt(bx(False)), Verify(bx(True)),
        AndV(bx(Verify(bx(True))), bx(True)),
        OrI(bx(Verify(bx(True))), bx(Verify(bx(False)))),
    ];
    // fragments that can only be SATISFIED with four or more inputs (their satisfying run comes
    // from the specification's canonical satisfaction, not from the enumerated stacks)
    v.extend([
        AndB(bx(pkh(a)), bx(Alt(bx(pkh(b))))),
        Thresh(3, vec![pk(a), Swap(bx(pk(b))), Alt(bx(pkh(c)))]),
        AndV(bx(Verify(bx(pkh(a)))), bx(AndV(bx(Verify(bx(pkh(b)))), bx(After(100))))),
        AndOr(bx(AndB(bx(pkh(a)), bx(Alt(bx(pkh(b)))))), bx(Older(10)), bx(False)),
        OrD(bx(AndB(bx(pkh(a)), bx(Alt(bx(pkh(b)))))), bx(AndV(bx(Verify(bx(pkh(c)))), bx(After(100))))),
    ]);
    if ctx == CtxK::Tap {
        v.extend([
            AndV(bx(Verify(bx(MultiA(3, vec![a, b, c])))), bx(AndV(bx(Verify(bx(pk(a)))), bx(After(100))))),
            MultiA(1, vec![a]), MultiA(1, vec![a, b]), MultiA(2, vec![a, b]), MultiA(2, vec![a, b, c]), MultiA(3, vec![a, b, c]),
            SortedMultiA(2, vec![c, a, b]),
            Verify(bx(MultiA(2, vec![a, b]))), Alt(bx(MultiA(1, vec![a, b]))),
            NonZero(bx(AndV(bx(Verify(bx(pk(c)))), bx(MultiA(1, vec![a, b]))))),
            OrD(bx(MultiA(1, vec![a, b])), bx(pk(c))),
            Thresh(1, vec![MultiA(1, vec![a, b]), Alt(bx(MultiA(1, vec![b, c])))]),
        ]);
    } else {
        v.extend([
            AndV(bx(Verify(bx(Multi(3, vec![a, b, c])))), bx(After(100))),
            AndOr(bx(Multi(3, vec![a, b, c])), bx(After(100)), bx(False)),
            Multi(1, vec![a]), Multi(1, vec![a, b]), Multi(2, vec![a, b]), Multi(2, vec![a, b, c]), Multi(3, vec![a, b, c]),
            SortedMulti(2, vec![c, a, b]),
            Verify(bx(Multi(2, vec![a, b]))), Alt(bx(Multi(1, vec![a, b]))),
            NonZero(bx(Multi(1, vec![a, b]))), NonZero(bx(Multi(2, vec![a, b]))),
            OrD(bx(NonZero(bx(Multi(1, vec![a, b])))), bx(pk(c))),
            Thresh(1, vec![Multi(1, vec![a, b]), Alt(bx(Multi(1, vec![b, c])))]),
        ]);
        if matches!(ctx, CtxK::Bare | CtxK::Legacy) {
            v.extend([PkK(100), PkH(100), pk(100), pkh(100), Multi(1, vec![100, a])]);
        }
    }
    v
}

fn emit_one<Pk: msops::HKey, Ctx: ScriptContext>(out: &mut Out, ctx: CtxK, node: &Node, op: &str) -> bool {
    let ms: Miniscript<Pk, Ctx> = match ast::to_ms(node) { Ok(m) => m, Err(_) => return false };
    emit_ms(out, ctx, node, &ms, op);
    node.count_frags(out);
    true
}

/* ------------------------------------------------------------------ rule matrix
   Every wrapper and combinator is applied to children of EVERY type the library has produced so
   far (one representative per distinct `Miniscript::ty`, i.e. per z/o/n/d/u x e/f/s/m
   combination of every base type), in every position; the LIBRARY's `from_ast` alone decides
   which candidates are well typed - nothing is pre-filtered by the specification's rules. */

struct Rep<Pk: ast::KeyOf, Ctx: ScriptContext> { node: Node, ms: Arc<Miniscript<Pk, Ctx>>, ty: String }
impl<Pk: ast::KeyOf, Ctx: ScriptContext> Clone for Rep<Pk, Ctx> {
    fn clone(&self) -> Self { Rep { node: self.node.clone(), ms: self.ms.clone(), ty: self.ty.clone() } }
}

fn mk<Pk: ast::KeyOf, Ctx: ScriptContext>(t: Terminal<Pk, Ctx>, node: Node) -> Option<Rep<Pk, Ctx>> {
    let ms = Miniscript::from_ast(t).ok()?;
    Some(Rep { ty: ts(&ms.ty), ms: Arc::new(ms), node })
}

fn matrix_leaves(ctx: CtxK) -> Vec<Node> {
    use Node::*;
    let k = ast::ctx_keys(ctx, 3);
    let (a, b, c) = (k[0], k[1], k[2]);
    let mut v = vec![True, False, PkK(a), PkH(a), RawPkH(if ctx == CtxK::Tap { 200 } else { 0 }),
        After(100), After(500_000_001), Older(10), Older(4_194_305),
        Hash(HK::Sha256, 0), Hash(HK::Hash256, 2), Hash(HK::Ripemd160, 3), Hash(HK::Hash160, 1)];
    if ctx == CtxK::Tap {
        v.extend([MultiA(1, vec![a]), MultiA(1, vec![a, b]), MultiA(2, vec![a, b]), MultiA(2, vec![a, b, c]),
            MultiA(3, vec![a, b, c]), SortedMultiA(1, vec![b, a]), SortedMultiA(2, vec![c, a, b]), SortedMultiA(3, vec![c, b, a])]);
    } else {
        v.extend([Multi(1, vec![a]), Multi(1, vec![a, b]), Multi(2, vec![a, b]), Multi(2, vec![a, b, c]),
            Multi(3, vec![a, b, c]), SortedMulti(1, vec![b, a]), SortedMulti(2, vec![c, a, b]), SortedMulti(3, vec![c, b, a])]);
        if matches!(ctx, CtxK::Bare | CtxK::Legacy) { v.extend([PkK(100), PkH(100), Multi(1, vec![100, a])]); }
    }
    v
}

fn corr_key(ty: &str) -> String { ty[..4].to_string() }
fn mall_key(ty: &str) -> String { format!("{}{}", &ty[..1], &ty[4..]) }

/// Rule matrix.  `classes` = one smallest representative per distinct full type produced so far.
/// Unary rules (and single-child thresh) are applied to every class; binary rules, two-child
/// thresh and andor to every tuple of correctness-class representatives (one per B/V/K/W x
/// z/o/n x d x u value) and to every tuple of (base, malleability)-class representatives: the
/// typing rules are componentwise, so every rule sees every reachable argument tuple.  Thorough
/// tier: every accepted candidate is judged.  Quick tier: one candidate per (rule, base types of
/// the children, resulting type) plus a seeded sample of the rest.
/// Returns the emitted fragments (for the parser stream).
fn matrix<Pk: msops::HKey, Ctx: ScriptContext>(out: &mut Out, ctx: CtxK, thorough: bool, rng: &mut Rng, seen: &mut BTreeSet<String>) -> Vec<Node> {
    let mut emitted: Vec<Node> = vec![];
    let mut classes: BTreeMap<String, Rep<Pk, Ctx>> = BTreeMap::new();
    let mut done: BTreeSet<String> = BTreeSet::new();
    let mut strata: BTreeSet<String> = BTreeSet::new();
    let full = if thorough { "typeexecx" } else { "typeexec" };
    let note_class = |classes: &mut BTreeMap<String, Rep<Pk, Ctx>>, r: &Rep<Pk, Ctx>| {
        match classes.get(&r.ty) {
            Some(old) if old.node.size() <= r.node.size() => {}
            _ => { classes.insert(r.ty.clone(), r.clone()); }
        }
    };
    for n in matrix_leaves(ctx) {
        if let Ok(ms) = ast::to_ms::<Pk, Ctx>(&n) {
            let r = Rep { ty: ts(&ms.ty), ms: Arc::new(ms), node: n.clone() };
            if seen.insert(n.wire()) { emit_ms(out, ctx, &n, &r.ms, full); emitted.push(n.clone()); out.count("matrix leaf"); }
            note_class(&mut classes, &r);
        } else { out.count("matrix leaf rejected by the library"); }
    }
    let levels = 3;
    for level in 1..=levels {
        let reps: Vec<Rep<Pk, Ctx>> = classes.values().cloned().collect();
        let mut rc: BTreeMap<String, Rep<Pk, Ctx>> = BTreeMap::new();
        let mut rm: BTreeMap<String, Rep<Pk, Ctx>> = BTreeMap::new();
        for r in &reps {
            for (m, key) in [(&mut rc, corr_key(&r.ty)), (&mut rm, mall_key(&r.ty))] {
                match m.get(&key) { Some(o) if o.node.size() <= r.node.size() => {}, _ => { m.insert(key, r.clone()); } }
            }
        }
        let rc: Vec<Rep<Pk, Ctx>> = rc.into_values().collect();
        let rm: Vec<Rep<Pk, Ctx>> = rm.into_values().collect();
        out.note(&format!("matrix {} level {}", ctx.name(), level),
            format!("{} full types, {} correctness classes, {} (base,malleability) classes as children", reps.len(), rc.len(), rm.len()));
        let op = if level == 1 { full } else { "typeexecq" };
        let mut fresh: Vec<Rep<Pk, Ctx>> = vec![];
        let mut try_one = |out: &mut Out, rng: &mut Rng, kind: &str, bases: String, key: String, t: Terminal<Pk, Ctx>, node: Node,
                           fresh: &mut Vec<Rep<Pk, Ctx>>, emitted: &mut Vec<Node>| {
            if !done.insert(key) { return; }
            out.count(&format!("matrix tried {}", kind));
            if let Some(r) = mk::<Pk, Ctx>(t, node) {
                out.count(&format!("matrix accepted {}", kind));
                let new_stratum = strata.insert(format!("{} {} {}", kind, bases, r.ty));
                let sample = if level >= 3 { rng.below(if kind == "andor" { 150 } else { 25 }) == 0 }
                    else if kind == "andor" { rng.below(60) == 0 } else { rng.below(10) == 0 };
                if r.node.size() > 48 { out.count("matrix fragment above 48 nodes (not judged)"); }
                else if thorough || level == 1 || new_stratum || sample {
                    if seen.insert(r.node.wire()) {
                        emit_ms(out, ctx, &r.node, &r.ms, op);
                        emitted.push(r.node.clone());
                        out.count(&format!("matrix judged {}", kind));
                    }
                } else { out.count("matrix accepted candidate not judged in the quick tier (same rule, child bases and result type judged)"); }
                fresh.push(r);
            }
        };
        let b1 = |r: &Rep<Pk, Ctx>| r.ty[..1].to_string();
        let bxn = |r: &Rep<Pk, Ctx>| Box::new(r.node.clone());
        for x in &reps {
            let un: [(&str, Terminal<Pk, Ctx>, Node); 7] = [
                ("a", Terminal::Alt(x.ms.clone()), Node::Alt(bxn(x))), ("s", Terminal::Swap(x.ms.clone()), Node::Swap(bxn(x))),
                ("c", Terminal::Check(x.ms.clone()), Node::Check(bxn(x))), ("d", Terminal::DupIf(x.ms.clone()), Node::DupIf(bxn(x))),
                ("v", Terminal::Verify(x.ms.clone()), Node::Verify(bxn(x))), ("j", Terminal::NonZero(x.ms.clone()), Node::NonZero(bxn(x))),
                ("n", Terminal::ZeroNotEqual(x.ms.clone()), Node::ZeroNotEqual(bxn(x)))];
            for (kind, t, node) in un { try_one(out, rng, kind, b1(x), format!("{} {}", kind, x.ty), t, node, &mut fresh, &mut emitted); }
            for k in [1usize, 2] {
                match Threshold::new(k, vec![x.ms.clone()]) {
                    Ok(th) => try_one(out, rng, "thresh/1", b1(x), format!("thresh{}of1 {}", k, x.ty), Terminal::Thresh(th),
                        Node::Thresh(k, vec![x.node.clone()]), &mut fresh, &mut emitted),
                    Err(_) => out.count("matrix Threshold::new rejected k > n"),
                }
            }
        }
        for pool in [&rc, &rm] {
            for x in pool.iter() {
                for y in pool.iter() {
                    let bin: [(&str, Terminal<Pk, Ctx>, Node); 6] = [
                        ("and_v", Terminal::AndV(x.ms.clone(), y.ms.clone()), Node::AndV(bxn(x), bxn(y))),
                        ("and_b", Terminal::AndB(x.ms.clone(), y.ms.clone()), Node::AndB(bxn(x), bxn(y))),
                        ("or_b", Terminal::OrB(x.ms.clone(), y.ms.clone()), Node::OrB(bxn(x), bxn(y))),
                        ("or_d", Terminal::OrD(x.ms.clone(), y.ms.clone()), Node::OrD(bxn(x), bxn(y))),
                        ("or_c", Terminal::OrC(x.ms.clone(), y.ms.clone()), Node::OrC(bxn(x), bxn(y))),
                        ("or_i", Terminal::OrI(x.ms.clone(), y.ms.clone()), Node::OrI(bxn(x), bxn(y)))];
                    let bb = format!("{}{}", b1(x), b1(y));
                    for (kind, t, node) in bin { try_one(out, rng, kind, bb.clone(), format!("{} {} {}", kind, x.ty, y.ty), t, node, &mut fresh, &mut emitted); }
                    for k in [1usize, 2] {
                        if let Ok(th) = Threshold::new(k, vec![x.ms.clone(), y.ms.clone()]) {
                            try_one(out, rng, "thresh/2", bb.clone(), format!("thresh{}of2 {} {}", k, x.ty, y.ty), Terminal::Thresh(th),
                                Node::Thresh(k, vec![x.node.clone(), y.node.clone()]), &mut fresh, &mut emitted);
                        }
                    }
                    for z in pool.iter() {
                        try_one(out, rng, "andor", format!("{}{}", bb, b1(z)), format!("andor {} {} {}", x.ty, y.ty, z.ty),
                            Terminal::AndOr(x.ms.clone(), y.ms.clone(), z.ms.clone()), Node::AndOr(bxn(x), bxn(y), bxn(z)), &mut fresh, &mut emitted);
                    }
                }
            }
        }
        // thresholds whose child at index 2 / 3 ranges over EVERY type (the first two / three children
        // are fixed well-typed ones): the rule must check base, `d` and `u` at every index
        {
            let ks = ast::ctx_keys(ctx, 3);
            let good_b = ast::to_ms::<Pk, Ctx>(&Node::Check(Box::new(Node::PkK(ks[0])))).ok().map(Arc::new);
            let good_w = ast::to_ms::<Pk, Ctx>(&Node::Swap(Box::new(Node::Check(Box::new(Node::PkK(ks[1])))))).ok().map(Arc::new);
            if let (Some(gb), Some(gw)) = (good_b, good_w) {
                let nb = Node::Check(Box::new(Node::PkK(ks[0])));
                let nw = Node::Swap(Box::new(Node::Check(Box::new(Node::PkK(ks[1])))));
                for x in &reps {
                    for (n_fixed, kind) in [(2usize, "thresh/B,W,X"), (3, "thresh/B,W,W,X")] {
                        let mut subs = vec![gb.clone()]; let mut nodes = vec![nb.clone()];
                        for _ in 1..n_fixed { subs.push(gw.clone()); nodes.push(nw.clone()); }
                        subs.push(x.ms.clone()); nodes.push(x.node.clone());
                        for k in [1usize, n_fixed + 1] {
                            if let Ok(th) = Threshold::new(k, subs.clone()) {
                                try_one(out, rng, kind, b1(x), format!("{} k={} {}", kind, k, x.ty), Terminal::Thresh(th),
                                    Node::Thresh(k, nodes.clone()), &mut fresh, &mut emitted);
                            }
                        }
                    }
                }
            }
        }
        // three-child thresholds: k = 1, 2, 3 over a seeded sample of class representatives
        for _ in 0..(if thorough { 600 } else { 60 }) {
            let (x, y, z) = (&reps[rng.below(reps.len())], &reps[rng.below(reps.len())], &reps[rng.below(reps.len())]);
            let k = 1 + rng.below(3);
            if let Ok(th) = Threshold::new(k, vec![x.ms.clone(), y.ms.clone(), z.ms.clone()]) {
                try_one(out, rng, "thresh/3", format!("{}{}{}", b1(x), b1(y), b1(z)), format!("thresh{}of3 {} {} {}", k, x.ty, y.ty, z.ty),
                    Terminal::Thresh(th), Node::Thresh(k, vec![x.node.clone(), y.node.clone(), z.node.clone()]), &mut fresh, &mut emitted);
            }
        }
        for r in &fresh { note_class(&mut classes, r); }
    }
    // the empty threshold cannot be built at all
    if Threshold::<Arc<Miniscript<Pk, Ctx>>, 0>::new(1, vec![]).is_err() { out.count("matrix Threshold::new rejected n = 0"); }
    out.note(&format!("matrix {} final", ctx.name()), format!("{} distinct full types reached", classes.len()));
    emitted
}

fn emit_ms<Pk: msops::HKey, Ctx: ScriptContext>(out: &mut Out, ctx: CtxK, node: &Node, ms: &Miniscript<Pk, Ctx>, op: &str) {
    let w = node.wire();
    let script = ast::hex(ms.encode().as_bytes());
    out.line(&format!("C encode {} {}", ctx.name(), w), &script);
    out.line(&format!("C typeof {} {}", ctx.name(), w), &ts(&ms.ty));
    out.line(&format!("J {} {} {} {} {}", op, ctx.name(), w, script, ts(&ms.ty)), "ok");
    // the input domain the judge enumerates for this fragment (recomputed independently by the driver)
    let tier = match op { "typeexecq" => 0, "typeexec" => 1, _ => 2 };
    let (a, c, stacks, tx) = domain(node, ctx, tier);
    out.line(&format!("C typeexecdom {} {} {}", ctx.name(), w, tier), &format!("A={} C={} stacks={} tx={}", a, c, stacks, tx));
    let runs = stacks * tx * if ms.ty.corr.base == miniscript::miniscript::types::Base::W { 2 } else { 1 };
    *out.hist.entry("script executions (input stacks x transaction settings)".to_string()).or_insert(0) += runs as u64;
    *out.hist.entry(format!("script executions tier {}", tier)).or_insert(0) += runs as u64;
    out.count(&format!("base {:?}", ms.ty.corr.base));
    out.count(&format!("input {:?}", ms.ty.corr.input));
    if ms.ty.corr.dissatisfiable { out.count("label d"); }
    if ms.ty.corr.unit { out.count("label u"); }
    if ms.ty.mall.signed { out.count("label s"); }
    if ms.ty.mall.dissat == miniscript::miniscript::types::Dissat::None { out.count("label f"); }
}

/* ------------------------------------------------------------------ input domain of the judge
   Mirrors `mkAlphabet` / `inputStacks` of Driver/OpsTypeExec.lean; compared line by line
   (`C typeexecdom`), so the evidence can state exactly how many executions were tried. */

fn thin_count(stride: usize, n: usize) -> usize { if stride <= 1 { n } else { (n + stride - 1) / stride } }

fn domain(node: &Node, ctx: CtxK, tier: usize) -> (usize, usize, usize, usize) {
    let mut ids: Vec<u32> = vec![];
    let mut ks = vec![]; node.keys(&mut ks);
    let mut rs = vec![]; node.rawpkhs(&mut rs);
    for k in ks.into_iter().chain(rs.into_iter()) { if !ids.contains(&k) { ids.push(k); } }
    let nk = ids.len();
    let per_key = if ctx == CtxK::Tap && tier == 2 { 2 } else { 1 };
    // the signature tables are keyed by the secret (id mod 100): a compressed and an uncompressed
    // key of the same secret share their ECDSA signature bytes
    let mut secrets: Vec<u32> = ids.iter().map(|i| i % 100).collect(); secrets.sort(); secrets.dedup();
    // Tap, tiers 0/1: the first key also contributes its 65-byte signature (explicit sighash byte)
    let nsig = secrets.len() * per_key + if ctx == CtxK::Tap && tier < 2 && nk > 0 { 1 } else { 0 };
    let extra = if nk > 0 { 2 } else { 0 };            // wrong-key signature + invalid signature
    let mut hs = vec![]; node.hashes(&mut hs);
    let mut pre: Vec<u32> = vec![];
    for (_, h) in &hs { if !pre.contains(h) { pre.push(*h); } }
    let hj = if hs.is_empty() { 0 } else { 2 };
    let a = 5 + nsig + nk + extra + pre.len() + hj + 1;
    let c = 2 + nsig + nk + pre.len() + (if hj > 0 { 1 } else { 0 }) + 1;
    let up2 = 1 + a + a * a;
    let stacks = match tier {
        0 => up2 + thin_count((c.pow(3) + 599) / 600, c.pow(3)),
        1 => up2 + a.pow(3) + thin_count((c.pow(4) + 1999) / 2000, c.pow(4)),
        _ => up2 + a.pow(3) + thin_count((a.pow(4) + 19999) / 20000, a.pow(4)) + thin_count((c.pow(5) + 4999) / 5000, c.pow(5)),
    };
    let (mut af, mut ol) = (vec![], vec![]);
    node.locks(&mut af, &mut ol);
    let tx = if af.is_empty() && ol.is_empty() { 1 } else { 3 };
    (a, c, stacks, tx)
}

/* ------------------------------------------------------------------ parser path
   The neutral AST is printed as a Miniscript string by THIS printer (not the library's Display):
   `plain` uses only the basic fragment names, `sugar` uses the aliases the specification defines
   (pk(K) = c:pk_k(K), pkh(K) = c:pk_h(K), t:X = and_v(X,1), l:X = or_i(0,X), u:X = or_i(X,0),
   and_n(X,Y) = andor(X,Y,0)).  The string goes through `from_str` (all validation switches
   off, so that every base type parses); the resulting type and script are compared with the
   Lean model's typeOf / encode of the AST. */

fn key_str(ctx: CtxK, id: u32) -> String {
    if ctx == CtxK::Tap { ast::xonly_key(id).to_string() } else { ast::full_key(id).to_string() }
}

fn show_parts(n: &Node, sugar: bool, ctx: CtxK) -> (String, String) {
    use Node::*;
    let wrap = |c: char, x: &Node| { let (w, b) = show_parts(x, sugar, ctx); (format!("{}{}", c, w), b) };
    let sh = |x: &Node| show(x, sugar, ctx);
    let keys = |k: usize, v: &Vec<u32>| format!("{},{}", k, v.iter().map(|i| key_str(ctx, *i)).collect::<Vec<_>>().join(","));
    match n {
        Check(x) if sugar && matches!(**x, PkK(_)) => if let PkK(k) = **x { (String::new(), format!("pk({})", key_str(ctx, k))) } else { unreachable!() },
        Check(x) if sugar && matches!(**x, PkH(_)) => if let PkH(k) = **x { (String::new(), format!("pkh({})", key_str(ctx, k))) } else { unreachable!() },
        AndV(x, y) if sugar && **y == True => wrap('t', x),
        OrI(x, y) if sugar && **x == False => wrap('l', y),
        OrI(x, y) if sugar && **y == False => wrap('u', x),
        AndOr(x, y, z) if sugar && **z == False => (String::new(), format!("and_n({},{})", sh(x), sh(y))),
        Alt(x) => wrap('a', x), Swap(x) => wrap('s', x), Check(x) => wrap('c', x), DupIf(x) => wrap('d', x),
        Verify(x) => wrap('v', x), NonZero(x) => wrap('j', x), ZeroNotEqual(x) => wrap('n', x),
        True => (String::new(), "1".into()), False => (String::new(), "0".into()),
        PkK(k) => (String::new(), format!("pk_k({})", key_str(ctx, *k))),
        PkH(k) => (String::new(), format!("pk_h({})", key_str(ctx, *k))),
        RawPkH(h) => (String::new(), format!("expr_raw_pkh({})", ast::raw_pkh(*h))),
        After(t) => (String::new(), format!("after({})", t)), Older(t) => (String::new(), format!("older({})", t)),
        Hash(kind, h) => (String::new(), format!("{}({})", kind.name(), hash_str(*kind, *h))),
        AndV(x, y) => (String::new(), format!("and_v({},{})", sh(x), sh(y))),
        AndB(x, y) => (String::new(), format!("and_b({},{})", sh(x), sh(y))),
        AndOr(x, y, z) => (String::new(), format!("andor({},{},{})", sh(x), sh(y), sh(z))),
        OrB(x, y) => (String::new(), format!("or_b({},{})", sh(x), sh(y))),
        OrD(x, y) => (String::new(), format!("or_d({},{})", sh(x), sh(y))),
        OrC(x, y) => (String::new(), format!("or_c({},{})", sh(x), sh(y))),
        OrI(x, y) => (String::new(), format!("or_i({},{})", sh(x), sh(y))),
        Thresh(k, xs) => (String::new(), format!("thresh({},{})", k, xs.iter().map(|x| sh(x)).collect::<Vec<_>>().join(","))),
        Multi(k, v) => (String::new(), format!("multi({})", keys(*k, v))),
        SortedMulti(k, v) => (String::new(), format!("sortedmulti({})", keys(*k, v))),
        MultiA(k, v) => (String::new(), format!("multi_a({})", keys(*k, v))),
        SortedMultiA(k, v) => (String::new(), format!("sortedmulti_a({})", keys(*k, v))),
    }
}
fn show(n: &Node, sugar: bool, ctx: CtxK) -> String {
    let (w, b) = show_parts(n, sugar, ctx);
    if w.is_empty() { b } else { format!("{}:{}", w, b) }
}
fn hash_str(kind: HK, h: u32) -> String {
    use miniscript::bitcoin::hashes::{hash160, ripemd160, sha256, Hash};
    let v = ast::hash_value(kind, h);
    match kind {
        HK::Sha256 => sha256::Hash::from_slice(&v).unwrap().to_string(),
        HK::Hash256 => miniscript::hash256::Hash::from_slice(&v).unwrap().to_string(),
        HK::Ripemd160 => ripemd160::Hash::from_slice(&v).unwrap().to_string(),
        HK::Hash160 => hash160::Hash::from_slice(&v).unwrap().to_string(),
    }
}

fn emit_str_with<Pk: msops::HKey + crate::c10b::Atom, Ctx: ScriptContext>(out: &mut Out, ctx: CtxK, node: &Node, op: &str,
    parse: fn(&str) -> Result<Miniscript<Pk, Ctx>, miniscript::Error>) {
    let w = node.wire();
    let ast_ms: Option<Miniscript<Pk, Ctx>> = ast::to_ms(node).ok();
    for (form, sugar) in [("plain", false), ("sugar", true)] {
        let s = show(node, sugar, ctx);
        if sugar && s == show(node, false, ctx) { continue; }      // no alias applies
        let res = std::panic::catch_unwind(|| parse(&s));
        match res {
            Err(_) => out.line(&format!("J strparse {} {} {} PANIC", ctx.name(), form, w), "ok"),
            Ok(Err(e)) => {
                let kind = e.to_string().split(' ').take(3).collect::<Vec<_>>().join("_");
                out.line(&format!("J strparse {} {} {} err:{}", ctx.name(), form, w, kind), "ok");
            }
            Ok(Ok(ms2)) => {
                out.line(&format!("J strparse {} {} {} ok", ctx.name(), form, w), "ok");
                let script = ast::hex(ms2.encode().as_bytes());
                out.line(&format!("C typeofstr {} {} {}", ctx.name(), form, w), &ts(&ms2.ty));
                out.line(&format!("C encodestr {} {} {}", ctx.name(), form, w), &script);
                // a type or script that differs from the from_ast path is judged by execution too
                let same = ast_ms.as_ref().map(|m| ts(&m.ty) == ts(&ms2.ty) && m.encode() == ms2.encode()).unwrap_or(false);
                emit_deep(out, ctx, form, &ms2, ast_ms.as_ref());
                if !same {
                    out.count("parser path: type or script differs from the from_ast path (judged by execution)");
                    out.line(&format!("J {} {} {} {} {}", op, ctx.name(), w, script, ts(&ms2.ty)), "ok");
                }
            }
        }
    }
}

fn emit_str(out: &mut Out, ctx: CtxK, node: &Node, op: &str) {
    use miniscript::bitcoin::secp256k1::XOnlyPublicKey;
    use miniscript::bitcoin::PublicKey;
    use miniscript::{BareCtx, Legacy, Segwitv0, Tap, ValidationParams};
    match ctx {
        CtxK::Bare => emit_str_with::<PublicKey, BareCtx>(out, ctx, node, op, |s| Miniscript::from_str_with_validation_params(s, &ValidationParams::MAX)),
        CtxK::Legacy => emit_str_with::<PublicKey, Legacy>(out, ctx, node, op, |s| Miniscript::from_str_with_validation_params(s, &ValidationParams::MAX)),
        CtxK::Segwitv0 => emit_str_with::<PublicKey, Segwitv0>(out, ctx, node, op, |s| Miniscript::from_str_with_validation_params(s, &ValidationParams::MAX)),
        CtxK::Tap => emit_str_with::<XOnlyPublicKey, Tap>(out, ctx, node, op, |s| Miniscript::from_str_with_validation_params(s, &ValidationParams::MAX)),
    }
}

/* ------------------------------------------------------------------ context acceptance
   Candidates are offered to EVERY context with both key types (full keys: ids 0.. compressed,
   100.. uncompressed; x-only keys: ids 200..).  What `from_ast` answers - the type, or the KIND of
   the first refusal (typing rule / context rule) - is compared with the Lean model
   (`Model/Validate.lean` nodeChecked + typeOf) on a `C typeofctx` line.  No J: the statement of
   C06 is about types vs execution, not about which context admits which fragment. */

fn build_kind<Pk: ast::KeyOf, Ctx: ScriptContext>(n: &Node) -> Result<Miniscript<Pk, Ctx>, &'static str> {
    use Node::*;
    let sub = |x: &Node| -> Result<Arc<Miniscript<Pk, Ctx>>, &'static str> { Ok(Arc::new(build_kind::<Pk, Ctx>(x)?)) };
    let keys = |v: &Vec<u32>| -> Vec<Pk> { v.iter().map(|i| Pk::of(*i)).collect() };
    let t: Terminal<Pk, Ctx> = match n {
        True => Terminal::True, False => Terminal::False,
        PkK(k) => Terminal::PkK(Pk::of(*k)), PkH(k) => Terminal::PkH(Pk::of(*k)),
        RawPkH(h) => Terminal::RawPkH(ast::raw_pkh(*h)),
        After(x) => Terminal::After(miniscript::AbsLockTime::from_consensus(*x).map_err(|_| "ERR:other")?),
        Older(x) => Terminal::Older(miniscript::RelLockTime::from_consensus(*x).map_err(|_| "ERR:other")?),
        Hash(..) => return ast::to_ms::<Pk, Ctx>(n).map_err(|_| "ERR:other"),
        Alt(x) => Terminal::Alt(sub(x)?), Swap(x) => Terminal::Swap(sub(x)?), Check(x) => Terminal::Check(sub(x)?),
        DupIf(x) => Terminal::DupIf(sub(x)?), Verify(x) => Terminal::Verify(sub(x)?), NonZero(x) => Terminal::NonZero(sub(x)?),
        ZeroNotEqual(x) => Terminal::ZeroNotEqual(sub(x)?),
        AndV(a, b) => Terminal::AndV(sub(a)?, sub(b)?), AndB(a, b) => Terminal::AndB(sub(a)?, sub(b)?),
        AndOr(a, b, c) => Terminal::AndOr(sub(a)?, sub(b)?, sub(c)?),
        OrB(a, b) => Terminal::OrB(sub(a)?, sub(b)?), OrD(a, b) => Terminal::OrD(sub(a)?, sub(b)?),
        OrC(a, b) => Terminal::OrC(sub(a)?, sub(b)?), OrI(a, b) => Terminal::OrI(sub(a)?, sub(b)?),
        Thresh(k, xs) => {
            let mut v = vec![]; for x in xs { v.push(sub(x)?); }
            Terminal::Thresh(Threshold::new(*k, v).map_err(|_| "ERR:other")?)
        }
        Multi(k, v) => Terminal::Multi(Threshold::new(*k, keys(v)).map_err(|_| "ERR:other")?),
        SortedMulti(k, v) => Terminal::SortedMulti(Threshold::new(*k, keys(v)).map_err(|_| "ERR:other")?),
        MultiA(k, v) => Terminal::MultiA(Threshold::new(*k, keys(v)).map_err(|_| "ERR:other")?),
        SortedMultiA(k, v) => Terminal::SortedMultiA(Threshold::new(*k, keys(v)).map_err(|_| "ERR:other")?),
    };
    Miniscript::from_ast(t).map_err(|e| match e {
        miniscript::Error::TypeCheck(_) => "ERR:type",
        miniscript::Error::ContextError(_) => "ERR:context",
        _ => "ERR:other",
    })
}

fn ctx_candidates(base: u32) -> Vec<Node> {
    use Node::*;
    // `base` = 0: full keys (0.. compressed, 100.. uncompressed); 200: x-only keys
    let (a, b, c) = (base, base + 1, base + 2);
    let alt_kind = if base == 0 { 100 } else { base + 3 };      // an uncompressed key where there is one
    let pk = |i: u32| Check(bx(PkK(i)));
    let pkh = |i: u32| Check(bx(PkH(i)));
    let mut v = vec![
        PkK(a), PkH(a), pk(a), pkh(a), PkK(alt_kind), PkH(alt_kind), pk(alt_kind), pkh(alt_kind),
        Multi(1, vec![a]), Multi(2, vec![a, b, c]), SortedMulti(2, vec![c, a, b]), Multi(1, vec![a, alt_kind]),
        MultiA(1, vec![a]), MultiA(2, vec![a, b, c]), SortedMultiA(2, vec![c, a, b]), MultiA(1, vec![a, alt_kind]),
        AndV(bx(Verify(bx(pk(a)))), bx(pk(alt_kind))),
        OrD(bx(pk(alt_kind)), bx(pk(a))),
        OrD(bx(pkh(alt_kind)), bx(pk(a))),
        AndB(bx(pk(a)), bx(Swap(bx(pkh(alt_kind))))),
        Thresh(2, vec![pk(a), Swap(bx(pk(b))), Swap(bx(pk(alt_kind)))]),
        Thresh(1, vec![Multi(1, vec![a, b]), Alt(bx(pk(c)))]),
        Thresh(1, vec![MultiA(1, vec![a, b]), Alt(bx(pk(c)))]),
        OrD(bx(Multi(1, vec![a, b])), bx(pk(c))), OrD(bx(MultiA(1, vec![a, b])), bx(pk(c))),
        Verify(bx(Multi(2, vec![a, b]))), Verify(bx(MultiA(2, vec![a, b]))),
        NonZero(bx(Multi(1, vec![a, b]))), NonZero(bx(MultiA(1, vec![a, b]))),
        // ill typed AND out of context: the child is refused first
        AndV(bx(pk(alt_kind)), bx(pk(a))), AndV(bx(pk(a)), bx(pk(alt_kind))), Verify(bx(PkK(alt_kind))),
        AndV(bx(Multi(1, vec![a])), bx(pk(a))), AndV(bx(MultiA(1, vec![a])), bx(pk(a))),
        // well typed everywhere, no keys
        AndV(bx(Verify(bx(After(100)))), bx(Older(10))), OrI(bx(True), bx(False)),
    ];
    if base == 0 { v.extend([RawPkH(100), Check(bx(RawPkH(100))), Multi(2, vec![100, 101]), MultiA(2, vec![100, 101])]); }
    v
}

fn emit_ctx_acceptance(out: &mut Out) {
    use miniscript::bitcoin::secp256k1::XOnlyPublicKey;
    use miniscript::bitcoin::PublicKey;
    use miniscript::{BareCtx, Legacy, Segwitv0, Tap};
    fn ans<Pk: ast::KeyOf, Ctx: ScriptContext>(n: &Node) -> String {
        match build_kind::<Pk, Ctx>(n) { Ok(ms) => ts(&ms.ty), Err(k) => k.to_string() }
    }
    for ctx in CtxK::ALL {
        for base in [0u32, 200] {
            for n in ctx_candidates(base) {
                let a = match (ctx, base) {
                    (CtxK::Bare, 0) => ans::<PublicKey, BareCtx>(&n), (CtxK::Bare, _) => ans::<XOnlyPublicKey, BareCtx>(&n),
                    (CtxK::Legacy, 0) => ans::<PublicKey, Legacy>(&n), (CtxK::Legacy, _) => ans::<XOnlyPublicKey, Legacy>(&n),
                    (CtxK::Segwitv0, 0) => ans::<PublicKey, Segwitv0>(&n), (CtxK::Segwitv0, _) => ans::<XOnlyPublicKey, Segwitv0>(&n),
                    (CtxK::Tap, 0) => ans::<PublicKey, Tap>(&n), (CtxK::Tap, _) => ans::<XOnlyPublicKey, Tap>(&n),
                };
                out.count(&format!("context acceptance {} {}: {}", ctx.name(), if base == 0 { "full keys" } else { "x-only keys" },
                    if a.starts_with("ERR") { a.as_str() } else { "accepted" }));
                out.line(&format!("C typeofctx {} {}", ctx.name(), n.wire()), &a);
            }
        }
    }
}

/* ------------------------------------------------------------------ routes (R1)
   `Miniscript::ty` reaches users through more than `from_ast`.  Every judged fragment is pushed
   through each of these routes; the type (and script) the route produces is compared with the
   Lean model of the resulting AST (`C typeofstr` / `C encodestr <route>`), and whenever the
   (type, script) pair differs from the from_ast route's - or from_ast refuses what the route
   accepts - the route's type is judged by execution (`J typeexecq`). */

/// key ids renamed (for the translate_pk route): rotate inside the id block of the key kind
fn rot(id: u32) -> u32 { let (b, n) = if id >= 200 { (200, 10) } else if id >= 100 { (100, 4) } else { (0, 10) }; b + (id - b + 1) % n }

fn rename(n: &Node) -> Node {
    use Node::*;
    let r = |x: &Node| Box::new(rename(x));
    let ks = |v: &Vec<u32>| v.iter().map(|i| rot(*i)).collect::<Vec<_>>();
    match n {
        PkK(k) => PkK(rot(*k)), PkH(k) => PkH(rot(*k)),
        Alt(x) => Alt(r(x)), Swap(x) => Swap(r(x)), Check(x) => Check(r(x)), DupIf(x) => DupIf(r(x)),
        Verify(x) => Verify(r(x)), NonZero(x) => NonZero(r(x)), ZeroNotEqual(x) => ZeroNotEqual(r(x)),
        AndV(a, b) => AndV(r(a), r(b)), AndB(a, b) => AndB(r(a), r(b)), AndOr(a, b, c) => AndOr(r(a), r(b), r(c)),
        OrB(a, b) => OrB(r(a), r(b)), OrD(a, b) => OrD(r(a), r(b)), OrC(a, b) => OrC(r(a), r(b)), OrI(a, b) => OrI(r(a), r(b)),
        Thresh(k, xs) => Thresh(*k, xs.iter().map(rename).collect()),
        Multi(k, v) => Multi(*k, ks(v)), SortedMulti(k, v) => SortedMulti(*k, ks(v)),
        MultiA(k, v) => MultiA(*k, ks(v)), SortedMultiA(k, v) => SortedMultiA(*k, ks(v)),
        other => other.clone(),
    }
}

struct Rot;
impl<Pk: msops::HKey> miniscript::Translator<Pk> for Rot {
    type TargetPk = Pk;
    type Error = ();
    fn pk(&mut self, pk: &Pk) -> Result<Pk, ()> { pk.id().map(|i| Pk::of(rot(i))).ok_or(()) }
    fn sha256(&mut self, h: &Pk::Sha256) -> Result<Pk::Sha256, ()> { Ok(*h) }
    fn hash256(&mut self, h: &Pk::Hash256) -> Result<Pk::Hash256, ()> { Ok(*h) }
    fn ripemd160(&mut self, h: &Pk::Ripemd160) -> Result<Pk::Ripemd160, ()> { Ok(*h) }
    fn hash160(&mut self, h: &Pk::Hash160) -> Result<Pk::Hash160, ()> { Ok(*h) }
}

/// one route result: correspondence with the model of `node`, execution judge if it differs
/// from what from_ast gives for the same AST
/// every node of a fragment, pre-order
fn subs<'a, Pk: miniscript::MiniscriptKey, Ctx: ScriptContext>(ms: &'a Miniscript<Pk, Ctx>, acc: &mut Vec<&'a Miniscript<Pk, Ctx>>) {
    use Terminal::*;
    acc.push(ms);
    match ms.as_inner() {
        Alt(x) | Swap(x) | Check(x) | DupIf(x) | Verify(x) | NonZero(x) | ZeroNotEqual(x) => subs(x, acc),
        AndV(a, b) | AndB(a, b) | OrB(a, b) | OrD(a, b) | OrC(a, b) | OrI(a, b) => { subs(a, acc); subs(b, acc) }
        AndOr(a, b, c) => { subs(a, acc); subs(b, acc); subs(c, acc) }
        Thresh(t) => for x in t.iter() { subs(x, acc) },
        _ => {}
    }
}

/// A route's result carries a type on every node, and the satisfier / lifter / analysis read those.
/// Each proper subnode's type is compared with the from_ast route's (`reference` when it has the
/// same tree, else from_ast of the subnode itself); a differing one is compared with the model
/// and judged by execution.
fn emit_deep<Pk: msops::HKey + crate::c10b::Atom, Ctx: ScriptContext>(out: &mut Out, ctx: CtxK, route: &str, ms: &Miniscript<Pk, Ctx>, reference: Option<&Miniscript<Pk, Ctx>>) {
    let mut a = vec![]; subs(ms, &mut a);
    if a.len() == 1 { return; }
    let mut b = vec![];
    if let Some(r) = reference { if r.as_inner() == ms.as_inner() { subs(r, &mut b); } }
    for (i, sub) in a.iter().enumerate().skip(1) {
        let same = if b.len() == a.len() { ts(&b[i].ty) == ts(&sub.ty) } else {
            match crate::c10b::from_ms(sub).map(|n| ast::to_ms::<Pk, Ctx>(&n)) { Some(Ok(m)) => ts(&m.ty) == ts(&sub.ty), _ => false }
        };
        if same { continue; }
        if let Some(n) = crate::c10b::from_ms(sub) {
            let script = ast::hex(sub.encode().as_bytes());
            out.count(&format!("route {}: a subnode's type differs from the from_ast route (judged by execution)", route));
            out.line(&format!("C typeofstr {} {}/sub {}", ctx.name(), route, n.wire()), &ts(&sub.ty));
            out.line(&format!("J typeexecq {} {} {} {}", ctx.name(), n.wire(), script, ts(&sub.ty)), "ok");
        }
    }
}

fn emit_route<Pk: msops::HKey + crate::c10b::Atom, Ctx: ScriptContext>(out: &mut Out, ctx: CtxK, route: &str, node: &Node, ms: &Miniscript<Pk, Ctx>) {
    emit_route_j(out, ctx, route, node, ms, false)
}

/// `force`: judge by execution even when the from_ast route gives the same answer (used where the
/// resulting fragment has not been executed under this type anywhere else)
fn emit_route_j<Pk: msops::HKey + crate::c10b::Atom, Ctx: ScriptContext>(out: &mut Out, ctx: CtxK, route: &str, node: &Node, ms: &Miniscript<Pk, Ctx>, force: bool) {
    let w = node.wire();
    let script = ast::hex(ms.encode().as_bytes());
    out.line(&format!("C typeofstr {} {} {}", ctx.name(), route, w), &ts(&ms.ty));
    out.line(&format!("C encodestr {} {} {}", ctx.name(), route, w), &script);
    let reference = ast::to_ms::<Pk, Ctx>(node).ok();
    let same = match &reference { Some(m) => ts(&m.ty) == ts(&ms.ty) && m.encode() == ms.encode(), None => false };
    emit_deep(out, ctx, route, ms, reference.as_ref());
    if !same { out.count(&format!("route {}: differs from the from_ast route (judged by execution)", route)); }
    else if force { out.count(&format!("route {}: result judged by execution", route.split(':').next().unwrap())); }
    if !same || force {
        out.line(&format!("J typeexecq {} {} {} {}", ctx.name(), w, script, ts(&ms.ty)), "ok");
    }
}

fn routes_generic<Pk: msops::HKey + crate::c10b::Atom, Ctx: ScriptContext>(out: &mut Out, ctx: CtxK, node: &Node, seen: &BTreeSet<String>, strata: &mut BTreeSet<String>) {
    use miniscript::miniscript::types::{ExtData, Type};
    let ms: Miniscript<Pk, Ctx> = match ast::to_ms(node) { Ok(m) => m, Err(_) => return };
    // translate_pk
    match ms.translate_pk(&mut Rot) {
        Ok(t) => emit_route(out, ctx, "translate", &rename(node), &t),
        Err(_) => out.count("route translate: refused (a renamed key left the context's key table)"),
    }
    // the compiler's casts: Type::cast_* + from_components_unchecked
    let x = Arc::new(ms.clone());
    let f = || Arc::new(Miniscript::<Pk, Ctx>::FALSE);
    let casts: [(&str, Result<Type, miniscript::miniscript::types::ErrorKind>, Terminal<Pk, Ctx>, Node); 10] = [
        ("cast:c", Type::cast_check(ms.ty), Terminal::Check(x.clone()), Node::Check(bx(node.clone()))),
        ("cast:d", Type::cast_dupif(ms.ty), Terminal::DupIf(x.clone()), Node::DupIf(bx(node.clone()))),
        ("cast:l", Type::cast_likely(ms.ty), Terminal::OrI(f(), x.clone()), Node::OrI(bx(Node::False), bx(node.clone()))),
        ("cast:u", Type::cast_unlikely(ms.ty), Terminal::OrI(x.clone(), f()), Node::OrI(bx(node.clone()), bx(Node::False))),
        ("cast:v", Type::cast_verify(ms.ty), Terminal::Verify(x.clone()), Node::Verify(bx(node.clone()))),
        ("cast:j", Type::cast_nonzero(ms.ty), Terminal::NonZero(x.clone()), Node::NonZero(bx(node.clone()))),
        ("cast:t", Type::cast_true(ms.ty), Terminal::AndV(x.clone(), Arc::new(Miniscript::<Pk, Ctx>::TRUE)), Node::AndV(bx(node.clone()), bx(Node::True))),
        ("cast:s", Type::cast_swap(ms.ty), Terminal::Swap(x.clone()), Node::Swap(bx(node.clone()))),
        ("cast:a", Type::cast_alt(ms.ty), Terminal::Alt(x.clone()), Node::Alt(bx(node.clone()))),
        ("cast:n", Type::cast_zeronotequal(ms.ty), Terminal::ZeroNotEqual(x.clone()), Node::ZeroNotEqual(bx(node.clone()))),
    ];
    for (name, ty, term, n2) in casts {
        if let Ok(ty) = ty {
            if n2.size() > 48 { continue; }
            let ext = ExtData::type_check(&term);
            let m2 = Miniscript::from_components_unchecked(term, ty, ext);
            // the cast's answer depends on the child's type only: one result per (cast, child type)
            // is executed unless that very fragment has been judged already
            let force = !seen.contains(&n2.wire()) && strata.insert(format!("{} {}", name, ts(&ms.ty)));
            emit_route_j(out, ctx, name, &n2, &m2, force);
        }
    }
}

/// decode route (defined for the context's own key type)
fn route_decode<Ctx: ScriptContext>(out: &mut Out, ctx: CtxK, node: &Node)
where Ctx::Key: msops::HKey + crate::c10b::Atom
{
    let ms: Miniscript<Ctx::Key, Ctx> = match ast::to_ms(node) { Ok(m) => m, Err(_) => return };
    let script = ms.encode();
    match Miniscript::<Ctx::Key, Ctx>::decode_with_validation_params(&script, &miniscript::ValidationParams::MAX) {
        Ok(d) => match crate::c10b::from_ms(&d) {
            Some(n2) => emit_route(out, ctx, "decode", &n2, &d),
            None => out.count("route decode: decoded value has an atom outside the tables"),
        },
        Err(_) => out.count(&format!("observation: decode refuses the library's own encoding of a {:?} fragment", ms.ty.corr.base)),
    }
}

/// the unchecked constructors
fn route_ctors<Pk: msops::HKey + crate::c10b::Atom, Ctx: ScriptContext>(out: &mut Out, ctx: CtxK) {
    use miniscript::bitcoin::hashes::Hash;
    use miniscript::{AbsLockTime, RelLockTime};
    let k = ast::ctx_keys(ctx, 3);
    let tap = ctx == CtxK::Tap;
    let mut v: Vec<(Node, Miniscript<Pk, Ctx>)> = vec![
        (Node::True, Miniscript::TRUE), (Node::False, Miniscript::FALSE),
    ];
    let mut keys = k.clone();
    if matches!(ctx, CtxK::Bare | CtxK::Legacy) { keys.push(100); }
    for id in keys {
        v.push((Node::PkK(id), Miniscript::pk_k(Pk::of(id))));
        v.push((Node::PkH(id), Miniscript::pk_h(Pk::of(id))));
        v.push((Node::Check(bx(Node::PkK(id))), Miniscript::pk(Pk::of(id))));
        v.push((Node::Check(bx(Node::PkH(id))), Miniscript::pkh(Pk::of(id))));
        v.push((Node::RawPkH(id), Miniscript::expr_raw_pkh(ast::raw_pkh(id))));
    }
    for n in [1u32, 16, 17, 100, 499_999_999, 500_000_000, 500_000_001] {
        v.push((Node::After(n), Miniscript::after(AbsLockTime::from_consensus(n).unwrap())));
    }
    for n in [1u32, 16, 65_535, 4_194_305] {
        v.push((Node::Older(n), Miniscript::older(RelLockTime::from_consensus(n).unwrap())));
    }
    for h in 0..2u32 {
        v.push((Node::Hash(HK::Sha256, h), Miniscript::sha256(Hash::from_slice(&ast::hash_value(HK::Sha256, h)).unwrap())));
        v.push((Node::Hash(HK::Hash256, h), Miniscript::hash256(Hash::from_slice(&ast::hash_value(HK::Hash256, h)).unwrap())));
        v.push((Node::Hash(HK::Ripemd160, h), Miniscript::ripemd160(Hash::from_slice(&ast::hash_value(HK::Ripemd160, h)).unwrap())));
        v.push((Node::Hash(HK::Hash160, h), Miniscript::hash160(Hash::from_slice(&ast::hash_value(HK::Hash160, h)).unwrap())));
    }
    let b = if tap { 200 } else { 0 };
    for (kk, ids) in [(1usize, vec![b]), (1, vec![b, b + 1]), (2, vec![b, b + 1]), (2, vec![b + 2, b, b + 1]), (3, vec![b + 9, b + 8, b + 1]), (4, vec![b, b + 1, b + 2, b + 3])] {
        let pks: Vec<Pk> = ids.iter().map(|i| Pk::of(*i)).collect();
        if tap {
            v.push((Node::MultiA(kk, ids.clone()), Miniscript::multi_a(Threshold::new(kk, pks.clone()).unwrap())));
            v.push((Node::SortedMultiA(kk, ids.clone()), Miniscript::sortedmulti_a(Threshold::new(kk, pks).unwrap())));
        } else {
            v.push((Node::Multi(kk, ids.clone()), Miniscript::multi(Threshold::new(kk, pks.clone()).unwrap())));
            v.push((Node::SortedMulti(kk, ids.clone()), Miniscript::sortedmulti(Threshold::new(kk, pks).unwrap())));
        }
    }
    for (n, ms) in v {
        // constructors are always executed: they are a separate typing table
        let w = n.wire();
        let script = ast::hex(ms.encode().as_bytes());
        out.line(&format!("C typeofstr {} ctor {}", ctx.name(), w), &ts(&ms.ty));
        out.line(&format!("C encodestr {} ctor {}", ctx.name(), w), &script);
        out.line(&format!("J typeexec {} {} {} {}", ctx.name(), w, script, ts(&ms.ty)), "ok");
    }
}

/// the policy compiler: every node of every compilation carries a type built by the casts
fn route_compile<Pk: msops::HKey + crate::c10b::Atom, Ctx: ScriptContext>(out: &mut Out, ctx: CtxK) {
    use miniscript::bitcoin::hashes::Hash;
    use miniscript::policy::Concrete as P;
    let k = ast::ctx_keys(ctx, 4);
    let key = |i: usize| Arc::new(P::<Pk>::Key(Pk::of(k[i])));
    let older = |n: u32| Arc::new(P::<Pk>::Older(miniscript::RelLockTime::from_consensus(n).unwrap()));
    let after = |n: u32| Arc::new(P::<Pk>::After(miniscript::AbsLockTime::from_consensus(n).unwrap()));
    let sha = Arc::new(P::<Pk>::Sha256(Hash::from_slice(&ast::hash_value(HK::Sha256, 0)).unwrap()));
    let h160 = Arc::new(P::<Pk>::Hash160(Hash::from_slice(&ast::hash_value(HK::Hash160, 1)).unwrap()));
    let and = |v: Vec<Arc<P<Pk>>>| Arc::new(P::And(v));
    let or = |v: Vec<(usize, Arc<P<Pk>>)>| Arc::new(P::Or(v));
    let thr = |kk: usize, v: Vec<Arc<P<Pk>>>| Arc::new(P::Thresh(Threshold::new(kk, v).unwrap()));
    let pols: Vec<Arc<P<Pk>>> = vec![
        key(0), and(vec![key(0), key(1)]), or(vec![(1, key(0)), (1, key(1))]), or(vec![(9, key(0)), (1, key(1))]),
        and(vec![key(0), older(10)]), or(vec![(1, key(0)), (1, and(vec![key(1), older(144)]))]),
        or(vec![(99, key(0)), (1, and(vec![key(1), after(100)]))]),
        and(vec![key(0), sha.clone()]), or(vec![(1, and(vec![key(0), sha.clone()])), (1, and(vec![key(1), h160.clone()]))]),
        thr(2, vec![key(0), key(1), key(2)]), thr(2, vec![key(0), key(1), and(vec![key(2), older(10)])]),
        thr(3, vec![key(0), key(1), key(2), key(3)]), thr(1, vec![key(0), key(1), key(2)]),
        and(vec![or(vec![(1, key(0)), (1, key(1))]), or(vec![(1, key(2)), (1, and(vec![key(3), after(500_000_001)]))])]),
        or(vec![(1, thr(2, vec![key(0), key(1), key(2)])), (1, and(vec![key(3), older(4_194_305)]))]),
        or(vec![(1, key(0)), (1, or(vec![(1, and(vec![key(1), sha.clone()])), (1, and(vec![key(2), older(10)]))]))]),
        // thresholds whose members need several inputs (a: rather than s:), nested disjunctions
        thr(2, vec![or(vec![(1, key(0)), (1, key(1))]), key(2), key(3)]),
        thr(2, vec![and(vec![key(0), sha.clone()]), or(vec![(1, key(1)), (1, key(2))]), key(3)]),
        thr(2, vec![thr(2, vec![key(0), key(1), key(2)]), key(3), and(vec![key(0), h160.clone()])]),
        or(vec![(1, and(vec![key(0), key(1)])), (1, and(vec![key(2), key(3)]))]),
        thr(1, vec![and(vec![key(0), older(10)]), and(vec![key(1), after(100)])]),
        and(vec![key(0), or(vec![(1, older(10)), (1, sha.clone())])]),
        and(vec![key(0), or(vec![(1, older(10)), (9, key(1))])]),
        thr(3, vec![key(0), or(vec![(1, key(1)), (1, key(2))]), older(10), sha.clone()]),
        or(vec![(1, and(vec![key(0), or(vec![(1, key(1)), (3, h160.clone())])])), (2, thr(2, vec![key(1), key(2), key(3)]))]),
    ];
    fn walk<Pk: msops::HKey + crate::c10b::Atom, Ctx: ScriptContext>(out: &mut Out, ctx: CtxK, ms: &Miniscript<Pk, Ctx>, seen: &mut BTreeSet<String>) {
        if let Some(n) = crate::c10b::from_ms(ms) {
            if n.size() <= 48 && seen.insert(n.wire()) { emit_route_j(out, ctx, "compile", &n, ms, true); }
        }
        use Terminal::*;
        match ms.as_inner() {
            Alt(x) | Swap(x) | Check(x) | DupIf(x) | Verify(x) | NonZero(x) | ZeroNotEqual(x) => walk(out, ctx, x, seen),
            AndV(a, b) | AndB(a, b) | OrB(a, b) | OrD(a, b) | OrC(a, b) | OrI(a, b) => { walk(out, ctx, a, seen); walk(out, ctx, b, seen) }
            AndOr(a, b, c) => { walk(out, ctx, a, seen); walk(out, ctx, b, seen); walk(out, ctx, c, seen) }
            Thresh(t) => for x in t.iter() { walk(out, ctx, x, seen) },
            _ => {}
        }
    }
    let mut seen = BTreeSet::new();
    for p in pols {
        // a panic inside the compiler is not a claim of this property: counted, the stream goes on
        match std::panic::catch_unwind(std::panic::AssertUnwindSafe(|| p.compile::<Ctx>())) {
            Ok(Ok(ms)) => walk(out, ctx, &ms, &mut seen),
            Ok(Err(_)) => out.count("route compile: policy not compilable in this context"),
            Err(_) => out.count("observation: the policy compiler panicked (outside this property's statement)"),
        }
    }
}

fn emit_routes(out: &mut Out, ctx: CtxK, all: &[Node], seen: &BTreeSet<String>) {
    use miniscript::{BareCtx, Legacy, Segwitv0, Tap};
    let mut strata = BTreeSet::new();
    for node in all {
        with_ctx!(ctx, routes_generic(out, ctx, node, seen, &mut strata));
        match ctx {
            CtxK::Bare => route_decode::<BareCtx>(out, ctx, node), CtxK::Legacy => route_decode::<Legacy>(out, ctx, node),
            CtxK::Segwitv0 => route_decode::<Segwitv0>(out, ctx, node), CtxK::Tap => route_decode::<Tap>(out, ctx, node),
        }
    }
    with_ctx!(ctx, route_ctors(out, ctx));
    with_ctx!(ctx, route_compile(out, ctx));
}

/* ------------------------------------------------------------------ refused today (R2)
   One fragment per child-type requirement of every wrapper / combinator, violating exactly that
   requirement.  What from_ast answers is compared with the model (`C typeofctx`); should the
   library ACCEPT one, its type is judged by execution like any other fragment. */

fn refused_today(ctx: CtxK) -> Vec<(&'static str, Node)> {
    use Node::*;
    let k = ast::ctx_keys(ctx, 3);
    let (a, b, c) = (k[0], k[1], k[2]);
    let pk = |i: u32| Check(bx(PkK(i)));
    let vpk = |i: u32| Verify(bx(Check(bx(PkK(i)))));
    let wpk = |i: u32| Swap(bx(Check(bx(PkK(i)))));
    let nd = || AndV(bx(vpk(a)), bx(pk(b)));                       // B, not d
    let nu = || DupIf(bx(Verify(bx(True))));                        // B d, not u
    let multi2 = || if ctx == CtxK::Tap { MultiA(2, vec![a, b]) } else { Multi(2, vec![a, b]) };
    vec![
        ("a: over V", Alt(bx(vpk(a)))), ("a: over K", Alt(bx(PkK(a)))), ("a: over W", Alt(bx(wpk(a)))),
        ("s: over B z", Swap(bx(True))), ("s: over B any", Swap(bx(multi2()))), ("s: over V", Swap(bx(vpk(a)))), ("s: over K o", Swap(bx(PkK(a)))),
        ("c: over B", Check(bx(pk(a)))), ("c: over V", Check(bx(vpk(a)))),
        ("d: over B", DupIf(bx(True))), ("d: over V o", DupIf(bx(vpk(a)))), ("d: over K", DupIf(bx(PkK(a)))),
        ("v: over V", Verify(bx(vpk(a)))), ("v: over K", Verify(bx(PkK(a)))), ("v: over W", Verify(bx(wpk(a)))),
        ("j: over B z", NonZero(bx(True))), ("j: over B o not n", NonZero(bx(OrI(bx(True), bx(False))))), ("j: over B any not n", NonZero(bx(OrI(bx(pk(a)), bx(False))))), ("j: over V n", NonZero(bx(vpk(a)))),
        ("n: over V", ZeroNotEqual(bx(vpk(a)))), ("n: over K", ZeroNotEqual(bx(PkK(a)))),
        ("and_v: left B", AndV(bx(pk(a)), bx(pk(b)))), ("and_v: left K", AndV(bx(PkK(a)), bx(pk(b)))), ("and_v: right W", AndV(bx(vpk(a)), bx(wpk(b)))),
        ("and_b: right B", AndB(bx(pk(a)), bx(pk(b)))), ("and_b: left V", AndB(bx(vpk(a)), bx(wpk(b)))), ("and_b: left W", AndB(bx(wpk(a)), bx(wpk(b)))), ("and_b: right K", AndB(bx(pk(a)), bx(PkK(b)))),
        ("or_b: left not d", OrB(bx(nd()), bx(wpk(c)))), ("or_b: right not d", OrB(bx(pk(a)), bx(Alt(bx(nd()))))), ("or_b: right B", OrB(bx(pk(a)), bx(pk(b)))), ("or_b: left V", OrB(bx(vpk(a)), bx(wpk(b)))),
        ("or_c: left not d", OrC(bx(nd()), bx(vpk(c)))), ("or_c: left not u", OrC(bx(nu()), bx(vpk(a)))), ("or_c: right B", OrC(bx(pk(a)), bx(pk(b)))), ("or_c: left V", OrC(bx(vpk(a)), bx(vpk(b)))),
        ("or_d: left not d", OrD(bx(nd()), bx(pk(c)))), ("or_d: left not u", OrD(bx(nu()), bx(pk(a)))), ("or_d: right V", OrD(bx(pk(a)), bx(vpk(b)))), ("or_d: right K", OrD(bx(pk(a)), bx(PkK(b)))), ("or_d: left V", OrD(bx(vpk(a)), bx(pk(b)))),
        ("or_i: B and V", OrI(bx(pk(a)), bx(vpk(b)))), ("or_i: K and B", OrI(bx(PkK(a)), bx(pk(b)))), ("or_i: W and W", OrI(bx(wpk(a)), bx(wpk(b)))),
        ("andor: first not d", AndOr(bx(nd()), bx(pk(c)), bx(pk(a)))), ("andor: first not u", AndOr(bx(nu()), bx(pk(a)), bx(pk(b)))), ("andor: first V", AndOr(bx(vpk(a)), bx(pk(b)), bx(pk(c)))),
        ("andor: B and V", AndOr(bx(pk(a)), bx(pk(b)), bx(vpk(c)))), ("andor: K and B", AndOr(bx(pk(a)), bx(PkK(b)), bx(pk(c)))), ("andor: W and W", AndOr(bx(pk(a)), bx(wpk(b)), bx(wpk(c)))),
        ("thresh: first W", Thresh(1, vec![wpk(a), wpk(b)])), ("thresh: first V", Thresh(1, vec![vpk(a), wpk(b)])), ("thresh: first not d", Thresh(1, vec![nd(), wpk(c)])), ("thresh: first not u", Thresh(1, vec![nu(), wpk(a)])),
        ("thresh: second B", Thresh(1, vec![pk(a), pk(b)])), ("thresh: second not d", Thresh(2, vec![pk(c), Alt(bx(nd()))])), ("thresh: second not u", Thresh(2, vec![pk(a), Alt(bx(nu()))])),
        ("thresh: third B", Thresh(2, vec![pk(a), wpk(b), pk(c)])), ("thresh: third V", Thresh(2, vec![pk(a), wpk(b), vpk(c)])), ("thresh: third not d", Thresh(2, vec![pk(c), wpk(c), Alt(bx(nd()))])), ("thresh: third not u", Thresh(2, vec![pk(a), wpk(b), Alt(bx(nu()))])),
    ]
}

fn emit_refused<Pk: msops::HKey, Ctx: ScriptContext>(out: &mut Out, ctx: CtxK) {
    for (why, n) in refused_today(ctx) {
        let a = match build_kind::<Pk, Ctx>(&n) { Ok(ms) => ts(&ms.ty), Err(k) => k.to_string() };
        out.line(&format!("C typeofctx {} {}", ctx.name(), n.wire()), &a);
        match ast::to_ms::<Pk, Ctx>(&n) {
            Ok(ms) => {
                // refused by the specification's rule, accepted by the library: judged like any fragment
                out.count(&format!("refused-today fragment ACCEPTED by the library ({})", why));
                emit_ms(out, ctx, &n, &ms, "typeexec");
            }
            Err(_) => out.count("refused-today fragment refused"),
        }
    }
}

/* ------------------------------------------------------------------ combinators over casts (R5) */

fn cast_towers(ctx: CtxK) -> Vec<Node> {
    use Node::*;
    let k = ast::ctx_keys(ctx, 3);
    let (a, b, c) = (k[0], k[1], k[2]);
    let pk = |i: u32| Check(bx(PkK(i)));
    let pkh = |i: u32| Check(bx(PkH(i)));
    let t = |x: Node| AndV(bx(x), bx(True));           // t:X
    let l = |x: Node| OrI(bx(False), bx(x));            // l:X
    let u = |x: Node| OrI(bx(x), bx(False));            // u:X
    let v = |x: Node| Verify(bx(x));
    let m = || if ctx == CtxK::Tap { MultiA(2, vec![a, b, c]) } else { Multi(2, vec![a, b, c]) };
    let atoms: Vec<Node> = vec![pk(a), pkh(b), Hash(HK::Sha256, 0), Hash(HK::Hash160, 1), After(100), Older(10), m()];
    let mut out = vec![];
    for x in &atoms {
        let casts = [t(v(x.clone())), l(x.clone()), u(x.clone())];
        for cx in casts.iter() {
            // every wrapper and every combinator position over the cast
            out.push(cx.clone());
            out.push(Alt(bx(cx.clone()))); out.push(Swap(bx(cx.clone()))); out.push(DupIf(bx(v(cx.clone()))));
            out.push(v(cx.clone())); out.push(NonZero(bx(cx.clone()))); out.push(ZeroNotEqual(bx(cx.clone())));
            out.push(t(v(cx.clone()))); out.push(l(cx.clone())); out.push(u(cx.clone()));
            out.push(AndV(bx(v(cx.clone())), bx(pk(c)))); out.push(AndV(bx(v(pk(c))), bx(cx.clone())));
            out.push(AndB(bx(cx.clone()), bx(Alt(bx(pk(c)))))); out.push(AndB(bx(pk(c)), bx(Alt(bx(cx.clone())))));
            out.push(OrB(bx(cx.clone()), bx(Alt(bx(pk(c)))))); out.push(OrB(bx(pk(c)), bx(Alt(bx(cx.clone())))));
            out.push(OrD(bx(cx.clone()), bx(pk(c)))); out.push(OrD(bx(pk(c)), bx(cx.clone())));
            out.push(OrC(bx(cx.clone()), bx(v(pk(c))))); out.push(OrC(bx(pk(c)), bx(v(cx.clone()))));
            out.push(OrI(bx(cx.clone()), bx(pk(c)))); out.push(OrI(bx(pk(c)), bx(cx.clone())));
            out.push(AndOr(bx(cx.clone()), bx(pk(c)), bx(pk(a)))); out.push(AndOr(bx(pk(c)), bx(cx.clone()), bx(pk(a))));
            out.push(AndOr(bx(pk(c)), bx(pk(a)), bx(cx.clone())));
            out.push(Thresh(1, vec![cx.clone()])); out.push(Thresh(2, vec![cx.clone(), Swap(bx(pk(c))), Alt(bx(cx.clone()))]));
            out.push(Thresh(2, vec![pk(c), Alt(bx(cx.clone())), Alt(bx(u(pk(a))))]));
        }
    }
    out
}

pub fn run(out: &mut Out, thorough: bool, seed: u64) {
    let mut rng = Rng(seed ^ 0xC06);
    ast::emit_defs(out);
    msops::emit_sig_defs(out);
    let op = if thorough { "typeexecx" } else { "typeexec" };
    let mut n_frag = 0u64;
    for ctx in CtxK::ALL {
        let mut seen: BTreeSet<String> = BTreeSet::new();
        let mut all: Vec<Node> = vec![];
        // hand corpus first (ill-typed members for this context are skipped by `to_ms`)
        for node in corpus(ctx) {
            if !seen.insert(node.wire()) { continue; }
            if with_ctx!(ctx, emit_one(out, ctx, &node, op)) { n_frag += 1; all.push(node); out.count("corpus fragment"); }
        }
        // the shared designated fragments (all hash kinds, both lock units, wide / surplus multisig,
        // raw key hashes, uncompressed keys in every position in Bare / Legacy)
        for node in ast::dimension_corpus(ctx) {
            if node.size() > 48 || !seen.insert(node.wire()) { continue; }
            let mut ks = vec![]; node.keys(&mut ks); ks.sort(); ks.dedup();
            let large = ks.len() > 3 || node.size() > 14;
            if with_ctx!(ctx, emit_one(out, ctx, &node, if large { "typeexecq" } else { op })) {
                n_frag += 1; all.push(node); out.count("dimension corpus fragment");
            } else { out.count("dimension corpus fragment refused by the library in this context"); }
        }
        // the FULL set of wrapper towers (dimension_corpus carries a thin slice only): every tower
        // of two or three wrappers over every atom kind, also as the bare tower (any base type)
        for node in ast::wrapper_towers(ctx) {
            if node.size() > 48 || !seen.insert(node.wire()) { continue; }
            let mut ks = vec![]; node.keys(&mut ks); ks.sort(); ks.dedup();
            let large = ks.len() > 3 || node.size() > 14;
            if with_ctx!(ctx, emit_one(out, ctx, &node, if large { "typeexecq" } else { op })) {
                n_frag += 1; all.push(node); out.count("wrapper tower fragment");
            } else { out.count("wrapper tower refused by the library in this context"); }
        }
        let atoms = ast::default_atoms(ctx, true);
        let (depth, quota) = if thorough { (3, 30) } else { (3, 7) };
        let frags = ast::enumerate(ctx, &atoms, depth, quota, &mut rng);
        for t in frags.iter() {
            // large fragments (many keys -> large alphabet, or many nodes) get the light input
            // enumeration instead of being skipped; nothing below 49 nodes is left unjudged
            let mut ks = vec![]; t.node.keys(&mut ks); ks.sort(); ks.dedup();
            if t.node.size() > 48 { out.count("fragment above 48 nodes (not judged)"); continue; }
            let large = ks.len() > 3 || t.node.size() > 14;
            if !seen.insert(t.node.wire()) { continue; }
            if with_ctx!(ctx, emit_one(out, ctx, &t.node, if large { "typeexecq" } else { op })) {
                n_frag += 1; all.push(t.node.clone());
                out.count(if large { "enumerated fragment (large, light enumeration)" } else { "enumerated fragment" });
            }
        }
        let em = with_ctx!(ctx, matrix(out, ctx, thorough, &mut rng, &mut seen));
        n_frag += em.len() as u64;
        all.extend(em);
        // combinators and wrappers over the casts t: / l: / u: (acceptance decided by the library)
        for node in cast_towers(ctx) {
            if node.size() > 48 || !seen.insert(node.wire()) { continue; }
            // light input enumeration; the specification's satisfying (each signing subset) and
            // dissatisfying witnesses are executed in every tier
            if with_ctx!(ctx, emit_one(out, ctx, &node, "typeexecq")) { n_frag += 1; all.push(node); out.count("cast tower fragment"); }
            else { out.count("cast tower candidate refused by the library"); }
        }
        with_ctx!(ctx, emit_refused(out, ctx));
        // parser path and every other route for every judged fragment
        for node in &all { emit_str(out, ctx, node, "typeexecq"); }
        emit_routes(out, ctx, &all, &seen);
    }
    emit_ctx_acceptance(out);
    // negative controls: a deliberately too strong type for a known fragment must be refuted by
    // the judge on the stated letter (shows the judge is not vacuous; independent of the library)
    let neg: [(&str, &str, &str, &str); 9] = [
        // the 2022-04-20 advisory: `d:` typed `u` — refuted without MINIMALIF by input [02]
        ("bare", "d(v(1))", "BO11/e01", "u"),
        ("legacy", "d(v(1))", "BO11/e01", "u"),
        // or_i(1,0) is not zero-arg, and `after` is not unit
        ("segwitv0", "or_i(1,0)", "Bz11/x01", "z"),
        ("segwitv0", "after(100)", "Bz01/f01", "u"),
        // a hash fragment is not signed, and `1` is not dissatisfiable
        ("segwitv0", "sha256(0)", "BO11/x11", "s"),
        ("tap", "1", "Bz11/f01", "d"),
        // pk_h consumes two elements, not one; j:multi must not claim `f`
        ("segwitv0", "c(pk_h(0))", "BO11/e11", "o"),
        ("segwitv0", "j(multi(1,0,1))", "BN11/f11", "f"),
        // `a:` leaves x on top: claiming base B is refuted by the shape test
        ("segwitv0", "and_v(v(c(pk_k(0))),c(pk_k(1)))", "Vo00/f11", "V"),
    ];
    for (ctx, astw, ty, l) in neg {
        out.line(&format!("J typeexecneg {} {} {} {}", ctx, astw, ty, l), "refuted");
        out.line(&format!("J typeexecnegq {} {} {} {}", ctx, astw, ty, l), "refuted");
    }
    out.note("distinct_nontrivial", n_frag.to_string());
    let total = out.hist.get("script executions (input stacks x transaction settings)").cloned().unwrap_or(0);
    out.note("executions_total", total.to_string());
    out.note("domain", format!(
        "TESTS (not proofs) of the type letters on {} fragments / {} script executions. FRAGMENTS: hand corpus; all base types B/V/K/W enumerated by ast::enumerate to depth 3 (quota-thinned); RULE MATRIX: every wrapper / combinator applied to one representative of every distinct Miniscript::ty the library has produced (closure over {} levels from the leaves 0, 1, pk_k, pk_h, raw pkh, after, older, the 4 hash kinds, multi/multi_a with k = 1 .. n, sortedmulti), unary rules on every full type, binary rules / thresh / andor on every tuple of correctness-class representatives and every tuple of (base, malleability)-class representatives, acceptance decided by the library's from_ast alone{}; the full ast::wrapper_towers and combinator-over-cast towers (t:v:X / l:X / u:X under every wrapper and in every combinator position); 62 refused-today fragments per context (one violated child requirement each; executed if the library accepts one). ROUTES: every judged fragment also goes through from_str (plain and alias spelling), decode(encode), translate_pk (key rotation), the 10 compiler casts (Type::cast_* + from_components_unchecked), and the stream adds the leaf constructors and every node of 16 compiled policies per context; each result (top node and every subnode) is compared with the model and with the from_ast route and executed under its own type when they differ (constructors, compiled nodes and one cast result per (cast, child type) are always executed). INPUTS per fragment (exhaustive part first): tier 1 (`typeexec`): ALL stacks of length <= 3 over the fragment's alphabet A (5 fixed values [], 01, 02, 00, 80; one valid signature per key; each key serialisation; a wrong-key signature; an invalid signature; each preimage; a wrong preimage; 32 zero bytes; 33-byte junk: |A| = 6..24) + length 4 over the core alphabet (thinned to <= 2000); tier 0 (`typeexecq`, large fragments and deeper matrix levels): ALL stacks of length <= 2 over A + length 3 over the core alphabet (thinned to <= 600); tier 2 (`typeexecx`, thorough): ALL of length <= 3 + length 4 over A (thinned to <= 20000) + length 5 core (thinned to <= 5000); always above the sentinel [aa],[bb], under 1 (no lock) or 3 (nLockTime, nSequence) settings, W fragments with 2 values of the top element. The exact count per fragment is on its `C typeexecdom` line (recomputed by the driver). LETTERS: shape (B/V/K/W), z, o, n, u, f, s are universally quantified claims, tested on EVERY enumerated run of the fragment; z / o additionally compare with the run on the empty / one-element stack; d is existential: a witness is searched among the enumerated signature-free inputs plus the specification's canonical dissatisfaction (SatTable.dsatWit), and the witness found is executed; the specification's canonical SATISFACTION is executed for every subset of the fragment's keys signing (<= 5 keys: all subsets; more: all, singletons, all-but-one)",
        n_frag, total, 3,
        if thorough { "; every accepted candidate is judged" } else { "; quick tier: one accepted candidate per (rule, base types of the children, resulting type) plus a seeded sample is judged, the thorough tier judges all" }));
}

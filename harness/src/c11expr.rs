//! C11 (expression parser): `expression::Tree::from_str` and `expression::parse_num` never
//! panic, and agree with the Lean model (which makes every panic site explicit) on accept/reject,
//! error kind + position and the complete node table of accepted trees.
use std::panic::{catch_unwind, AssertUnwindSafe};
use std::time::Instant;

use miniscript::expression::{parse_num, Parens, Tree};
use miniscript::{Error, ParseError, ParseNumError, ParseTreeError};

use crate::c10::{hex, impl_checksum, quiet_panics};
use crate::common::{Out, Rng};

#[path = "rawtext.rs"]
pub mod rawtext;

fn opt(i: Option<usize>) -> String { i.map(|n| n.to_string()).unwrap_or_else(|| "-".into()) }

fn tree_err(e: &ParseTreeError) -> String {
    use miniscript::descriptor::checksum::Error as CsError;
    match e {
        ParseTreeError::Checksum(c) => format!(
            "ERR:Checksum:{}",
            match c {
                CsError::InvalidCharacter { .. } => "InvalidCharacter",
                CsError::InvalidChecksumLength { .. } => "InvalidChecksumLength",
                CsError::InvalidChecksum { .. } => "InvalidChecksum",
            }
        ),
        ParseTreeError::MaxRecursionDepthExceeded { actual, .. } => {
            format!("ERR:MaxRecursionDepthExceeded:{}", actual)
        }
        ParseTreeError::ExpectedParenOrComma { pos, .. } => format!("ERR:ExpectedParenOrComma:{}", pos),
        ParseTreeError::UnmatchedOpenParen { pos, .. } => format!("ERR:UnmatchedOpenParen:{}", pos),
        ParseTreeError::UnmatchedCloseParen { pos, .. } => format!("ERR:UnmatchedCloseParen:{}", pos),
        ParseTreeError::MismatchedParens { open_pos, close_pos, .. } => {
            format!("ERR:MismatchedParens:{}:{}", open_pos, close_pos)
        }
        ParseTreeError::TrailingCharacter { pos, .. } => format!("ERR:TrailingCharacter:{}", pos),
        _ => "ERR:Other".to_string(),
    }
}

/// canonical dump of the flat node table through the public accessors
fn dump(tree: &Tree) -> String {
    let root = tree.root();
    let mut parts: Vec<String> = vec![];
    let mut n = 0usize;
    // explicit DFS over first_child / right_sibling: pre-order = index order
    let mut stack = vec![root];
    while let Some(item) = stack.pop() {
        n += 1;
        let last_child = item.children().last().map(|c| c.index());
        parts.push(format!(
            "{}.{}.{}.{}.{}.{}.{}",
            item.name_pos(),
            item.name().len(),
            match item.parens() {
                Parens::None => "n",
                Parens::Round => "r",
                Parens::Curly => "c",
            },
            item.n_children(),
            opt(item.parent().map(|p| p.index())),
            opt(last_child),
            opt(item.right_sibling().map(|p| p.index())),
        ));
        debug_assert_eq!(item.index() + 1, n);
        let kids: Vec<_> = item.children().collect();
        for k in kids.into_iter().rev() {
            stack.push(k);
        }
    }
    format!("ok:{}:{}", n, parts.join(";"))
}

pub fn impl_exprtree(s: &str) -> String {
    let r = catch_unwind(AssertUnwindSafe(|| match Tree::from_str(s) {
        Ok(t) => dump(&t),
        Err(Error::Parse(ParseError::Tree(e))) => tree_err(&e),
        Err(_) => "ERR:Other".to_string(),
    }));
    r.unwrap_or_else(|_| "PANIC".into())
}

pub fn impl_parsenum(s: &str) -> String {
    use std::num::IntErrorKind;
    let r = catch_unwind(AssertUnwindSafe(|| match parse_num(s) {
        Ok(n) => n.to_string(),
        Err(ParseNumError::InvalidLeadingDigit(_)) => "ERR:InvalidLeadingDigit".to_string(),
        Err(ParseNumError::IllegalZero { .. }) => "ERR:IllegalZero".to_string(),
        Err(ParseNumError::StdParse(e)) => match e.kind() {
            IntErrorKind::Empty => "ERR:Empty".to_string(),
            IntErrorKind::InvalidDigit => "ERR:InvalidDigit".to_string(),
            IntErrorKind::PosOverflow => "ERR:PosOverflow".to_string(),
            _ => "ERR:OtherInt".to_string(),
        },
    }));
    r.unwrap_or_else(|_| "PANIC".into())
}

/// only accept/reject/panic (for inputs too large to ship through the line protocol)
/// CPU time consumed by this thread so far, in ms (`/proc/thread-self/stat`, utime + stime in
/// clock ticks of 10 ms).  Wall-clock time is no measure of the library's work: on a loaded
/// machine the process may not run for many seconds.
fn thread_cpu_ms() -> Option<u128> {
    let st = std::fs::read_to_string("/proc/thread-self/stat").ok()?;
    // the command name (field 2) may contain spaces: fields are counted after the closing ')'
    let rest = &st[st.rfind(')')? + 1..];
    let f: Vec<&str> = rest.split_whitespace().collect();
    let ut: u128 = f.get(11)?.parse().ok()?;
    let stime: u128 = f.get(12)?.parse().ok()?;
    Some((ut + stime) * 10)
}

fn verdict_only(s: &str) -> (&'static str, u128) {
    let t0 = Instant::now();
    let c0 = thread_cpu_ms();
    let r = catch_unwind(AssertUnwindSafe(|| Tree::from_str(s).is_ok()));
    // CPU time of the call where the kernel tells it, wall time otherwise
    let ms = match (c0, thread_cpu_ms()) { (Some(a), Some(b)) => b.saturating_sub(a), _ => t0.elapsed().as_millis() };
    (
        match r {
            Ok(true) => "accepted",
            Ok(false) => "rejected",
            Err(_) => "PANIC",
        },
        ms,
    )
}

fn emit_tree(out: &mut Out, s: &str) {
    let a = impl_exprtree(s);
    let kind = if a.starts_with("ok:") {
        "accepted".to_string()
    } else {
        a.split(':').take(2).collect::<Vec<_>>().join(":")
    };
    out.count(&format!("exprtree {}", kind));
    let verdict = if a == "PANIC" { "PANIC" } else if a.starts_with("ok:") { "accepted" } else { "rejected" };
    out.line(&format!("C exprtree {}", hex(s)), &a);
    out.line(&format!("J nopanic exprtree {} {}", hex(s), verdict), "ok");
}

fn emit_num(out: &mut Out, s: &str) {
    let a = impl_parsenum(s);
    let verdict = if a == "PANIC" { "PANIC" } else if a.starts_with("ERR") { "rejected" } else { "accepted" };
    out.count(&format!("parsenum {}", if a.starts_with("ERR") { a.as_str() } else { verdict }));
    out.line(&format!("C parsenum {}", hex(s)), &a);
    out.line(&format!("J nopanic parsenum {} {}", hex(s), verdict), "ok");
}

const NAME_CHARS: &str = "abcdefghijklmnopqrstuvwxyzABCDEFGHIJKLMNOPQRSTUVWXYZ0123456789_:@'/*[]<>;.-+!$%&=?^|~` \"\\";

fn rand_name(rng: &mut Rng) -> String {
    let cs: Vec<char> = NAME_CHARS.chars().collect();
    let len = match rng.below(10) {
        0 => 0,
        1..=6 => 1 + rng.below(6),
        _ => 1 + rng.below(70),
    };
    (0..len).map(|_| { let m = if rng.below(4) == 0 { cs.len() } else { 62 }; cs[rng.below(m)] }).collect()
}

/// random well-formed expression of at most `budget` nodes and `depth` levels
fn rand_expr(rng: &mut Rng, budget: &mut usize, depth: usize, s: &mut String) {
    s.push_str(&rand_name(rng));
    if *budget == 0 || depth == 0 || rng.below(3) == 0 {
        return;
    }
    let curly = rng.below(5) == 0;
    s.push(if curly { '{' } else { '(' });
    let n = 1 + rng.below(4);
    for i in 0..n {
        if i > 0 {
            s.push(',');
        }
        if *budget > 0 {
            *budget -= 1;
        }
        rand_expr(rng, budget, depth - 1, s);
    }
    s.push(if curly { '}' } else { ')' });
}

fn nest(open: char, close: char, depth: usize, leaf: &str) -> String {
    let mut s = String::new();
    for _ in 0..depth {
        s.push('a');
        s.push(open);
    }
    s.push_str(leaf);
    for _ in 0..depth {
        s.push(close);
    }
    s
}

fn mutate(rng: &mut Rng, s: &str) -> String {
    let mut v: Vec<char> = s.chars().collect();
    let specials: Vec<char> = "(){},(){},(){},#".chars().collect();
    let exotic: Vec<char> = vec!['\u{0}', '\u{7f}', '\u{e9}', '\u{20ac}', '\u{1f496}', '\n', '\u{85}', '\u{ff08}'];
    let n = 1 + rng.below(3);
    for _ in 0..n {
        let choice = rng.below(8);
        if v.is_empty() {
            v.push(specials[rng.below(specials.len())]);
            continue;
        }
        let p = rng.below(v.len());
        match choice {
            0 => {
                v.remove(p);
            }
            1 => v.insert(p, specials[rng.below(specials.len())]),
            2 => v[p] = specials[rng.below(specials.len())],
            3 => v.insert(p, exotic[rng.below(exotic.len())]),
            4 => {
                let q = rng.below(v.len());
                v.swap(p, q);
            }
            5 => v.truncate(p),
            6 => {
                let c = v[p];
                v.insert(p, c);
            }
            _ => v[p] = char::from_u32(32 + rng.below(95) as u32).unwrap(),
        }
    }
    v.into_iter().collect()
}

pub fn run_expr(out: &mut Out, thorough: bool, rng: &mut Rng) {
    quiet_panics();
    // hand-written cases (the repo's unit tests and their neighbours)
    let fixed = [
        "", "a", "thresh", "thresh,", "thresh,thresh", "thresh()thresh()", "thresh()", "thresh(a()b)",
        "thresh()xyz", "a(", ")", "x(y))", "a{", "}", "x(y)}", "x{y)", "x(y}", "a{b(c),d}", "(", "{", ",",
        "()", "{}", "(,)", "(,,)", "a(,)", "a(b,)", "a(,b)", "a((", "a(()", "a(())", "a(()())", "a(b)(c)", "a(b),",
        "a(b),c", "a(b)c", "a(b(c)d)", "a(b(c),d)", "a(b(c)),", "((((", "))))", "a)b", "a}b", "a,b", "a(b}c", "a{b)c",
        "a(b{c}d)", "a(b{c},d)", "a({})", "a{()}", "a{(})", "a({)}", " ", "a b", "a(b c)", "\"", "\\", "a#", "a#b",
        "a(b)#", "a(b)#12345678", "a(b)#qqqqqqqq", "#", "##", "é", "a(é)", "a(b)\u{1f496}", "\u{0}", "a(\u{7f})", "a(b)\n",
        "(a)", "((a))", "(a,b)", "a(b)(", "a(b))", "a(b)}", "a(b){", "a(b),(", "a(b,c))", "a(b,(c))", "a(b,(c)d)",
    ];
    for s in fixed {
        emit_tree(out, s);
    }
    // valid strings with (in)valid checksums
    for body in ["a(b,c)", "wsh(multi(2,A,B))", "tr(K,{pk(A),pk(B)})", "a", ""] {
        let mut cs = impl_checksum(body);
        if cs.len() != 8 || !cs.is_ascii() {
            cs = "qqqqqqqq".to_string(); // engine failed; reported by the C10 check
        }
        emit_tree(out, &format!("{}#{}", body, cs));
        emit_tree(out, &format!("{}#{}", body, "qqqqqqqq"));
        emit_tree(out, &format!("{}#{}", body, &cs[..7]));
        emit_tree(out, &format!("{}#{}x", body, cs));
        emit_tree(out, &format!("{}#{}#{}", body, cs, impl_checksum(&format!("{}#{}", body, cs))));
    }
    // nesting around the limit (MAX_RECURSION_DEPTH + 1 = 403 since /repo 4d088e26)
    for &(o, c) in &[('(', ')'), ('{', '}')] {
        for d in [1usize, 2, 127, 128, 129, 400, 401, 402, 403, 404, 405, 500, 1000, 10_000] {
            for leaf in ["x", ""] {
                emit_tree(out, &nest(o, c, d, leaf));
            }
            // the depth limit itself: well-formed nesting is accepted iff depth <= 403
            let (v, _) = verdict_only(&nest(o, c, d, "x"));
            out.line(&format!("J depthlimit {} {} {}", if o == '(' { "round" } else { "curly" }, d, v), "ok");
        }
        // unbalanced deep strings
        for d in [401usize, 402, 403, 404, 5000] {
            let full = nest(o, c, d, "x");
            emit_tree(out, &full[..full.len() - 1]); // one closer missing
            emit_tree(out, &format!("{}{}", full, c)); // one closer too many
            emit_tree(out, &full[..d * 2 + 1]); // only openers
            emit_tree(out, &full[d * 2..]); // only closers
        }
    }
    // alternating brace kinds at depth, mismatches at depth
    for lim in [402usize, 403, 404] {
        let mut s = String::new();
        for i in 0..lim {
            s.push('a');
            s.push(if i % 2 == 0 { '(' } else { '{' });
        }
        let opened = s.clone();
        for i in (0..lim).rev() {
            s.push(if i % 2 == 0 { ')' } else { '}' });
        }
        emit_tree(out, &s);
        let mut bad = opened.clone();
        for _ in 0..lim {
            bad.push(')');
        }
        emit_tree(out, &bad);
    }
    // very wide nodes
    for n in [1usize, 2, 3, 100, 1000, 20_000] {
        let kids: Vec<String> = (0..n).map(|i| format!("k{}", i % 7)).collect();
        emit_tree(out, &format!("w({})", kids.join(",")));
        emit_tree(out, &format!("w{{{}}}", vec![""; n].join(",")));
        let sub: Vec<String> = (0..n.min(3000)).map(|i| format!("f(x{})", i % 3)).collect();
        emit_tree(out, &format!("w({})", sub.join(",")));
    }
    // inputs too large for the line protocol: verdict + time only
    let big: Vec<(String, String)> = vec![
        ("deep-round-100000".into(), nest('(', ')', 100_000, "x")),
        ("deep-curly-1000000".into(), nest('{', '}', 1_000_000, "")),
        ("open-only-1000000".into(), "(".repeat(1_000_000)),
        ("close-only-1000000".into(), ")".repeat(1_000_000)),
        ("commas-1000000".into(), format!("a({})", ",".repeat(1_000_000))),
        ("wide-500000".into(), format!("a({})", vec!["b(c)"; 500_000].join(","))),
        ("name-2000000".into(), "n".repeat(2_000_000)),
        ("deep-403-wide".into(), nest('(', ')', 402, &format!("w({})", vec!["x"; 100_000].join(",")))),
        ("deep-404-wide".into(), nest('(', ')', 403, &format!("w({})", vec!["x"; 100_000].join(",")))),
    ];
    let mut max_ms = 0u128;
    for (desc, s) in &big {
        let (v, ms) = verdict_only(s);
        max_ms = max_ms.max(ms);
        out.line(&format!("J nopanic exprtree gen:{}:{}bytes {}", desc, s.len(), v), "ok");
        // linear-time bound on the CPU time of the call, very generous (observed: < 100 ms for
        // the largest input; a quadratic parser needs hours for 10^6 characters)
        let speed = if ms <= 30_000 { "fast" } else { "SLOW" };
        out.line(&format!("J nohang exprtree gen:{}:{}bytes {}", desc, s.len(), speed), "ok");
    }
    out.note("max_ms_large_input", format!("{}", max_ms));

    // random valid trees, and mutations of them
    let n_valid = if thorough { 60_000 } else { 4_000 };
    let mut valid: Vec<String> = vec![];
    for i in 0..n_valid {
        let mut s = String::new();
        let mut budget = 1 + rng.below(if i % 10 == 0 { 200 } else { 25 });
        let depth = 1 + rng.below(12);
        rand_expr(rng, &mut budget, depth, &mut s);
        emit_tree(out, &s);
        if i % 3 == 0 {
            let cs = impl_checksum(&s);
            if cs.len() == 8 {
                emit_tree(out, &format!("{}#{}", s, cs));
            }
        }
        valid.push(s);
    }
    let n_mut = if thorough { 600_000 } else { 40_000 };
    for _ in 0..n_mut {
        let base = &valid[rng.below(valid.len())];
        let m = mutate(rng, base);
        emit_tree(out, &m);
    }
    // random strings over the structural alphabet (dense in syntax errors), all strings up to length 5 over "a(){},"
    let alpha: Vec<char> = "a(){},".chars().collect();
    let max_len = if thorough { 7 } else { 5 };
    for len in 0..=max_len {
        let total = alpha.len().pow(len as u32);
        for mut code in 0..total {
            let mut s = String::new();
            for _ in 0..len {
                s.push(alpha[code % alpha.len()]);
                code /= alpha.len();
            }
            emit_tree(out, &s);
        }
    }
    let n_rand = if thorough { 400_000 } else { 30_000 };
    let alpha2: Vec<char> = "ab(){},,(())#".chars().collect();
    for _ in 0..n_rand {
        let len = 6 + rng.below(30);
        let s: String = (0..len).map(|_| alpha2[rng.below(alpha2.len())]).collect();
        emit_tree(out, &s);
    }

    // parse_num
    let nums = [
        "0", "1", "9", "10", "00", "01", "06", "0000", "+6", "-6", "+0", "-0", "", " ", "1 ", " 1", "1a", "a", "a1",
        "4294967295", "4294967296", "4294967294", "42949672950", "04294967295", "99999999999999999999",
        "18446744073709551616", "1_000", "1e3", "0x10", "１", "٣", "1٣", "2147483648", "500000000", "499999999",
        "12345678", "123456789", "1234567890", "9999999999", "429496729a", "42949672960a", "4294967296a", "1\u{0}",
    ];
    for s in nums {
        emit_num(out, s);
    }
    for n in 0..=1100u32 {
        emit_num(out, &n.to_string());
    }
    let n_num = if thorough { 300_000 } else { 20_000 };
    let digits: Vec<char> = "0123456789".chars().collect();
    for i in 0..n_num {
        let len = 1 + rng.below(12);
        let mut s: String = (0..len).map(|_| digits[rng.below(10)]).collect();
        match i % 6 {
            0 => {
                // around the u32 boundary
                let base = 4294967295u64;
                let delta = rng.below(2000) as i64 - 1000;
                s = ((base as i64 + delta) as u64).to_string();
            }
            1 => {
                let p = rng.below(s.len() + 1);
                let junk: Vec<char> = "+- a_.,x\u{663}".chars().collect();
                let mut v: Vec<char> = s.chars().collect();
                v.insert(p, junk[rng.below(junk.len())]);
                s = v.into_iter().collect();
            }
            _ => {}
        }
        emit_num(out, &s);
    }
    out.note(
        "domain_expr",
        "expression parser: repo unit-test strings; nesting depth 1..10000 (limit 403 = MAX_RECURSION_DEPTH + 1) with both brace kinds; width to 20000; all strings of length <= 5 over a(){},; random valid trees and their mutations (delete/insert/replace/swap/truncate, non-ASCII); checksummed trees; 1 MB inputs (verdict only); parse_num 0..1100, u32 boundary, junk; RAW TEXT corpus (rawtext.rs, ~64k strings that no Display produces: every string of length 0..3 over 20 symbols, checksum lengths 0..9, '#' at every position, nesting +-1 around 403 / tree height 402 / tap depth 128 / multi 20 / multi_a 999, every character class substituted and inserted at every position of 41 templates, fragment-name look-alikes truncated/extended by one character, numbers with leading zeros / signs / every length around u32::MAX, 2^31, 2^22, 500000000 in every numeric position) through Tree::from_str (model-compared) and through 42 text entry points under catch_unwind (every FromStr incl. the inner descriptor types, WalletPolicy and the three key types, from_str_insane, from_str_with_validation_params, FromTree::from_tree on the parsed tree, parse_descriptor, verify_checksum, Engine::input, parse_num, parse_num_nonzero); TreeIterItem accessors/iterators checked against the node table on every accepted tree; parse_num_nonzero model-compared; designated must-reject strings (one reason each)".into(),
    );
}

pub fn impl_parsenum_nz(s: &str) -> String {
    use miniscript::expression::parse_num_nonzero;
    use std::num::IntErrorKind;
    let r = catch_unwind(AssertUnwindSafe(|| match parse_num_nonzero(s, "ctx") {
        Ok(n) => n.to_string(),
        Err(ParseNumError::InvalidLeadingDigit(_)) => "ERR:InvalidLeadingDigit".to_string(),
        Err(ParseNumError::IllegalZero { .. }) => "ERR:IllegalZero".to_string(),
        Err(ParseNumError::StdParse(e)) => match e.kind() {
            IntErrorKind::Empty => "ERR:Empty".to_string(),
            IntErrorKind::InvalidDigit => "ERR:InvalidDigit".to_string(),
            IntErrorKind::PosOverflow => "ERR:PosOverflow".to_string(),
            _ => "ERR:OtherInt".to_string(),
        },
    }));
    r.unwrap_or_else(|_| "PANIC".into())
}

/// the accessors and iterators of `TreeIterItem` agree with the node table (and do not panic)
fn tree_api_verdict(s: &str) -> String {
    let r = catch_unwind(AssertUnwindSafe(|| -> String {
        let tree = match Tree::from_str(s) {
            Ok(t) => t,
            Err(_) => return "rejected".into(),
        };
        let root = tree.root();
        // node table through the child links (as `dump`)
        let mut items = vec![];
        let mut stack = vec![root];
        while let Some(it) = stack.pop() {
            items.push(it);
            let kids: Vec<_> = it.children().collect();
            for k in kids.into_iter().rev() {
                stack.push(k);
            }
        }
        let n = items.len();
        for (i, it) in items.iter().enumerate() {
            if it.index() != i { return format!("index:{}", i); }
        }
        // iterators of the root
        let pre: Vec<usize> = root.pre_order_iter().map(|x| x.index()).collect();
        if pre != (0..n).collect::<Vec<_>>() { return "pre_order_iter".into(); }
        let post: Vec<usize> = root.rtl_post_order_iter().map(|x| x.index()).collect();
        if post != (0..n).rev().collect::<Vec<_>>() { return "rtl_post_order_iter".into(); }
        if root.pre_order_iter().len() != n { return "exact-size".into(); }
        {
            let mut it = root.pre_order_iter();
            let _ = it.next();
            it.skip_descendants();
            if it.next().is_some() { return "skip_descendants-root".into(); }
            let mut it0 = root.pre_order_iter();
            it0.skip_descendants(); // before any item: skips everything
            if it0.next().is_some() { return "skip_descendants-fresh".into(); }
        }
        let mut any_curly = false;
        // subtree sizes, bottom-up
        let mut size = vec![1usize; n];
        for i in (0..n).rev() {
            if let Some(p) = items[i].parent() { size[p.index()] += size[i]; }
        }
        for (i, it) in items.iter().enumerate() {
            let kids: Vec<_> = it.children().collect();
            if kids.len() != it.n_children() { return format!("n_children:{}", i); }
            if (it.parens() == Parens::None) != kids.is_empty() { return format!("parens:{}", i); }
            if it.parens() == Parens::Curly { any_curly = true; }
            for (j, k) in kids.iter().enumerate() {
                if k.parent().map(|p| p.index()) != Some(i) { return format!("parent:{}", k.index()); }
                if k.is_first_child() != (j == 0) { return format!("is_first_child:{}", k.index()); }
                let sib = k.right_sibling().map(|x| x.index());
                if sib != kids.get(j + 1).map(|x| x.index()) { return format!("right_sibling:{}", k.index()); }
            }
            if it.first_child().map(|x| x.index()) != kids.first().map(|x| x.index()) { return format!("first_child:{}", i); }
            if it.children_pos() != it.name_pos() + it.name().len() + 1 { return format!("children_pos:{}", i); }
            if s.get(it.name_pos()..it.name_pos() + it.name().len()) != Some(it.name()) { return format!("name_pos:{}", i); }
            // sub-iterators
            let sub: Vec<usize> = it.pre_order_iter().map(|x| x.index()).collect();
            if sub != (i..i + size[i]).collect::<Vec<_>>() { return format!("sub-pre_order:{}", i); }
            // name_separated: at most one separator
            for sep in [':', '@'] {
                let cnt = it.name().matches(sep).count();
                match it.name_separated(sep) {
                    Ok((None, rest)) => if cnt != 0 || rest != it.name() { return format!("name_separated:{}", i); },
                    Ok((Some(pre), rest)) => if cnt != 1 || format!("{}{}{}", pre, sep, rest) != it.name() { return format!("name_separated:{}", i); },
                    Err(_) => if cnt < 2 { return format!("name_separated-err:{}", i); },
                }
            }
            if it.verify_n_children("x", kids.len()..=kids.len()).is_err() { return format!("verify_n_children:{}", i); }
            if it.verify_n_children("x", kids.len() + 1..).is_ok() { return format!("verify_n_children-lo:{}", i); }
            if it.verify_binary("x").is_ok() != (kids.len() == 2) { return format!("verify_binary:{}", i); }
            if it.verify_toplevel("x", 1..).is_ok() && (it.name() != "x" || kids.is_empty() || it.parens() == Parens::Curly) { return format!("verify_toplevel:{}", i); }
            // number-reading helpers: results are not judged, they must not panic
            let _ = it.verify_after();
            let _ = it.verify_older();
            let _ = it.verify_terminal::<String>("x");
            let _ = it.verify_terminal_parent::<String>("x", "y");
            let _ = it.verify_threshold::<20, _, (), miniscript::Error>(|_| Ok(()));
            let _ = it.verify_threshold::<0, _, (), miniscript::Error>(|_| Ok(()));
        }
        if root.verify_no_curly_braces().is_ok() == any_curly { return "verify_no_curly_braces".into(); }
        "consistent".into()
    }));
    r.unwrap_or_else(|_| "PANIC".into())
}

/// rule R2: strings refused TODAY for exactly one reason each; judged `must be rejected`
const MUST_REJECT: &[(&str, &str)] = &[
    ("UnmatchedOpenParen", "a(b"), ("UnmatchedOpenParen", "a{b"), ("UnmatchedOpenParen", "a(b(c)"),
    ("UnmatchedCloseParen", "a)"), ("UnmatchedCloseParen", "a}"),
    ("MismatchedParens", "a(b}"), ("MismatchedParens", "a{b)"),
    ("TrailingCharacter", "a(b)c"), ("TrailingCharacter", "a(b),"), ("TrailingCharacter", "a,b"), ("TrailingCharacter", "a(b))"),
    ("TrailingCharacter", ","), ("TrailingCharacter", "a,"), ("TrailingCharacter", "a(b),c"), ("TrailingCharacter", "a(b)("),
    ("ExpectedParenOrComma", "a(b(c)d)"), ("ExpectedParenOrComma", "a(b(c)(d))"),
    ("MaxRecursionDepthExceeded", "@nest404"),
    ("InvalidCharacter", "a(\u{e9})"), ("InvalidCharacter", "a\u{7f}"), ("InvalidCharacter", "a\u{0}b"), ("InvalidCharacter", "a(b)\n"),
    ("InvalidChecksumLength", "a(b)#"), ("InvalidChecksumLength", "a(b)#qqqqqqq"), ("InvalidChecksumLength", "a(b)#qqqqqqqqq"),
    ("InvalidChecksum", "a(b)#qqqqqqqq"), ("InvalidChecksum", "@upper"), ("InvalidChecksum", "@onechar"),
];

/// the raw text channel through the expression parser (C lines) and through EVERY text entry
/// point under catch_unwind (J lines)
pub fn run_raw(out: &mut Out) {
    quiet_panics();
    let corpus = rawtext::raw_corpus();
    let mut per_class: std::collections::BTreeMap<&str, usize> = Default::default();
    for (class, s) in &corpus {
        *per_class.entry(class).or_insert(0) += 1;
        emit_tree(out, s);
        let v = tree_api_verdict(s);
        if v != "rejected" {
            out.line(&format!("J treeapi {} {}", hex(s), v), "ok");
        }
    }
    for (class, n) in &per_class {
        out.note(&format!("raw_{}", class), n.to_string());
    }
    // every entry point
    let routes = rawtext::routes();
    for (rname, f) in &routes {
        let tag = rname.replace(' ', "");
        let mut agg: std::collections::BTreeMap<&str, (u64, u64, u64)> = Default::default();
        for (class, s) in &corpus {
            let r = rawtext::guarded(|| f(s));
            let e = agg.entry(class).or_insert((0, 0, 0));
            e.0 += 1;
            match r {
                None => {
                    e.1 += 1;
                    if e.1 <= 20 {
                        out.line(&format!("J nopanic raw:{} {} PANIC", tag, hex(s)), "ok");
                    }
                }
                Some(true) => e.2 += 1,
                Some(false) => {}
            }
        }
        for (class, (n, npanic, nacc)) in agg {
            out.line(&format!("J nopanicagg {} {} {} {}", class, tag, n, npanic), "ok");
            *out.hist.entry(format!("raw accepted {} {}", class, tag)).or_insert(0) += nacc;
        }
    }
    out.note("raw_routes", routes.len().to_string());
    // numbers: parse_num / parse_num_nonzero against the model
    for n in rawtext::number_strings() {
        emit_num(out, &n);
        out.line(&format!("C parsenumnz {}", hex(&n)), &impl_parsenum_nz(&n));
    }
    // designated refused-today strings
    for (reason, s) in MUST_REJECT {
        let s: String = match *s {
            "@nest404" => nest('(', ')', 404, "x"),
            "@upper" => { let cs = impl_checksum("a(b)"); format!("a(b)#{}", cs.to_ascii_uppercase()) }
            "@onechar" => { let cs = impl_checksum("a(b)"); let mut c: Vec<char> = cs.chars().collect(); if !c.is_empty() { c[0] = if c[0] == 'q' { 'p' } else { 'q' }; } format!("a(b)#{}", c.into_iter().collect::<String>()) }
            x => x.to_string(),
        };
        let a = impl_exprtree(&s);
        let verdict = if a.starts_with("ok:") { "accepted".to_string() } else if a == "PANIC" { "PANIC".to_string() } else { "rejected".to_string() };
        let got = a.split(':').nth(if a.starts_with("ERR:Checksum") { 2 } else { 1 }).unwrap_or("").to_string();
        if verdict == "rejected" && &got != reason {
            out.count(&format!("observation: must-reject {} refused as {}", reason, got));
        }
        out.line(&format!("J mustreject Tree {} {} {}", reason, hex(&s), verdict), "ok");
        emit_tree(out, &s);
    }
}

pub fn run(out: &mut Out, thorough: bool, seed: u64) {
    let mut rng = Rng(seed ^ 0xC11E);
    run_expr(out, thorough, &mut rng);
    run_raw(out);
}

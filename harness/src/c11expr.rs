//! C11 (expression parser): `expression::Tree::from_str` and `expression::parse_num` never
//! panic, and agree with the Lean model (which makes every panic site explicit) on accept/reject,
//! error kind + position and the complete node table of accepted trees.
use std::panic::{catch_unwind, AssertUnwindSafe};
use std::time::Instant;

use miniscript::expression::{parse_num, Parens, Tree};
use miniscript::{Error, ParseError, ParseNumError, ParseTreeError};

use crate::c10::{hex, impl_checksum, quiet_panics};
use crate::common::{Out, Rng};

fn opt(i: Option<usize>) -> String { i.map(|n| n.to_string()).unwrap_or_else(|| "-".into()) }

fn tree_err(e: &ParseTreeError) -> String {
    use miniscript::descriptor::checksum::Error as CsError;
    match e {
        ParseTreeError::Checksum(c) => format!(
            "ERR:Checksum:{}",
            match c {
                CsError::InvalidCharacter { .. } => "InvalidCharacter",
                CsError::InvalidChecksumLength { .. } => "InvalidChecksumLength",
                CsError::InvalidChecksum { .. } => "InvalidChecksum",
            }
        ),
        ParseTreeError::MaxRecursionDepthExceeded { actual, .. } => {
            format!("ERR:MaxRecursionDepthExceeded:{}", actual)
        }
        ParseTreeError::ExpectedParenOrComma { pos, .. } => format!("ERR:ExpectedParenOrComma:{}", pos),
        ParseTreeError::UnmatchedOpenParen { pos, .. } => format!("ERR:UnmatchedOpenParen:{}", pos),
        ParseTreeError::UnmatchedCloseParen { pos, .. } => format!("ERR:UnmatchedCloseParen:{}", pos),
        ParseTreeError::MismatchedParens { open_pos, close_pos, .. } => {
            format!("ERR:MismatchedParens:{}:{}", open_pos, close_pos)
        }
        ParseTreeError::TrailingCharacter { pos, .. } => format!("ERR:TrailingCharacter:{}", pos),
        _ => "ERR:Other".to_string(),
    }
}

/// canonical dump of the flat node table through the public accessors
fn dump(tree: &Tree) -> String {
    let root = tree.root();
    let mut parts: Vec<String> = vec![];
    let mut n = 0usize;
    // explicit DFS over first_child / right_sibling: pre-order = index order
    let mut stack = vec![root];
    while let Some(item) = stack.pop() {
        n += 1;
        let last_child = item.children().last().map(|c| c.index());
        parts.push(format!(
            "{}.{}.{}.{}.{}.{}.{}",
            item.name_pos(),
            item.name().len(),
            match item.parens() {
                Parens::None => "n",
                Parens::Round => "r",
                Parens::Curly => "c",
            },
            item.n_children(),
            opt(item.parent().map(|p| p.index())),
            opt(last_child),
            opt(item.right_sibling().map(|p| p.index())),
        ));
        debug_assert_eq!(item.index() + 1, n);
        let kids: Vec<_> = item.children().collect();
        for k in kids.into_iter().rev() {
            stack.push(k);
        }
    }
    format!("ok:{}:{}", n, parts.join(";"))
}

pub fn impl_exprtree(s: &str) -> String {
    let r = catch_unwind(AssertUnwindSafe(|| match Tree::from_str(s) {
        Ok(t) => dump(&t),
        Err(Error::Parse(ParseError::Tree(e))) => tree_err(&e),
        Err(_) => "ERR:Other".to_string(),
    }));
    r.unwrap_or_else(|_| "PANIC".into())
}

pub fn impl_parsenum(s: &str) -> String {
    use std::num::IntErrorKind;
    let r = catch_unwind(AssertUnwindSafe(|| match parse_num(s) {
        Ok(n) => n.to_string(),
        Err(ParseNumError::InvalidLeadingDigit(_)) => "ERR:InvalidLeadingDigit".to_string(),
        Err(ParseNumError::IllegalZero { .. }) => "ERR:IllegalZero".to_string(),
        Err(ParseNumError::StdParse(e)) => match e.kind() {
            IntErrorKind::Empty => "ERR:Empty".to_string(),
            IntErrorKind::InvalidDigit => "ERR:InvalidDigit".to_string(),
            IntErrorKind::PosOverflow => "ERR:PosOverflow".to_string(),
            _ => "ERR:OtherInt".to_string(),
        },
    }));
    r.unwrap_or_else(|_| "PANIC".into())
}

/// only accept/reject/panic (for inputs too large to ship through the line protocol)
fn verdict_only(s: &str) -> (&'static str, u128) {
    let t0 = Instant::now();
    let r = catch_unwind(AssertUnwindSafe(|| Tree::from_str(s).is_ok()));
    let ms = t0.elapsed().as_millis();
    (
        match r {
            Ok(true) => "accepted",
            Ok(false) => "rejected",
            Err(_) => "PANIC",
        },
        ms,
    )
}

fn emit_tree(out: &mut Out, s: &str) {
    let a = impl_exprtree(s);
    let kind = if a.starts_with("ok:") {
        "accepted".to_string()
    } else {
        a.split(':').take(2).collect::<Vec<_>>().join(":")
    };
    out.count(&format!("exprtree {}", kind));
    let verdict = if a == "PANIC" { "PANIC" } else if a.starts_with("ok:") { "accepted" } else { "rejected" };
    out.line(&format!("C exprtree {}", hex(s)), &a);
    out.line(&format!("J nopanic exprtree {} {}", hex(s), verdict), "ok");
}

fn emit_num(out: &mut Out, s: &str) {
    let a = impl_parsenum(s);
    let verdict = if a == "PANIC" { "PANIC" } else if a.starts_with("ERR") { "rejected" } else { "accepted" };
    out.count(&format!("parsenum {}", if a.starts_with("ERR") { a.as_str() } else { verdict }));
    out.line(&format!("C parsenum {}", hex(s)), &a);
    out.line(&format!("J nopanic parsenum {} {}", hex(s), verdict), "ok");
}

const NAME_CHARS: &str = "abcdefghijklmnopqrstuvwxyzABCDEFGHIJKLMNOPQRSTUVWXYZ0123456789_:@'/*[]<>;.-+!$%&=?^|~` \"\\";

fn rand_name(rng: &mut Rng) -> String {
    let cs: Vec<char> = NAME_CHARS.chars().collect();
    let len = match rng.below(10) {
        0 => 0,
        1..=6 => 1 + rng.below(6),
        _ => 1 + rng.below(70),
    };
    (0..len).map(|_| { let m = if rng.below(4) == 0 { cs.len() } else { 62 }; cs[rng.below(m)] }).collect()
}

/// random well-formed expression of at most `budget` nodes and `depth` levels
fn rand_expr(rng: &mut Rng, budget: &mut usize, depth: usize, s: &mut String) {
    s.push_str(&rand_name(rng));
    if *budget == 0 || depth == 0 || rng.below(3) == 0 {
        return;
    }
    let curly = rng.below(5) == 0;
    s.push(if curly { '{' } else { '(' });
    let n = 1 + rng.below(4);
    for i in 0..n {
        if i > 0 {
            s.push(',');
        }
        if *budget > 0 {
            *budget -= 1;
        }
        rand_expr(rng, budget, depth - 1, s);
    }
    s.push(if curly { '}' } else { ')' });
}

fn nest(open: char, close: char, depth: usize, leaf: &str) -> String {
    let mut s = String::new();
    for _ in 0..depth {
        s.push('a');
        s.push(open);
    }
    s.push_str(leaf);
    for _ in 0..depth {
        s.push(close);
    }
    s
}

fn mutate(rng: &mut Rng, s: &str) -> String {
    let mut v: Vec<char> = s.chars().collect();
    let specials: Vec<char> = "(){},(){},(){},#".chars().collect();
    let exotic: Vec<char> = vec!['\u{0}', '\u{7f}', '\u{e9}', '\u{20ac}', '\u{1f496}', '\n', '\u{85}', '\u{ff08}'];
    let n = 1 + rng.below(3);
    for _ in 0..n {
        let choice = rng.below(8);
        if v.is_empty() {
            v.push(specials[rng.below(specials.len())]);
            continue;
        }
        let p = rng.below(v.len());
        match choice {
            0 => {
                v.remove(p);
            }
            1 => v.insert(p, specials[rng.below(specials.len())]),
            2 => v[p] = specials[rng.below(specials.len())],
            3 => v.insert(p, exotic[rng.below(exotic.len())]),
            4 => {
                let q = rng.below(v.len());
                v.swap(p, q);
            }
            5 => v.truncate(p),
            6 => {
                let c = v[p];
                v.insert(p, c);
            }
            _ => v[p] = char::from_u32(32 + rng.below(95) as u32).unwrap(),
        }
    }
    v.into_iter().collect()
}

pub fn run_expr(out: &mut Out, thorough: bool, rng: &mut Rng) {
    quiet_panics();
    // hand-written cases (the repo's unit tests and their neighbours)
    let fixed = [
        "", "a", "thresh", "thresh,", "thresh,thresh", "thresh()thresh()", "thresh()", "thresh(a()b)",
        "thresh()xyz", "a(", ")", "x(y))", "a{", "}", "x(y)}", "x{y)", "x(y}", "a{b(c),d}", "(", "{", ",",
        "()", "{}", "(,)", "(,,)", "a(,)", "a(b,)", "a(,b)", "a((", "a(()", "a(())", "a(()())", "a(b)(c)", "a(b),",
        "a(b),c", "a(b)c", "a(b(c)d)", "a(b(c),d)", "a(b(c)),", "((((", "))))", "a)b", "a}b", "a,b", "a(b}c", "a{b)c",
        "a(b{c}d)", "a(b{c},d)", "a({})", "a{()}", "a{(})", "a({)}", " ", "a b", "a(b c)", "\"", "\\", "a#", "a#b",
        "a(b)#", "a(b)#12345678", "a(b)#qqqqqqqq", "#", "##", "é", "a(é)", "a(b)\u{1f496}", "\u{0}", "a(\u{7f})", "a(b)\n",
        "(a)", "((a))", "(a,b)", "a(b)(", "a(b))", "a(b)}", "a(b){", "a(b),(", "a(b,c))", "a(b,(c))", "a(b,(c)d)",
    ];
    for s in fixed {
        emit_tree(out, s);
    }
    // valid strings with (in)valid checksums
    for body in ["a(b,c)", "wsh(multi(2,A,B))", "tr(K,{pk(A),pk(B)})", "a", ""] {
        let mut cs = impl_checksum(body);
        if cs.len() != 8 || !cs.is_ascii() {
            cs = "qqqqqqqq".to_string(); // engine failed; reported by the C10 check
        }
        emit_tree(out, &format!("{}#{}", body, cs));
        emit_tree(out, &format!("{}#{}", body, "qqqqqqqq"));
        emit_tree(out, &format!("{}#{}", body, &cs[..7]));
        emit_tree(out, &format!("{}#{}x", body, cs));
        emit_tree(out, &format!("{}#{}#{}", body, cs, impl_checksum(&format!("{}#{}", body, cs))));
    }
    // nesting around the limit (MAX_RECURSION_DEPTH + 1 = 403 since /repo 4d088e26)
    for &(o, c) in &[('(', ')'), ('{', '}')] {
        for d in [1usize, 2, 127, 128, 129, 400, 401, 402, 403, 404, 405, 500, 1000, 10_000] {
            for leaf in ["x", ""] {
                emit_tree(out, &nest(o, c, d, leaf));
            }
            // the depth limit itself: well-formed nesting is accepted iff depth <= 403
            let (v, _) = verdict_only(&nest(o, c, d, "x"));
            out.line(&format!("J depthlimit {} {} {}", if o == '(' { "round" } else { "curly" }, d, v), "ok");
        }
        // unbalanced deep strings
        for d in [401usize, 402, 403, 404, 5000] {
            let full = nest(o, c, d, "x");
            emit_tree(out, &full[..full.len() - 1]); // one closer missing
            emit_tree(out, &format!("{}{}", full, c)); // one closer too many
            emit_tree(out, &full[..d * 2 + 1]); // only openers
            emit_tree(out, &full[d * 2..]); // only closers
        }
    }
    // alternating brace kinds at depth, mismatches at depth
    for lim in [402usize, 403, 404] {
        let mut s = String::new();
        for i in 0..lim {
            s.push('a');
            s.push(if i % 2 == 0 { '(' } else { '{' });
        }
        let opened = s.clone();
        for i in (0..lim).rev() {
            s.push(if i % 2 == 0 { ')' } else { '}' });
        }
        emit_tree(out, &s);
        let mut bad = opened.clone();
        for _ in 0..lim {
            bad.push(')');
        }
        emit_tree(out, &bad);
    }
    // very wide nodes
    for n in [1usize, 2, 3, 100, 1000, 20_000] {
        let kids: Vec<String> = (0..n).map(|i| format!("k{}", i % 7)).collect();
        emit_tree(out, &format!("w({})", kids.join(",")));
        emit_tree(out, &format!("w{{{}}}", vec![""; n].join(",")));
        let sub: Vec<String> = (0..n.min(3000)).map(|i| format!("f(x{})", i % 3)).collect();
        emit_tree(out, &format!("w({})", sub.join(",")));
    }
    // inputs too large for the line protocol: verdict + time only
    let big: Vec<(String, String)> = vec![
        ("deep-round-100000".into(), nest('(', ')', 100_000, "x")),
        ("deep-curly-1000000".into(), nest('{', '}', 1_000_000, "")),
        ("open-only-1000000".into(), "(".repeat(1_000_000)),
        ("close-only-1000000".into(), ")".repeat(1_000_000)),
        ("commas-1000000".into(), format!("a({})", ",".repeat(1_000_000))),
        ("wide-500000".into(), format!("a({})", vec!["b(c)"; 500_000].join(","))),
        ("name-2000000".into(), "n".repeat(2_000_000)),
        ("deep-403-wide".into(), nest('(', ')', 402, &format!("w({})", vec!["x"; 100_000].join(",")))),
        ("deep-404-wide".into(), nest('(', ')', 403, &format!("w({})", vec!["x"; 100_000].join(",")))),
    ];
    let mut max_ms = 0u128;
    for (desc, s) in &big {
        let (v, ms) = verdict_only(s);
        max_ms = max_ms.max(ms);
        out.line(&format!("J nopanic exprtree gen:{}:{}bytes {}", desc, s.len(), v), "ok");
        // linear-time bound, very generous (observed: a few ms per MB)
        let speed = if ms <= 10_000 { "fast" } else { "SLOW" };
        out.line(&format!("J nohang exprtree gen:{}:{}bytes {}", desc, s.len(), speed), "ok");
    }
    out.note("max_ms_large_input", format!("{}", max_ms));

    // random valid trees, and mutations of them
    let n_valid = if thorough { 60_000 } else { 4_000 };
    let mut valid: Vec<String> = vec![];
    for i in 0..n_valid {
        let mut s = String::new();
        let mut budget = 1 + rng.below(if i % 10 == 0 { 200 } else { 25 });
        let depth = 1 + rng.below(12);
        rand_expr(rng, &mut budget, depth, &mut s);
        emit_tree(out, &s);
        if i % 3 == 0 {
            let cs = impl_checksum(&s);
            if cs.len() == 8 {
                emit_tree(out, &format!("{}#{}", s, cs));
            }
        }
        valid.push(s);
    }
    let n_mut = if thorough { 600_000 } else { 40_000 };
    for _ in 0..n_mut {
        let base = &valid[rng.below(valid.len())];
        let m = mutate(rng, base);
        emit_tree(out, &m);
    }
    // random strings over the structural alphabet (dense in syntax errors), all strings up to length 5 over "a(){},"
    let alpha: Vec<char> = "a(){},".chars().collect();
    let max_len = if thorough { 7 } else { 5 };
    for len in 0..=max_len {
        let total = alpha.len().pow(len as u32);
        for mut code in 0..total {
            let mut s = String::new();
            for _ in 0..len {
                s.push(alpha[code % alpha.len()]);
                code /= alpha.len();
            }
            emit_tree(out, &s);
        }
    }
    let n_rand = if thorough { 400_000 } else { 30_000 };
    let alpha2: Vec<char> = "ab(){},,(())#".chars().collect();
    for _ in 0..n_rand {
        let len = 6 + rng.below(30);
        let s: String = (0..len).map(|_| alpha2[rng.below(alpha2.len())]).collect();
        emit_tree(out, &s);
    }

    // parse_num
    let nums = [
        "0", "1", "9", "10", "00", "01", "06", "0000", "+6", "-6", "+0", "-0", "", " ", "1 ", " 1", "1a", "a", "a1",
        "4294967295", "4294967296", "4294967294", "42949672950", "04294967295", "99999999999999999999",
        "18446744073709551616", "1_000", "1e3", "0x10", "１", "٣", "1٣", "2147483648", "500000000", "499999999",
        "12345678", "123456789", "1234567890", "9999999999", "429496729a", "42949672960a", "4294967296a", "1\u{0}",
    ];
    for s in nums {
        emit_num(out, s);
    }
    for n in 0..=1100u32 {
        emit_num(out, &n.to_string());
    }
    let n_num = if thorough { 300_000 } else { 20_000 };
    let digits: Vec<char> = "0123456789".chars().collect();
    for i in 0..n_num {
        let len = 1 + rng.below(12);
        let mut s: String = (0..len).map(|_| digits[rng.below(10)]).collect();
        match i % 6 {
            0 => {
                // around the u32 boundary
                let base = 4294967295u64;
                let delta = rng.below(2000) as i64 - 1000;
                s = ((base as i64 + delta) as u64).to_string();
            }
            1 => {
                let p = rng.below(s.len() + 1);
                let junk: Vec<char> = "+- a_.,x\u{663}".chars().collect();
                let mut v: Vec<char> = s.chars().collect();
                v.insert(p, junk[rng.below(junk.len())]);
                s = v.into_iter().collect();
            }
            _ => {}
        }
        emit_num(out, &s);
    }
    out.note(
        "domain_expr",
        "expression parser: repo unit-test strings; nesting depth 1..10000 (limit 403 = MAX_RECURSION_DEPTH + 1) with both brace kinds; width to 20000; all strings of length <= 5 over a(){},; random valid trees and their mutations (delete/insert/replace/swap/truncate, non-ASCII); checksummed trees; 1 MB inputs (verdict only); parse_num 0..1100, u32 boundary, junk".into(),
    );
}

pub fn run(out: &mut Out, thorough: bool, seed: u64) {
    let mut rng = Rng(seed ^ 0xC11E);
    run_expr(out, thorough, &mut rng);
}

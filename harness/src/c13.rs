//! C13: the transaction interpreter (`miniscript::interpreter`) agrees with real script
//! execution.  For every descriptor case and every satisfaction the library produces, and
//! for mutations of the produced (scriptSig, witness) and lock-time / sequence / version
//! values around the script's time locks, the REAL interpreter is run with REAL signature
//! verification over a real transaction, and
//!   * `J interp-accepts-own`  the library's own satisfaction of a sane descriptor is accepted;
//!   * `J interp-sound`        interpreter accepts  =>  Lean `verifySpend` accepts;
//!   * `J constraints`         the reported `SatisfiedConstraint`s are exactly the checks an
//!                             instrumented Lean Script execution performs successfully;
//!   * `C interp`              the Lean big-step model of the interpreter (`Model/Interp.lean`)
//!                             returns the same verdict / error class / ordered constraints.
//!   * `J interp-sound-m` / `J constraints-m` / `C interp-m`   the same three for the other two
//!                             entry points: `iter_assume_sigs` (mode `assume`: every PARSEABLE
//!                             signature counts as valid, on both sides) and `iter_custom` with a
//!                             custom verifier (mode `ban:<pk>`: real verification minus one key);
//!   * `J policy` / `J policy-key`  the reported constraints satisfy the spending condition of the
//!                             executed miniscript (`Spec/MsSem.sem`) / name exactly the output's key;
//!   * `J inferred`            `inferred_descriptor()` re-encodes (Lean encoder) to the executed
//!                             script and its output script (`Spec/Outputs`) is the spent one;
//!   * `J nopanic interp-adv`  arbitrary (scriptPubKey, scriptSig, witness) shapes never panic.
//!   * mode `one:<i>:<idx>`    (`-m` lines) `Prevouts::One(i, ..)` while input `idx` of a two-input
//!                             transaction is spent (`two_inputs`): the Script-side oracle knows a
//!                             BIP143 amount only for i = idx, a BIP341 digest only for i = idx + ACP;
//!   * `C txdata-key` / `C txdata-segwit-script` / `C script-verdict`   hand-built segwit-v0 spends
//!                             with an uncompressed key (`handbuilt_segwit_keys`): valid for Script,
//!                             refused by the interpreter's own context rule (model level).
//!   * `J accessors` / `C verify-sig` / `C verify-sig-oob` / `J interp-reuse`   (`routes`) the remaining
//!                             public routes on every base spend: is_legacy / is_segwit_v0 /
//!                             is_taproot_v1_* / sig_type against Spec/Spend's classification,
//!                             `verify_sig` against the independent oracle, a second use of the object;
//!   * `raw_channel`           designated txdata no encoder produces (short inner scripts, template
//!                             look-alikes, control blocks with valid commitments over arbitrary leaves,
//!                             scripts the decoder refuses today for one reason each), JUDGED
//!                             (`J interp-sound(-m)`, `J constraints(-m)`), like the adversarial stream;
//!   * mutations `slot<i>:*` / `slotswap<i>:<j>`   slot-by-slot sweep of every designated satisfaction.
//! Which (pubkey, signature) pairs verify is established by this file independently of the
//! code under test (digest re-derived from the produced data, BIP341 rule for 65-byte
//! signatures applied by hand) and sent to the Lean side as oracle tables.
use std::collections::BTreeSet;

use miniscript::bitcoin::hashes::{hash160, sha256, Hash};
use miniscript::bitcoin::key::TapTweak;
use miniscript::bitcoin::script::{Instruction, PushBytesBuf};
use miniscript::bitcoin::secp256k1::{self, Message, Secp256k1, XOnlyPublicKey};
use miniscript::bitcoin::sighash::{EcdsaSighashType, Prevouts, SighashCache, TapSighashType};
use miniscript::bitcoin::taproot::{ControlBlock, LeafVersion, TapLeafHash};
use miniscript::bitcoin::{transaction, Amount, OutPoint, PublicKey, ScriptBuf, Sequence, Transaction, TxIn, TxOut, Txid, Witness};
use miniscript::interpreter::{Error as IErr, HashLockType, Interpreter, KeySigPair, SatisfiedConstraint};
use miniscript::miniscript::types::Base;
use miniscript::Descriptor;

use crate::ast::{self, hex, CtxK, Node};
use crate::common::{Out, Rng};
use crate::desc::{self, DAssets, TxSat, Wrap, DOM_LEGACY, DOM_SEGWITV0, DOM_TAPKEY, DOM_TAPSCRIPT, VALUE};
use crate::msops::{key_id_full, rel_canon};

fn secp() -> &'static Secp256k1<secp256k1::All> {
    static S: std::sync::OnceLock<Secp256k1<secp256k1::All>> = std::sync::OnceLock::new();
    S.get_or_init(Secp256k1::new)
}

/* ------------------------------------------------------------------ scriptSig <-> items */

/// elements of a push-only scriptSig (None if it contains anything else)
fn ss_items(ss: &ScriptBuf) -> Option<Vec<Vec<u8>>> {
    let mut v = vec![];
    for ins in ss.instructions() {
        match ins.ok()? {
            Instruction::PushBytes(b) => v.push(b.as_bytes().to_vec()),
            Instruction::Op(op) => {
                let c = op.to_u8();
                if (0x51..=0x60).contains(&c) { v.push(vec![c - 0x50]) } else if c == 0x4f { v.push(vec![0x81]) } else { return None }
            }
        }
    }
    Some(v)
}

/// minimal push-only script for the items (`OP_0`, `OP_1..16`, `OP_1NEGATE`, shortest push)
fn ss_build(items: &[Vec<u8>]) -> ScriptBuf {
    let mut b = Vec::new();
    for it in items {
        if it.is_empty() { b.push(0x00); }
        else if it.len() == 1 && (1..=16).contains(&it[0]) { b.push(0x50 + it[0]); }
        else if it.len() == 1 && it[0] == 0x81 { b.push(0x4f); }
        else {
            let pb = PushBytesBuf::try_from(it.clone()).unwrap();
            b.extend_from_slice(ScriptBuf::builder().push_slice(pb).into_script().as_bytes());
        }
    }
    ScriptBuf::from_bytes(b)
}

/* ------------------------------------------------------------------ running the interpreter */

fn err_class(e: &IErr) -> String {
    let cls = match e {
        IErr::EcdsaSig(_) | IErr::SchnorrSig(_) | IErr::NonStandardSighash(_) | IErr::InvalidSchnorrSighashType(_)
        | IErr::InvalidEcdsaSignature(_) | IErr::InvalidSchnorrSignature(_) | IErr::Secp(_) | IErr::SighashError(_) => "SigInvalid".to_string(),
        other => {
            let d = format!("{:?}", other);
            d.chars().take_while(|c| c.is_alphanumeric()).collect()
        }
    };
    cls
}

fn canon_constraint(c: &SatisfiedConstraint) -> String {
    fn ks(k: &KeySigPair) -> String {
        match k {
            KeySigPair::Ecdsa(pk, sig) => format!("{}:{}", hex(&pk.to_bytes()), hex(&sig.to_vec())),
            KeySigPair::Schnorr(pk, sig) => format!("{}:{}", hex(&pk.serialize()), hex(&sig.to_vec())),
        }
    }
    match c {
        SatisfiedConstraint::PublicKey { key_sig } => format!("sig:{}", ks(key_sig)),
        SatisfiedConstraint::PublicKeyHash { keyhash, key_sig } => format!("sigh:{}:{}", hex(keyhash.as_byte_array()), ks(key_sig)),
        SatisfiedConstraint::HashLock { hash, preimage } => {
            let (k, h) = match hash {
                HashLockType::Sha256(h) => ("sha256", h.to_byte_array().to_vec()),
                HashLockType::Hash256(h) => ("hash256", h.to_byte_array().to_vec()),
                HashLockType::Hash160(h) => ("hash160", h.to_byte_array().to_vec()),
                HashLockType::Ripemd160(h) => ("ripemd160", h.to_byte_array().to_vec()),
            };
            format!("hash:{}:{}:{}", k, hex(&h), hex(preimage))
        }
        SatisfiedConstraint::RelativeTimelock { n } => format!("older:{}", n.to_consensus_u32()),
        SatisfiedConstraint::AbsoluteTimelock { n } => format!("after:{}", n.to_consensus_u32()),
    }
}

pub struct Run { pub verdict: String, pub cs: Vec<String>, pub inner_script: bool }

/// which entry point / verifier drives the iterator
#[derive(Clone, Debug, PartialEq)]
pub enum Mode {
    /// `Interpreter::iter`: real signature verification
    Real,
    /// `Interpreter::iter_assume_sigs`
    Assume,
    /// `Interpreter::iter_custom` with "real verification, but never for this key"
    Ban(Vec<u8>),
    /// `Interpreter::iter` with `Prevouts::One(i, ..)` (the prevout of the SPENT input, filed under index `i`)
    One(usize),
}
impl Mode {
    fn token(&self) -> String {
        match self {
            Mode::Real => "real".into(), Mode::Assume => "assume".into(), Mode::Ban(pk) => format!("ban:{}", hex(pk)),
            Mode::One(i) => format!("one:{}", i),
        }
    }
}

fn keysig_pk(k: &KeySigPair) -> Vec<u8> {
    match k { KeySigPair::Ecdsa(pk, _) => pk.to_bytes(), KeySigPair::Schnorr(pk, _) => pk.serialize().to_vec() }
}

/// `from_txdata` + the iterator of the chosen entry point, for input `idx` of `tx` (`prevs` = the
/// outputs spent by ALL inputs)
pub fn run_interp_at(tx: &Transaction, idx: usize, prevs: &[TxOut], ss: &ScriptBuf, wit: &[Vec<u8>], mode: &Mode) -> Run {
    let witness = Witness::from_slice(wit);
    let prevout = &prevs[idx];
    let r = std::panic::catch_unwind(std::panic::AssertUnwindSafe(|| {
        let interp = match Interpreter::from_txdata(&prevout.script_pubkey, ss, &witness, tx.input[idx].sequence, tx.lock_time) {
            Ok(i) => i,
            Err(e) => return Run { verdict: format!("reject:txdata:{}", err_class(&e)), cs: vec![], inner_script: false },
        };
        let inner_script = !(interp.inferred_descriptor_string().starts_with("pk")
            || interp.inferred_descriptor_string().starts_with("wpkh")
            || interp.inferred_descriptor_string().starts_with("sh(wpkh")
            || interp.inferred_descriptor_string().starts_with("rawtr"));
        let all = Prevouts::All(prevs);
        let one;
        let prevouts: &Prevouts<TxOut> = match mode {
            Mode::One(i) => { one = Prevouts::One(*i, prevout.clone()); &one }
            _ => &all,
        };
        let iter = match mode {
            Mode::Real | Mode::One(_) => interp.iter(secp(), tx, idx, prevouts),
            Mode::Assume => interp.iter_assume_sigs(),
            Mode::Ban(pk) => {
                let (i, p, b) = (&interp, prevouts, pk.clone());
                interp.iter_custom(Box::new(move |ks: &KeySigPair| keysig_pk(ks) != b && i.verify_sig(secp(), tx, idx, p, ks)))
            }
        };
        let mut cs = vec![];
        for r in iter {
            match r {
                Ok(c) => cs.push(canon_constraint(&c)),
                Err(e) => return Run { verdict: format!("reject:{}", err_class(&e)), cs, inner_script },
            }
        }
        Run { verdict: "accept".into(), cs, inner_script }
    }));
    r.unwrap_or(Run { verdict: "PANIC".into(), cs: vec![], inner_script: false })
}

pub fn run_interp_mode(tx: &Transaction, prevout: &TxOut, ss: &ScriptBuf, wit: &[Vec<u8>], mode: &Mode) -> Run {
    run_interp_at(tx, 0, std::slice::from_ref(prevout), ss, wit, mode)
}

pub fn run_interp(tx: &Transaction, prevout: &TxOut, ss: &ScriptBuf, wit: &[Vec<u8>]) -> Run {
    run_interp_mode(tx, prevout, ss, wit, &Mode::Real)
}

/* ------------------------------------------------------------------ the other public routes of one spend */

/// sighash domain of a spend, from the bytes alone (the same classification `register_at` uses)
fn dom_of_spend(spk: &ScriptBuf, ss: &ScriptBuf, wit: &[Vec<u8>]) -> u32 {
    if spk.is_p2tr() { return if wit.len() == 1 { DOM_TAPKEY } else { DOM_TAPSCRIPT }; }
    if spk.is_p2wpkh() || spk.is_p2wsh() { return DOM_SEGWITV0; }
    if spk.is_p2sh() {
        if let Some(r) = last_push(ss) { let r = ScriptBuf::from_bytes(r); if r.is_p2wpkh() || r.is_p2wsh() { return DOM_SEGWITV0; } }
    }
    DOM_LEGACY
}

/// Routes besides the iterators, on one (accepted-by-`from_txdata`) spend:
///   `J accessors`   is_legacy / is_segwit_v0 / is_taproot_v1_key_spend / is_taproot_v1_script_spend /
///                   sig_type against Spec/Spend's classification of the output;
///   `C verify-sig`  `Interpreter::verify_sig` on every (key, parseable signature element) pair = the
///                   independent oracle (`D dsig`), `C verify-sig-oob` with an input index out of range;
///   `J interp-reuse` a second `iter()` over the SAME object, after `inferred_descriptor()` and a full
///                   `iter_assume_sigs()` pass, yields what the first one did.
fn routes(out: &mut Out, tx: &Transaction, idx: usize, prevs: &[TxOut], ss: &ScriptBuf, wit: &[Vec<u8>], pks: &[Vec<u8>], info: &str) {
    let witness = Witness::from_slice(wit);
    let spk = &prevs[idx].script_pubkey;
    let r = std::panic::catch_unwind(std::panic::AssertUnwindSafe(|| -> Option<(String, Vec<(String, String)>, bool, bool)> {
        let interp = Interpreter::from_txdata(spk, ss, &witness, tx.input[idx].sequence, tx.lock_time).ok()?;
        let b = |x: bool| if x { '1' } else { '0' };
        let flags = format!("{}{}{}{}:{}", b(interp.is_legacy()), b(interp.is_segwit_v0()), b(interp.is_taproot_v1_key_spend()), b(interp.is_taproot_v1_script_spend()),
            match interp.sig_type() { miniscript::SigType::Ecdsa => "ecdsa", miniscript::SigType::Schnorr => "schnorr" });
        // verify_sig on every pair
        let all = Prevouts::All(prevs);
        let items = ss_items(ss).unwrap_or_default();
        let mut elems: Vec<&Vec<u8>> = items.iter().chain(wit.iter()).collect();
        elems.sort(); elems.dedup();
        let mut lines: Vec<(String, String)> = vec![];
        let mut n_false = 0;
        let mut oob = false;
        let dom = dom_of_spend(spk, ss, wit);
        for e in elems {
            for pk in pks {
                let ks = if spk.is_p2tr() {
                    match (XOnlyPublicKey::from_slice(pk), miniscript::bitcoin::taproot::Signature::from_slice(e)) {
                        (Ok(x), Ok(sg)) => KeySigPair::Schnorr(x, sg), _ => continue }
                } else {
                    match (PublicKey::from_slice(pk), miniscript::bitcoin::ecdsa::Signature::from_slice(e)) {
                        (Ok(x), Ok(sg)) if pk.len() != 32 => KeySigPair::Ecdsa(x, sg), _ => continue }
                };
                // a key-path signature is checked against the OUTPUT key only
                if dom == DOM_TAPKEY && pk[..] != spk.as_bytes()[2..34] { continue; }
                let ok = interp.verify_sig(secp(), tx, idx, &all, &ks);
                let ser = match &ks { KeySigPair::Ecdsa(_, sg) => sg.to_vec(), KeySigPair::Schnorr(_, sg) => sg.to_vec() };
                if ok || n_false < 2 {
                    if !ok { n_false += 1; }
                    lines.push((format!("C verify-sig {} {} {}", dom, hex(pk), hex(&ser)), ok.to_string()));
                }
                if !oob {
                    oob = true;
                    let r = interp.verify_sig(secp(), tx, tx.input.len(), &all, &ks);
                    lines.push((format!("C verify-sig-oob {} {} {}", dom, hex(pk), hex(&ser)), r.to_string()));
                }
            }
        }
        // second use of the same object
        let collect = |it: miniscript::interpreter::Iter| -> Vec<String> {
            it.map(|r| match r { Ok(c) => canon_constraint(&c), Err(e) => format!("reject:{}", err_class(&e)) }).collect()
        };
        let first = collect(interp.iter(secp(), tx, idx, &all));
        let d1 = interp.inferred_descriptor_string();
        let _ = interp.inferred_descriptor();
        let a1 = collect(interp.iter_assume_sigs());
        let second = collect(interp.iter(secp(), tx, idx, &all));
        let a2 = collect(interp.iter_assume_sigs());
        let same = first == second && a1 == a2 && d1 == interp.inferred_descriptor_string();
        Some((flags, lines, same, true))
    }));
    match r {
        Err(_) => out.line(&format!("J nopanic interpreter-routes {} {} {} | {} PANIC", hex(spk.as_bytes()), hex(ss.as_bytes()), desc::wit_wire(wit), info), "ok"),
        Ok(None) => {}
        Ok(Some((flags, lines, same, _))) => {
            out.line(&format!("J accessors {} {} {} {} | {}", hex(spk.as_bytes()), hex(ss.as_bytes()), desc::wit_wire(wit), flags, info), "ok");
            for (l, v) in lines { out.line(&l, &v); }
            out.line(&format!("J interp-reuse {} | {}", if same { "same" } else { "diff" }, info), "ok");
        }
    }
}

/* ------------------------------------------------------------------ independent validity oracle */

fn last_push(script: &ScriptBuf) -> Option<Vec<u8>> { ss_items(script)?.last().cloned() }

const STD_SIGHASH: [u8; 6] = [1, 2, 3, 0x81, 0x82, 0x83];

/// Independent registration of everything that is cryptographically valid for this spend:
/// every (pubkey, element) pair is tried as a signature against the digest prescribed by the
/// output type for the sighash type THE SIGNATURE ITSELF names (BIP143 / legacy / BIP341);
/// 65-byte Schnorr signatures ending in 0x00 are invalid (BIP341).  Also the taproot
/// commitment of (control block, script bytes AS GIVEN) is checked and registered.
pub fn register_all(out: &mut Out, tx: &Transaction, prevout: &TxOut, ss: &ScriptBuf, wit: &[Vec<u8>], pks: &[Vec<u8>]) {
    register_at(out, tx, 0, std::slice::from_ref(prevout), ss, wit, pks)
}

/// the same for input `idx` of a transaction whose inputs spend `prevs`
pub fn register_at(out: &mut Out, tx: &Transaction, idx: usize, prevs: &[TxOut], ss: &ScriptBuf, wit: &[Vec<u8>], pks: &[Vec<u8>]) {
    let prevout = &prevs[idx];
    out.line("D clearsigs", "ok");
    let spk = &prevout.script_pubkey;
    let items = ss_items(ss).unwrap_or_default();
    // a 65-byte element ending in 0x00 is also tried as its 64-byte prefix (a statement about
    // the 64-byte signature only; the 65-byte form itself is invalid and never registered)
    let prefixes: Vec<Vec<u8>> = items.iter().chain(wit.iter()).filter(|e| e.len() == 65 && e[64] == 0).map(|e| e[..64].to_vec()).collect();
    let mut elems: Vec<&Vec<u8>> = items.iter().chain(wit.iter()).chain(prefixes.iter()).collect();
    elems.sort(); elems.dedup();
    // what `iter_assume_sigs` is entitled to treat as a signature: an element of the right SHAPE
    // (strict DER + standard sighash byte, resp. the BIP341 shapes), whatever it signs
    for e in &elems {
        let shape = if spk.is_p2tr() {
            e.len() == 64 || (e.len() == 65 && STD_SIGHASH.contains(&e[64]))
        } else {
            e.len() >= 9 && e.len() <= 73 && STD_SIGHASH.contains(&e[e.len() - 1])
                && secp256k1::ecdsa::Signature::from_der(&e[..e.len() - 1]).is_ok()
        };
        if shape { out.line(&format!("D sig - {}", hex(e)), "ok"); }
    }
    let mut cache = SighashCache::new(tx);
    let mut inner = spk.clone();
    if spk.is_p2sh() { if let Some(r) = last_push(ss) { inner = ScriptBuf::from_bytes(r); } }
    // (domain, script code, segwit?) for ECDSA
    let ecdsa_code: Option<(u32, ScriptBuf, bool)> = if inner.is_p2wpkh() {
        let h = &inner.as_bytes()[2..22];
        let mut c = vec![0x76, 0xa9, 0x14]; c.extend_from_slice(h); c.extend_from_slice(&[0x88, 0xac]);
        Some((DOM_SEGWITV0, ScriptBuf::from_bytes(c), true))
    } else if inner.is_p2wsh() {
        wit.last().map(|ws| (DOM_SEGWITV0, ScriptBuf::from_bytes(ws.clone()), true))
    } else if !spk.is_p2tr() {
        Some((DOM_LEGACY, inner.clone(), false))
    } else { None };
    if let Some((dom, code, segwit)) = ecdsa_code {
        for e in &elems {
            if e.len() < 9 || e.len() > 73 { continue; }
            let ht = e[e.len() - 1];
            if !STD_SIGHASH.contains(&ht) { continue; }
            let sig = match secp256k1::ecdsa::Signature::from_der(&e[..e.len() - 1]) { Ok(s) => s, Err(_) => continue };
            let ty = EcdsaSighashType::from_consensus(ht as u32);
            let digest: [u8; 32] = if segwit {
                match cache.p2wsh_signature_hash(idx, &code, prevout.value, ty) { Ok(h) => h.to_byte_array(), Err(_) => continue }
            } else {
                match cache.legacy_signature_hash(idx, &code, ht as u32) { Ok(h) => h.to_byte_array(), Err(_) => continue }
            };
            for pk in pks {
                if let Ok(pk_) = PublicKey::from_slice(pk) {
                    if secp().verify_ecdsa(&Message::from_digest(digest), &sig, &pk_.inner).is_ok() {
                        out.line(&format!("D dsig {} {} {}", dom, hex(pk), hex(e)), "ok");
                    }
                }
            }
        }
    }
    if spk.is_p2tr() && spk.len() == 34 {
        let prevouts: Vec<TxOut> = prevs.to_vec();
        let outkey = XOnlyPublicKey::from_slice(&spk.as_bytes()[2..34]).ok();
        // BIP341 signature parsing, by hand
        let parse = |e: &Vec<u8>| -> Option<(secp256k1::schnorr::Signature, TapSighashType)> {
            if e.len() == 64 { Some((secp256k1::schnorr::Signature::from_slice(e).ok()?, TapSighashType::Default)) }
            else if e.len() == 65 {
                let ht = e[64];
                if ht == 0 || !STD_SIGHASH.contains(&ht) { return None; }
                Some((secp256k1::schnorr::Signature::from_slice(&e[..64]).ok()?, TapSighashType::from_consensus_u8(ht).ok()?))
            } else { None }
        };
        if wit.len() == 1 {
            if let (Some(ok), Some((sig, ty))) = (outkey, parse(&wit[0])) {
                if let Ok(d) = cache.taproot_key_spend_signature_hash(idx, &Prevouts::All(&prevouts), ty) {
                    if secp().verify_schnorr(&sig, &Message::from_digest(d.to_byte_array()), &ok).is_ok() {
                        out.line(&format!("D dsig {} {} {}", DOM_TAPKEY, hex(&ok.serialize()), hex(&wit[0])), "ok");
                    }
                }
            }
        } else if wit.len() >= 2 {
            let script = ScriptBuf::from_bytes(wit[wit.len() - 2].clone());
            let cb_bytes = &wit[wit.len() - 1];
            if let (Some(ok), Ok(cb)) = (outkey, ControlBlock::decode(cb_bytes)) {
                if cb.verify_taproot_commitment(secp(), ok, &script) {
                    out.line(&format!("D tapcommit {} {} {}", hex(cb_bytes), hex(script.as_bytes()), hex(&ok.serialize())), "ok");
                }
            }
            let leaf = TapLeafHash::from_script(&script, LeafVersion::TapScript);
            for e in &elems {
                if let Some((sig, ty)) = parse(e) {
                    if let Ok(d) = cache.taproot_script_spend_signature_hash(idx, &Prevouts::All(&prevouts), leaf, ty) {
                        for pk in pks {
                            if let Ok(x) = XOnlyPublicKey::from_slice(pk) {
                                if secp().verify_schnorr(&sig, &Message::from_digest(d.to_byte_array()), &x).is_ok() {
                                    out.line(&format!("D dsig {} {} {}", DOM_TAPSCRIPT, hex(pk), hex(e)), "ok");
                                }
                            }
                        }
                    }
                }
            }
        }
    }
}

/* ------------------------------------------------------------------ signing helpers (mutation material) */

/// DER signature + sighash byte of key `id` over input `idx` of `tx` for an explicit script code
/// (BIP143 with `value` when `segwit`, the legacy digest otherwise)
fn ecdsa_sign(tx: &Transaction, idx: usize, value: Amount, code: &ScriptBuf, segwit: bool, id: u32, ty: EcdsaSighashType) -> Option<Vec<u8>> {
    let mut cache = SighashCache::new(tx);
    let digest: [u8; 32] = if segwit {
        cache.p2wsh_signature_hash(idx, code, value, ty).ok()?.to_byte_array()
    } else {
        cache.legacy_signature_hash(idx, code, ty.to_u32()).ok()?.to_byte_array()
    };
    let sig = secp().sign_ecdsa(&Message::from_digest(digest), &ast::secret(id));
    let mut v = sig.serialize_der().to_vec();
    v.push(ty.to_u32() as u8);
    Some(v)
}

struct Signer<'a> { desc: &'a Descriptor<PublicKey>, tx: &'a Transaction, idx: usize, prevs: Vec<TxOut> }

impl<'a> Signer<'a> {
    fn new(desc: &'a Descriptor<PublicKey>, tx: &'a Transaction, prevout: &TxOut) -> Self {
        Signer { desc, tx, idx: 0, prevs: vec![prevout.clone()] }
    }
    /// ECDSA signature of key `id` with sighash type `ty` over an explicit script code
    fn ecdsa_code(&self, id: u32, ty: EcdsaSighashType, code: &ScriptBuf, segwit: bool) -> Option<Vec<u8>> {
        let mut cache = SighashCache::new(self.tx);
        let digest: [u8; 32] = if segwit {
            cache.p2wsh_signature_hash(self.idx, code, self.prevs[self.idx].value, ty).ok()?.to_byte_array()
        } else {
            cache.legacy_signature_hash(self.idx, code, ty.to_u32()).ok()?.to_byte_array()
        };
        let sig = secp().sign_ecdsa(&Message::from_digest(digest), &ast::secret(id));
        let mut v = sig.serialize_der().to_vec();
        v.push(ty.to_u32() as u8);
        Some(v)
    }
    /// ECDSA signature of key `id` with sighash type `ty` for this output type
    fn ecdsa(&self, id: u32, ty: EcdsaSighashType) -> Option<Vec<u8>> {
        let (code, segwit) = desc::presign_code(self.desc)?;
        self.ecdsa_code(id, ty, &code, segwit)
    }
    /// Schnorr script-path signature of key `id` for the leaf script given as bytes
    fn schnorr_leaf(&self, id: u32, leaf_script: &[u8], ty: TapSighashType) -> Option<Vec<u8>> {
        let leaf = TapLeafHash::from_script(&ScriptBuf::from_bytes(leaf_script.to_vec()), LeafVersion::TapScript);
        let mut cache = SighashCache::new(self.tx);
        let d = cache.taproot_script_spend_signature_hash(self.idx, &Prevouts::All(&self.prevs), leaf, ty).ok()?;
        let kp = secp256k1::Keypair::from_secret_key(secp(), &ast::secret(id));
        let sig = secp().sign_schnorr_with_aux_rand(&Message::from_digest(d.to_byte_array()), &kp, &[5u8; 32]);
        let mut v = sig.as_ref().to_vec();
        if ty != TapSighashType::Default { v.push(ty as u8); }
        Some(v)
    }
    fn schnorr_key(&self, ty: TapSighashType) -> Option<Vec<u8>> {
        let tr = match self.desc { Descriptor::Tr(t) => t, _ => return None };
        let ik = key_id_full(tr.internal_key())? % 100;
        let mut cache = SighashCache::new(self.tx);
        let d = cache.taproot_key_spend_signature_hash(self.idx, &Prevouts::All(&self.prevs), ty).ok()?;
        let kp = secp256k1::Keypair::from_secret_key(secp(), &ast::secret(ik)).tap_tweak(secp(), tr.spend_info().merkle_root());
        let sig = secp().sign_schnorr_with_aux_rand(&Message::from_digest(d.to_byte_array()), &kp.to_inner(), &[5u8; 32]);
        let mut v = sig.as_ref().to_vec();
        if ty != TapSighashType::Default { v.push(ty as u8); }
        Some(v)
    }
}

/// BIP143 script code of a key-hash output for the key given as bytes
fn p2pkh_code(pk: &[u8]) -> ScriptBuf {
    let mut c = vec![0x76, 0xa9, 0x14]; c.extend_from_slice(hash160::Hash::hash(pk).as_byte_array()); c.extend_from_slice(&[0x88, 0xac]);
    ScriptBuf::from_bytes(c)
}

fn looks_like_sig(e: &[u8], tap: bool) -> bool {
    if tap { e.len() == 64 || e.len() == 65 } else { e.len() >= 60 && e.len() <= 73 && e[0] == 0x30 }
}

/* ------------------------------------------------------------------ one case */

pub struct Case<'a> {
    pub desc: &'a Descriptor<PublicKey>,
    pub node: Option<&'a Node>,     // miniscript AST when the output wraps one (for `C interp`)
    pub ctx: CtxK,
    pub key_ids: Vec<u32>,          // key ids (mod 100) occurring in the descriptor
    pub info: String,
    pub sane: bool,
    pub has_after: bool,
    pub has_older: bool,
    /// serialised key of a pkh / wpkh / sh-wpkh descriptor
    pub single_key: Option<Vec<u8>>,
}

fn pk_bytes(ids: &[u32]) -> Vec<Vec<u8>> {
    let mut v = vec![];
    for id in ids {
        v.push(ast::full_key(*id % 100).to_bytes());
        v.push(ast::full_key(*id % 100 + 100).to_bytes());
        v.push(ast::xonly_key(*id % 100).serialize().to_vec());
    }
    v
}

/// `SortedMulti` never reaches the interpreter (the script decodes to `Multi` with the keys in
/// script order): normalise the AST the same way for the model
fn interp_view(n: &Node, tap: bool) -> Node {
    use Node::*;
    let b = |x: &Node| Box::new(interp_view(x, tap));
    let sort = |v: &Vec<u32>| {
        let mut w = v.clone();
        w.sort_by_key(|id| if tap { ast::xonly_key(*id).serialize().to_vec() } else { ast::full_key(*id).inner.serialize().to_vec() });
        w
    };
    match n {
        Alt(x) => Alt(b(x)), Swap(x) => Swap(b(x)), Check(x) => Check(b(x)), DupIf(x) => DupIf(b(x)),
        Verify(x) => Verify(b(x)), NonZero(x) => NonZero(b(x)), ZeroNotEqual(x) => ZeroNotEqual(b(x)),
        AndV(x, y) => AndV(b(x), b(y)), AndB(x, y) => AndB(b(x), b(y)), OrB(x, y) => OrB(b(x), b(y)),
        OrD(x, y) => OrD(b(x), b(y)), OrC(x, y) => OrC(b(x), b(y)), OrI(x, y) => OrI(b(x), b(y)),
        AndOr(x, y, z) => AndOr(b(x), b(y), b(z)),
        Thresh(k, xs) => Thresh(*k, xs.iter().map(|x| interp_view(x, tap)).collect()),
        SortedMulti(k, v) => Multi(*k, sort(v)),
        SortedMultiA(k, v) => MultiA(*k, sort(v)),
        other => other.clone(),
    }
}

/// the stack handed to the script evaluation (bottom first), replicated from the output type
fn inner_stack(spk: &ScriptBuf, ss: &ScriptBuf, wit: &[Vec<u8>]) -> Option<Vec<Vec<u8>>> {
    let items = ss_items(ss)?;
    if spk.is_p2wsh() { let mut w = wit.to_vec(); w.pop()?; Some(w) }
    else if spk.is_p2tr() { let mut w = wit.to_vec(); w.pop()?; w.pop()?; Some(w) }
    else if spk.is_p2sh() {
        let mut it = items; let r = it.pop()?;
        if r.len() == 34 && r[0] == 0 && r[1] == 32 { let mut w = wit.to_vec(); w.pop()?; Some(w) } else { Some(it) }
    } else { Some(items) }
}

fn dom_of(ctx: CtxK) -> u32 { match ctx { CtxK::Tap => DOM_TAPSCRIPT, CtxK::Segwitv0 => DOM_SEGWITV0, _ => DOM_LEGACY } }

/// emit all judged lines for one (tx, scriptSig, witness)
thread_local! {
    /// (input index, outputs spent by all inputs) when the judged input is not input 0 of a
    /// one-input transaction
    static LOC: std::cell::RefCell<Option<(usize, Vec<TxOut>)>> = std::cell::RefCell::new(None);
}
fn loc(prevout: &TxOut) -> (usize, Vec<TxOut>) {
    LOC.with(|l| l.borrow().clone()).unwrap_or((0, vec![prevout.clone()]))
}
const X_ONE: u8 = 8;
thread_local! { static SWEEP: std::cell::Cell<bool> = std::cell::Cell::new(false); }
const X_ASSUME: u8 = 1;
const X_BAN: u8 = 2;
const X_INFERRED: u8 = 4;

fn judge(out: &mut Out, case: &Case, tx: &Transaction, prevout: &TxOut, ss: &ScriptBuf, wit: &[Vec<u8>], own: bool, tag: &str, leaf: Option<&Node>) -> bool {
    judge_x(out, case, tx, prevout, ss, wit, own, tag, leaf, 0)
}

/// lines of one entry point other than `iter`
fn judge_mode(out: &mut Out, case: &Case, tx: &Transaction, prevout: &TxOut, ss: &ScriptBuf, wit: &[Vec<u8>], head: &str, info: &str, node: Option<&Node>, mode: &Mode, own: bool) {
    let (idx, prevs) = loc(prevout);
    let run = run_interp_at(tx, idx, &prevs, ss, wit, mode);
    let m = match mode { Mode::One(i) => format!("one:{}:{}", i, idx), _ => mode.token() };
    if run.verdict == "PANIC" {
        out.line(&format!("J nopanic interpreter-{} {} | {} PANIC", m, head, info), "ok");
        return;
    }
    // valid signatures have the shape of signatures: what `iter` accepts, `iter_assume_sigs` accepts
    if own && *mode == Mode::Assume {
        out.line(&format!("J interp-accepts-own-m {} {} {} | {}", m, head, run.verdict, info), "ok");
    }
    out.line(&format!("J interp-sound-m {} {} {} | {}", m, head, run.verdict, info), "ok");
    out.count(&format!("interp[{}] verdict: {}", m.split(':').next().unwrap(), run.verdict.split(':').take(2).collect::<Vec<_>>().join(":")));
    let cs = if run.cs.is_empty() { "-".to_string() } else { run.cs.join(",") };
    if run.verdict == "accept" {
        out.line(&format!("J constraints-m {} {} {} | {}", m, head, cs, info), "ok");
    }
    if let (true, Some(n)) = (run.inner_script, node) {
        if let Some(st) = inner_stack(&prevout.script_pubkey, ss, wit) {
            let ctx = case.ctx;
            let ans = if run.verdict == "accept" { format!("accept {}", cs) } else { run.verdict.clone() };
            out.line(&format!("C interp-m {} {} {} {} {} {} {} {}", m, ctx.name(), dom_of(ctx), tx.version.0, tx.lock_time.to_consensus_u32(),
                tx.input[idx].sequence.to_consensus_u32(), interp_view(n, ctx == CtxK::Tap).wire(), desc::wit_wire(&st)), &ans);
        }
    }
}

fn judge_x(out: &mut Out, case: &Case, tx: &Transaction, prevout: &TxOut, ss: &ScriptBuf, wit: &[Vec<u8>], own: bool, tag: &str, leaf: Option<&Node>, extras: u8) -> bool {
    let (idx, prevs) = loc(prevout);
    let run = run_interp_at(tx, idx, &prevs, ss, wit, &Mode::Real);
    let pks = pk_bytes(&case.key_ids);
    register_at(out, tx, idx, &prevs, ss, wit, &pks);
    let head = format!("{} {} {} {} {} {}", tx.version.0, tx.lock_time.to_consensus_u32(), tx.input[idx].sequence.to_consensus_u32(),
        hex(prevout.script_pubkey.as_bytes()), hex(ss.as_bytes()), desc::wit_wire(wit));
    let info = format!("{} {}", case.info, tag);
    // input class (computed from the INPUT only).  The one input shape on which the interpreter
    // is still known to be more permissive than Script (older() in a version-1 transaction: the
    // interpreter never sees the version) is keyed separately; the three shapes fixed in /repo
    // (boolean script element, 65-byte Schnorr signature ending in 0x00, after() on a final input)
    // are ordinary cases now and only counted for the coverage statistics.
    let spk = &prevout.script_pubkey;
    let script_elem: Option<Vec<u8>> = if spk.is_p2wsh() { wit.last().cloned() }
        else if spk.is_p2tr() && wit.len() >= 2 { Some(wit[wit.len() - 2].clone()) }
        else if spk.is_p2sh() {
            match last_push(ss) { Some(r) if r.len() == 34 && r[0] == 0 && r[1] == 32 => wit.last().cloned(), other => other }
        } else { None };
    if matches!(&script_elem, Some(e) if e.is_empty() || e[..] == [1]) { out.count("c13 shape: boolean script element"); }
    if spk.is_p2tr() && wit.iter().any(|e| e.len() == 65 && e[64] == 0) { out.count("c13 shape: 65-byte schnorr sig ending in 00"); }
    if tx.input[idx].sequence.to_consensus_u32() == 0xffff_ffff && case.has_after { out.count("c13 shape: after() on a final input"); }
    let class = if tx.version.0 < 2 && case.has_older { "csv-tx-version-1" } else { "plain" };
    if class != "plain" && run.verdict == "accept" { out.count("c13 accepted in class csv-tx-version-1"); }
    let head = format!("{} {}", class, head);
    if run.verdict == "PANIC" {
        out.line(&format!("J nopanic interpreter {} | {} PANIC", head, info), "ok");
        return false;
    }
    if extras & (X_INFERRED | X_ONE) != 0 { routes(out, tx, idx, &prevs, ss, wit, &pks, &info); }
    if own {
        out.line(&format!("J interp-accepts-own {} {} | {}", head, run.verdict, info), "ok");
    }
    out.line(&format!("J interp-sound {} {} | {}", head, run.verdict, info), "ok");
    out.count(&format!("interp verdict: {}", run.verdict.split(':').take(2).collect::<Vec<_>>().join(":")));
    if run.verdict == "accept" {
        if (spk.is_p2wsh() || (spk.is_p2sh() && !wit.is_empty())) && wit.iter().any(|e| e.len() == 65 && e[0] == 4) {
            out.count("observation: segwit-v0 spend with an uncompressed key behind a key HASH in the witness script accepted (consensus-valid, non-standard)");
        }
        let cs = if run.cs.is_empty() { "-".to_string() } else { run.cs.join(",") };
        out.line(&format!("J constraints {} {} | {}", head, cs, info), "ok");
        // the reported constraints satisfy the spending condition of what was executed
        let is_tr = spk.is_p2tr();
        match (leaf.or(case.node), run.inner_script) {
            // a raw key hash names no key: `Spec/MsSem.sem` gives it no spending condition (what the
            // report says about it - hash160(pk) = h and a valid signature - is judged by `J constraints`)
            (Some(n), true) if n.has_rawpkh() => out.count("c13 policy: not judged (raw key hash in the script)"),
            (Some(n), true) => out.line(&format!("J policy {} {} {} | {}", case.ctx.name(), n.wire(), cs, info), "ok"),
            (None, false) if is_tr && wit.len() == 1 =>
                out.line(&format!("J policy-key {} {} | {}", hex(&spk.as_bytes()[2..34]), cs, info), "ok"),
            (None, false) if !is_tr => if let Some(k) = &case.single_key {
                out.line(&format!("J policy-key {} {} | {}", hex(k), cs, info), "ok")
            },
            // a bare `pk(K)` / `pkh(K)` miniscript IS a p2pk / p2pkh output: the interpreter takes its
            // single-key arm; the report must name exactly that key, and satisfy the miniscript
            (Some(n), false) => {
                let key = match n { Node::Check(b) => match &**b { Node::PkK(k) | Node::PkH(k) => Some(*k), _ => None }, _ => None };
                match key {
                    Some(k) if !is_tr => {
                        out.line(&format!("J policy-key {} {} | {}", hex(&ast::full_key(k).to_bytes()), cs, info), "ok");
                        out.line(&format!("J policy {} {} {} | {}", case.ctx.name(), n.wire(), cs, info), "ok");
                    }
                    _ => out.count("c13 policy: not judged (single-key arm of an unexpected node)"),
                }
            }
            _ => out.count("c13 policy: not judged (unknown leaf)"),
        }
    }
    // the other entry points
    let node_m = leaf.or(case.node);
    if extras & X_ASSUME != 0 { judge_mode(out, case, tx, prevout, ss, wit, &head, &info, node_m, &Mode::Assume, own && run.verdict == "accept"); }
    if extras & X_BAN != 0 {
        if let Some(id) = case.key_ids.first() {
            let pk = if spk.is_p2tr() { ast::xonly_key(*id).serialize().to_vec() } else { ast::full_key(*id).to_bytes() };
            judge_mode(out, case, tx, prevout, ss, wit, &head, &info, node_m, &Mode::Ban(pk), false);
        }
    }
    if extras & X_ONE != 0 {
        for i in 0..prevs.len() { judge_mode(out, case, tx, prevout, ss, wit, &head, &info, node_m, &Mode::One(i), false); }
    }
    if extras & X_INFERRED != 0 { judge_inferred(out, case, tx, prevout, ss, wit, &script_elem, &info); }
    // model correspondence (script outputs only)
    let node = leaf.or(case.node);
    if let (true, Some(n)) = (run.inner_script, node) {
        if let Some(st) = inner_stack(&prevout.script_pubkey, ss, wit) {
            let ctx = case.ctx;
            let ans = if run.verdict == "accept" {
                format!("accept {}", if run.cs.is_empty() { "-".to_string() } else { run.cs.join(",") })
            } else { run.verdict.clone() };
            out.line(&format!("C interp {} {} {} {} {} {} {}", ctx.name(), dom_of(ctx), tx.version.0, tx.lock_time.to_consensus_u32(),
                tx.input[idx].sequence.to_consensus_u32(), interp_view(n, ctx == CtxK::Tap).wire(), desc::wit_wire(&st)), &ans);
        }
    }
    run.verdict == "accept"
}

/* ------------------------------------------------------------------ inferred descriptor */

fn node_of_ms<Ctx: miniscript::ScriptContext>(ms: &miniscript::Miniscript<PublicKey, Ctx>) -> Option<Node> {
    use miniscript::Terminal as T;
    let b = |x: &std::sync::Arc<miniscript::Miniscript<PublicKey, Ctx>>| -> Option<Box<Node>> { Some(Box::new(node_of_ms(x)?)) };
    let kid = |k: &PublicKey| key_id_full(k);
    let kids = |t: &miniscript::Threshold<PublicKey, 20>| -> Option<Vec<u32>> { t.iter().map(|k| key_id_full(k)).collect() };
    Some(match &ms.node {
        T::True => Node::True, T::False => Node::False,
        T::PkK(k) => Node::PkK(kid(k)?), T::PkH(k) => Node::PkH(kid(k)?),
        T::RawPkH(h) => Node::RawPkH((0..10).chain(100..104).chain(200..210).find(|id| ast::raw_pkh(*id) == *h)?),
        T::After(n) => Node::After(n.to_consensus_u32()), T::Older(n) => Node::Older(n.to_consensus_u32()),
        T::Sha256(h) => Node::Hash(ast::HK::Sha256, crate::msops::hash_id(ast::HK::Sha256, h.as_byte_array())?),
        T::Hash256(h) => Node::Hash(ast::HK::Hash256, crate::msops::hash_id(ast::HK::Hash256, h.as_byte_array())?),
        T::Ripemd160(h) => Node::Hash(ast::HK::Ripemd160, crate::msops::hash_id(ast::HK::Ripemd160, h.as_byte_array())?),
        T::Hash160(h) => Node::Hash(ast::HK::Hash160, crate::msops::hash_id(ast::HK::Hash160, h.as_byte_array())?),
        T::Alt(x) => Node::Alt(b(x)?), T::Swap(x) => Node::Swap(b(x)?), T::Check(x) => Node::Check(b(x)?),
        T::DupIf(x) => Node::DupIf(b(x)?), T::Verify(x) => Node::Verify(b(x)?), T::NonZero(x) => Node::NonZero(b(x)?),
        T::ZeroNotEqual(x) => Node::ZeroNotEqual(b(x)?),
        T::AndV(x, y) => Node::AndV(b(x)?, b(y)?), T::AndB(x, y) => Node::AndB(b(x)?, b(y)?),
        T::AndOr(x, y, z) => Node::AndOr(b(x)?, b(y)?, b(z)?),
        T::OrB(x, y) => Node::OrB(b(x)?, b(y)?), T::OrD(x, y) => Node::OrD(b(x)?, b(y)?),
        T::OrC(x, y) => Node::OrC(b(x)?, b(y)?), T::OrI(x, y) => Node::OrI(b(x)?, b(y)?),
        T::Thresh(t) => { let mut v = vec![]; for x in t.iter() { v.push(node_of_ms(x)?); } Node::Thresh(t.k(), v) }
        T::Multi(t) => Node::Multi(t.k(), kids(t)?),
        T::SortedMulti(t) => Node::SortedMulti(t.k(), kids(t)?),
        _ => return None,
    })
}

/// `Interpreter::inferred_descriptor`: emitted for the judge as (output kind, miniscript AST or
/// key) - the Lean side re-encodes the AST with ITS encoder and rebuilds the scriptPubKey with
/// `Spec/Outputs`; both must be what was actually spent / executed
fn judge_inferred(out: &mut Out, case: &Case, tx: &Transaction, prevout: &TxOut, ss: &ScriptBuf, wit: &[Vec<u8>], script_elem: &Option<Vec<u8>>, info: &str) {
    use miniscript::descriptor::ShInner;
    let witness = Witness::from_slice(wit);
    let spk = &prevout.script_pubkey;
    let r = std::panic::catch_unwind(std::panic::AssertUnwindSafe(|| {
        let interp = Interpreter::from_txdata(spk, ss, &witness, tx.input[0].sequence, tx.lock_time).ok()?;
        Some((interp.inferred_descriptor(), interp.inferred_descriptor_string()))
    }));
    let (res, text) = match r {
        Err(_) => { out.line(&format!("J nopanic inferred_descriptor {} | {} PANIC", hex(spk.as_bytes()), info), "ok"); return; }
        Ok(None) => return,
        Ok(Some(x)) => x,
    };
    let head = format!("{} {}", hex(spk.as_bytes()), script_elem.as_ref().map(|e| hex(e)).unwrap_or("-".into()));
    let d = match res {
        Ok(d) => d,
        Err(_) => {
            // from_str applies the sanity rules: only a sane, non-taproot spend must be inferable
            if case.sane && !spk.is_p2tr() { out.line(&format!("J inferred {} none - | {} {}", head, text, info), "ok"); }
            else { out.count("c13 inferred: none (insane or taproot)"); }
            return;
        }
    };
    let item: Option<(&str, String)> = match &d {
        Descriptor::Bare(b) => node_of_ms(b.as_inner()).map(|n| ("bare", n.wire())),
        Descriptor::Pkh(p) => Some(("pkh", hex(&p.as_inner().to_bytes()))),
        Descriptor::Wpkh(p) => Some(("wpkh", hex(&p.as_inner().to_bytes()))),
        Descriptor::Wsh(w) => node_of_ms(w.as_inner()).map(|n| ("wsh", n.wire())),
        Descriptor::Sh(sh) => match sh.as_inner() {
            ShInner::Ms(ms) => node_of_ms(ms).map(|n| ("sh", n.wire())),
            ShInner::Wpkh(p) => Some(("shwpkh", hex(&p.as_inner().to_bytes()))),
            ShInner::Wsh(w) => node_of_ms(w.as_inner()).map(|n| ("shwsh", n.wire())),
        },
        Descriptor::Tr(_) => None,
    };
    match item {
        Some((kind, body)) => out.line(&format!("J inferred {} {} {} | {} {}", head, kind, body, text, info), "ok"),
        None => out.line(&format!("J inferred {} unreadable - | {} {}", head, text, info), "ok"),
    }
}

/* ------------------------------------------------------------------ adversarial shapes (no panic) */

fn rnd_bytes(rng: &mut Rng, n: usize) -> Vec<u8> { (0..n).map(|_| rng.next() as u8).collect() }

fn adv_item(rng: &mut Rng) -> Vec<u8> {
    let lens = [0usize, 1, 1, 2, 20, 32, 33, 64, 65, 71, 72, 73, 100, 521];
    let n = lens[rng.below(lens.len())];
    match rng.below(6) {
        0 => vec![1],
        1 => ast::full_key(rng.below(4) as u32).to_bytes(),
        2 => { let mut v = vec![0x30, 0x44, 0x02, 0x20]; v.extend(rnd_bytes(rng, 32)); v.extend([0x02, 0x20]); v.extend(rnd_bytes(rng, 32)); v.push(1); v }
        3 => ast::preimage(rng.below(4) as u32).to_vec(),
        _ => rnd_bytes(rng, n),
    }
}

/// arbitrary (scriptPubKey, scriptSig, witness): standard and non-standard programs, garbage redeem /
/// witness scripts, control blocks of every length 0..=100, annexes, non-miniscript scripts
fn adversarial(out: &mut Out, rng: &mut Rng, n: usize) {
    let some_script = |rng: &mut Rng| -> Vec<u8> {
        match rng.below(5) {
            0 => ast::to_ms::<PublicKey, miniscript::Segwitv0>(&Node::Check(Box::new(Node::PkK(rng.below(3) as u32)))).unwrap().encode().into_bytes(),
            1 => ast::to_ms::<PublicKey, miniscript::Segwitv0>(&Node::Multi(1, vec![0, 1])).unwrap().encode().into_bytes(),
            2 => vec![0x51],
            3 => { let l = rng.below(40); rnd_bytes(rng, l) }                       // not a script / not a miniscript
            _ => { let mut v = vec![0x63, 0x51, 0x67]; let l = rng.below(6); v.extend(rnd_bytes(rng, l)); v }  // unbalanced IF
        }
    };
    for i in 0..n {
        let mut wit: Vec<Vec<u8>> = (0..rng.below(6)).map(|_| adv_item(rng)).collect();
        let mut ss_items_: Vec<Vec<u8>> = (0..rng.below(4)).map(|_| adv_item(rng)).collect();
        let script = some_script(rng);
        let spk: Vec<u8> = match rng.below(12) {
            0 => { let mut v = vec![33]; v.extend(if rng.coin() { ast::full_key(0).to_bytes() } else { rnd_bytes(rng, 33) }); v.push(0xac); v }
            1 => { let mut v = vec![0x76, 0xa9, 0x14]; v.extend(if rng.coin() { ast::raw_pkh(0).to_byte_array().to_vec() } else { rnd_bytes(rng, 20) }); v.extend([0x88, 0xac]); v }
            2 => { // p2sh of a (garbage) redeem script, revealed in the scriptSig
                ss_items_.push(script.clone());
                let h = miniscript::bitcoin::hashes::hash160::Hash::hash(&script);
                let mut v = vec![0xa9, 0x14]; v.extend(h.to_byte_array()); v.push(0x87); v }
            3 => { // p2wsh of a (garbage) witness script
                wit.push(script.clone());
                let h = miniscript::bitcoin::hashes::sha256::Hash::hash(&script);
                let mut v = vec![0x00, 0x20]; v.extend(h.to_byte_array()); v }
            4 => { let l = [2usize, 19, 20, 21, 31, 32, 33, 40][rng.below(8)]; let mut v = vec![0x00, l as u8]; v.extend(rnd_bytes(rng, l)); v }   // v0, any length
            5 | 6 => { // v1: key path, script path with a control block of every length, annex
                let key = if rng.coin() { ast::xonly_key(rng.below(3) as u32).serialize().to_vec() } else { rnd_bytes(rng, 32) };
                if rng.below(3) != 0 {
                    wit.push(script.clone());
                    let l = i % 101;
                    let mut cb = rnd_bytes(rng, l);
                    if l > 0 { cb[0] = [0xc0u8, 0xc1, 0x50, 0xc2, 0x00][rng.below(5)]; }
                    if l >= 33 && rng.coin() { cb[1..33].copy_from_slice(&ast::xonly_key(3).serialize()); }
                    wit.push(cb);
                }
                if rng.below(4) == 0 { let l = rng.below(5); let mut a = vec![0x50]; a.extend(rnd_bytes(rng, l)); wit.push(a); }
                let mut v = vec![0x51, 0x20]; v.extend(key); v }
            7 => { let l = rng.below(41).max(2); let mut v = vec![0x50 + 1 + rng.below(16) as u8, l as u8]; v.extend(rnd_bytes(rng, l)); v }  // other witness versions
            8 => script.clone(),                          // bare: miniscript or garbage
            9 => vec![],
            10 => { let l = rng.below(60); rnd_bytes(rng, l) }
            _ => { // nested segwit with garbage
                wit.push(script.clone());
                let h = miniscript::bitcoin::hashes::sha256::Hash::hash(&script);
                let mut r = vec![0x00, 0x20]; r.extend(h.to_byte_array());
                ss_items_.clear(); ss_items_.push(r.clone());
                let hh = miniscript::bitcoin::hashes::hash160::Hash::hash(&r);
                let mut v = vec![0xa9, 0x14]; v.extend(hh.to_byte_array()); v.push(0x87); v }
        };
        // legacy outputs mostly without a witness, native segwit mostly without a scriptSig
        let sb = ScriptBuf::from_bytes(spk.clone());
        if !(sb.is_p2wsh() || sb.is_p2wpkh() || sb.is_p2tr() || sb.is_p2sh()) && rng.below(4) != 0 { wit.clear(); }
        if (sb.is_p2wsh() || sb.is_p2wpkh() || sb.is_p2tr()) && rng.below(4) != 0 { ss_items_.clear(); }
        let ss = if rng.below(8) == 0 { let l = rng.below(30); ScriptBuf::from_bytes(rnd_bytes(rng, l)) } else { ss_build(&ss_items_) };
        let tx = make_tx(if rng.below(4) == 0 { 1 } else { 2 }, rng.next() as u32, rng.next() as u32);
        let prevout = TxOut { value: Amount::from_sat(VALUE), script_pubkey: ScriptBuf::from_bytes(spk) };
        let mut verdicts = vec![];
        let mut panicked = false;
        for mode in [Mode::Real, Mode::Assume] {
            let r = run_interp_mode(&tx, &prevout, &ss, &wit, &mode);
            if r.verdict == "PANIC" { panicked = true; }
            verdicts.push(r.verdict);
        }
        let witness = Witness::from_slice(&wit);
        let r = std::panic::catch_unwind(std::panic::AssertUnwindSafe(|| {
            if let Ok(interp) = Interpreter::from_txdata(&prevout.script_pubkey, &ss, &witness, tx.input[0].sequence, tx.lock_time) {
                let _ = interp.inferred_descriptor_string();
                let _ = interp.inferred_descriptor();
                let _ = (interp.is_legacy(), interp.is_segwit_v0(), interp.is_taproot_v1_key_spend(), interp.is_taproot_v1_script_spend(), interp.sig_type());
            }
        }));
        if r.is_err() { panicked = true; }
        // judged, not only panic-free: whatever the interpreter accepts here, Script must accept
        if !panicked {
            let class = if tx.version.0 < 2 { "csv-tx-version-1" } else { "plain" };
            let head = format!("{} {} {} {} {} {} {}", class, tx.version.0, tx.lock_time.to_consensus_u32(), tx.input[0].sequence.to_consensus_u32(),
                hex(prevout.script_pubkey.as_bytes()), hex(ss.as_bytes()), desc::wit_wire(&wit));
            if verdicts[0] == "accept" || verdicts[1] == "accept" {
                register_all(out, &tx, &prevout, &ss, &wit, &pk_bytes(&[0, 1, 2, 3]));
                out.line(&format!("J interp-sound {} {} | adversarial", head, verdicts[0]), "ok");
                out.line(&format!("J interp-sound-m assume {} {} | adversarial", head, verdicts[1]), "ok");
            }
        }
        out.count(&format!("c13 adv: {}", verdicts[0].split(':').take(3).collect::<Vec<_>>().join(":")));
        out.line(&format!("J nopanic interp-adv {} {} {} {}", hex(prevout.script_pubkey.as_bytes()), hex(ss.as_bytes()), desc::wit_wire(&wit),
            if panicked { "PANIC" } else { "OK" }), "ok");
    }
}

fn make_tx(ver: i32, lt: u32, sq: u32) -> Transaction {
    let mut tx = desc::make_tx(lt, sq);
    tx.version = transaction::Version(ver);
    tx
}

fn tx_sat(desc_: &Descriptor<PublicKey>, assets: &DAssets, tx: Transaction) -> TxSat {
    let prevout = TxOut { value: Amount::from_sat(VALUE), script_pubkey: desc_.script_pubkey() };
    let tap = match desc_ {
        Descriptor::Tr(tr) => key_id_full(tr.internal_key()).map(|id| (id % 100, tr.spend_info().merkle_root())),
        _ => None,
    };
    TxSat::new(assets.clone(), tx, prevout, desc::presign_code(desc_), tap)
}

/// which leaf of a tr() descriptor a witness spends (by script bytes)
fn leaf_of<'a>(leaves: &'a [Node], wit: &[Vec<u8>]) -> Option<&'a Node> {
    if wit.len() < 2 { return None; }
    let sb = &wit[wit.len() - 2];
    leaves.iter().find(|n| ast::to_ms::<PublicKey, miniscript::Tap>(n).map(|m| m.encode().as_bytes() == &sb[..]).unwrap_or(false))
}

/// `TxSat` plus the raw-key-hash lookups (the shared satisfier has none): the key behind a raw
/// pkh atom is always known, its signature exactly when the key's id is among the assets
struct RawSat<'a>(&'a TxSat);

fn raw_full(h: &hash160::Hash) -> Option<u32> { (0..10u32).chain(100..104).find(|id| ast::raw_pkh(*id) == *h) }
fn raw_x(h: &hash160::Hash) -> Option<u32> { (200..210u32).find(|id| ast::raw_pkh(*id) == *h) }

impl<'a> miniscript::Satisfier<PublicKey> for RawSat<'a> {
    fn lookup_ecdsa_sig(&self, pk: &PublicKey) -> Option<miniscript::bitcoin::ecdsa::Signature> { self.0.lookup_ecdsa_sig(pk) }
    fn lookup_tap_key_spend_sig(&self, pk: &PublicKey) -> Option<miniscript::bitcoin::taproot::Signature> { self.0.lookup_tap_key_spend_sig(pk) }
    fn lookup_tap_leaf_script_sig(&self, pk: &PublicKey, l: &TapLeafHash) -> Option<miniscript::bitcoin::taproot::Signature> { self.0.lookup_tap_leaf_script_sig(pk, l) }
    fn lookup_raw_pkh_pk(&self, h: &hash160::Hash) -> Option<PublicKey> { raw_full(h).map(ast::full_key) }
    fn lookup_raw_pkh_x_only_pk(&self, h: &hash160::Hash) -> Option<XOnlyPublicKey> { raw_x(h).map(ast::xonly_key) }
    fn lookup_raw_pkh_ecdsa_sig(&self, h: &hash160::Hash) -> Option<(PublicKey, miniscript::bitcoin::ecdsa::Signature)> {
        let pk = ast::full_key(raw_full(h)?);
        Some((pk, self.0.lookup_ecdsa_sig(&pk)?))
    }
    fn lookup_raw_pkh_tap_leaf_script_sig(&self, hl: &(hash160::Hash, TapLeafHash)) -> Option<(XOnlyPublicKey, miniscript::bitcoin::taproot::Signature)> {
        let id = raw_x(&hl.0)?;
        Some((ast::xonly_key(id), self.0.lookup_tap_leaf_script_sig(&ast::full_key(id), &hl.1)?))
    }
    fn lookup_sha256(&self, h: &sha256::Hash) -> Option<[u8; 32]> { self.0.lookup_sha256(h) }
    fn lookup_hash256(&self, h: &miniscript::hash256::Hash) -> Option<[u8; 32]> { self.0.lookup_hash256(h) }
    fn lookup_ripemd160(&self, h: &miniscript::bitcoin::hashes::ripemd160::Hash) -> Option<[u8; 32]> { self.0.lookup_ripemd160(h) }
    fn lookup_hash160(&self, h: &hash160::Hash) -> Option<[u8; 32]> { self.0.lookup_hash160(h) }
    fn check_older(&self, n: miniscript::bitcoin::relative::LockTime) -> bool { miniscript::Satisfier::<PublicKey>::check_older(self.0, n) }
    fn check_after(&self, n: miniscript::bitcoin::absolute::LockTime) -> bool { miniscript::Satisfier::<PublicKey>::check_after(self.0, n) }
}

fn satisfy(out: &mut Out, desc_: &Descriptor<PublicKey>, sat: &TxSat, mall: bool, info: &str) -> Option<(Vec<Vec<u8>>, ScriptBuf)> {
    let res = std::panic::catch_unwind(std::panic::AssertUnwindSafe(|| {
        let rs = RawSat(sat);
        if mall { desc_.get_satisfaction_mall(&rs) } else { desc_.get_satisfaction(&rs) }
    }));
    match res {
        Ok(Ok(x)) => Some(x),
        Ok(Err(_)) => None,
        Err(_) => {
            out.line(&format!("J nopanic get_satisfaction{} {} {} {} {} PANIC", if mall { "_mall" } else { "" }, desc_,
                sat.tx.version.0, sat.tx.lock_time.to_consensus_u32(), info), "ok");
            None
        }
    }
}

/// The same spend as input 1 of a TWO-input transaction (different amounts), re-signed: every
/// signature the satisfier issued is replaced by one over the new transaction at index 1.  Judged
/// under `Prevouts::All` and under `Prevouts::One(0, ..)` / `One(1, ..)`.
fn two_inputs(out: &mut Out, case: &Case, sat: &TxSat, ss: &ScriptBuf, wit: &[Vec<u8>], leaf: Option<&Node>, sane: bool, tag: &str) {
    let d = case.desc;
    let mut tx2 = sat.tx.clone();
    tx2.input.insert(0, TxIn {
        previous_output: OutPoint { txid: Txid::from_byte_array([0x22; 32]), vout: 3 },
        script_sig: ScriptBuf::new(), sequence: Sequence::from_consensus(0xffff_fffd), witness: Witness::new(),
    });
    let mut other_spk = vec![0x00, 0x14]; other_spk.extend_from_slice(&[0x33; 20]);
    let prevs = vec![TxOut { value: Amount::from_sat(50_000), script_pubkey: ScriptBuf::from_bytes(other_spk) }, sat.prevout.clone()];
    let signer = Signer { desc: d, tx: &tx2, idx: 1, prevs: prevs.clone() };
    let leaf_script: Option<Vec<u8>> = if sat.prevout.script_pubkey.is_p2tr() && wit.len() >= 2 { Some(wit[wit.len() - 2].clone()) } else { None };
    let mut map: Vec<(Vec<u8>, Vec<u8>)> = vec![];
    for (pk, sig) in sat.issued.borrow().iter() {
        let new = if pk.len() == 32 {
            let id = match XOnlyPublicKey::from_slice(pk).ok().and_then(|x| crate::msops::key_id_x(&x)) { Some(i) => i % 100, None => continue };
            let ty = if sig.len() == 65 { match TapSighashType::from_consensus_u8(sig[64]) { Ok(t) => t, Err(_) => continue } } else { TapSighashType::Default };
            match &leaf_script { Some(ls) => signer.schnorr_leaf(id, ls, ty), None => None }
        } else {
            let id = match PublicKey::from_slice(pk).ok().and_then(|k| key_id_full(&k)) { Some(i) => i % 100, None => continue };
            signer.ecdsa(id, EcdsaSighashType::All)
        };
        if let Some(n) = new { map.push((sig.clone(), n)); }
    }
    if let Some(ks) = &sat.tap_key_sig {
        if let Some(n) = signer.schnorr_key(ks.sighash_type) { map.push((ks.to_vec(), n)); }
    }
    let re = |e: &Vec<u8>| -> Vec<u8> { map.iter().find(|(o, _)| o == e).map(|(_, n)| n.clone()).unwrap_or_else(|| e.clone()) };
    let ssi = match ss_items(ss) { Some(x) => x, None => return };
    let ss2 = ss_build(&ssi.iter().map(re).collect::<Vec<_>>());
    let wit2: Vec<Vec<u8>> = wit.iter().map(re).collect();
    LOC.with(|l| *l.borrow_mut() = Some((1, prevs.clone())));
    judge_x(out, case, &tx2, &sat.prevout, &ss2, &wit2, sane, &format!("{} two-inputs:idx1", tag), leaf, X_ONE);
    // and the ORIGINAL signatures (made for another transaction): must be refused
    if !map.is_empty() {
        judge_x(out, case, &tx2, &sat.prevout, ss, wit, false, &format!("{} two-inputs:stale-sigs", tag), leaf, 0);
    }
    LOC.with(|l| *l.borrow_mut() = None);
}

/// all work for one descriptor x assets x mode
fn do_case(out: &mut Out, rng: &mut Rng, case: &Case, leaves: &[Node], assets: &DAssets, mall: bool, n_mut: usize, prev: &mut Option<(Vec<Vec<u8>>, ScriptBuf)>, special: bool) {
    let d = case.desc;
    let (lt, sq) = assets.tx_fields();
    let sane = case.sane;
    let tap = matches!(d, Descriptor::Tr(_));
    let mode = if mall { "mall" } else { "nonmall" };
    // ---- base transaction
    let sat = tx_sat(d, assets, make_tx(2, lt, sq));
    let (wit, ss) = match satisfy(out, d, &sat, mall, &assets.wire()) { Some(x) => x, None => { out.count("c13 sat: none"); return; } };
    if mall { if let Some(p) = prev { if p.0 == wit && p.1 == ss { out.count("c13 sat: mall = nonmall (skipped)"); return; } } }
    if !mall { *prev = Some((wit.clone(), ss.clone())); }
    out.count(&format!("c13 sat: {:?}{}", d.desc_type(), if sane { " sane" } else { " insane" }));
    let leaf = leaf_of(leaves, &wit);
    let tagb = format!("{} {} base", mode, assets.wire());
    judge_x(out, case, &sat.tx, &sat.prevout, &ss, &wit, sane, &tagb, leaf, X_ASSUME | X_BAN | X_INFERRED);
    if special { two_inputs(out, case, &sat, &ss, &wit, leaf, sane, &format!("{} {}", mode, assets.wire())); }

    // ---- lock-time / sequence / version variants: re-sign over the changed transaction
    let (mut afters, mut olders) = (vec![], vec![]);
    if let Some(n) = case.node { n.locks(&mut afters, &mut olders); }
    for l in leaves { l.locks(&mut afters, &mut olders); }
    let mut variants: BTreeSet<(i32, u32, u32)> = BTreeSet::new();
    for a in &afters {
        variants.insert((2, a.wrapping_sub(1), sq));
        variants.insert((2, *a, sq));
        variants.insert((2, *a, 0xffff_ffff));          // final sequence disables CLTV
        variants.insert((2, if *a < 500_000_000 { 500_000_000 + a } else { a - 500_000_000 }, sq)); // other unit
    }
    for o in &olders {
        let c = rel_canon(*o);
        variants.insert((2, lt, c.wrapping_sub(1)));
        variants.insert((2, lt, c));
        variants.insert((2, lt, c | 0x8000_0000));       // disable flag
        variants.insert((2, lt, c ^ 0x0040_0000));       // other unit
        variants.insert((2, lt, c | 0x0001_0000));       // bits outside the mask
        variants.insert((1, lt, c));                      // version 1: BIP68 not enforced, CSV fails
    }
    variants.remove(&(2, lt, sq));
    if mall || !special { variants.retain(|(v, _, _)| *v == 2); }
    for (ver, l, s) in variants {
        let sat2 = tx_sat(d, assets, make_tx(ver, l, s));
        if let Some((w2, s2)) = satisfy(out, d, &sat2, mall, &assets.wire()) {
            let leaf2 = leaf_of(leaves, &w2);
            judge(out, case, &sat2.tx, &sat2.prevout, &s2, &w2, false, &format!("{} {} locks", mode, assets.wire()), leaf2);
        }
    }

    // ---- mutations of (scriptSig, witness) under the base transaction
    let signer = Signer::new(d, &sat.tx, &sat.prevout);
    let ssi = match ss_items(&ss) { Some(x) => x, None => return };
    let n_ss = ssi.len();
    let all: Vec<Vec<u8>> = ssi.iter().cloned().chain(wit.iter().cloned()).collect();
    let n = all.len();
    // replacement material
    let mut repl: Vec<(String, Vec<u8>)> = vec![
        ("empty".into(), vec![]), ("one".into(), vec![1]), ("zero32".into(), vec![0u8; 32]),
        ("junk".into(), vec![0x30, 0x06, 0x02, 0x01, 0x01, 0x02, 0x01, 0x01, 0x01]), ("two".into(), vec![2]),
        ("zero1".into(), vec![0]),
    ];
    // hash preimages of the wrong length / wrong value, and the right one of another hash
    for h in 0..4u32 {
        let pre = ast::preimage(h).to_vec();
        if all.iter().any(|e| *e == pre) {
            repl.push((format!("pre{}:short", h), pre[..31].to_vec()));
            let mut l = pre.clone(); l.push(0); repl.push((format!("pre{}:long", h), l));
            let mut w = pre.clone(); w[5] ^= 1; repl.push((format!("pre{}:wrong", h), w));
            repl.push((format!("pre{}:other", h), ast::preimage((h + 1) % 4).to_vec()));
        }
    }
    let leaf_script: Option<Vec<u8>> = if tap && wit.len() >= 2 { Some(wit[wit.len() - 2].clone()) } else { None };
    for id in case.key_ids.iter().take(3) {
        if tap {
            if let Some(ls) = &leaf_script {
                for ty in [TapSighashType::Default, TapSighashType::All, TapSighashType::None] {
                    if let Some(s) = signer.schnorr_leaf(*id, ls, ty) { repl.push((format!("sig{}:{:?}", id, ty), s)); }
                }
            }
        } else {
            for ty in [EcdsaSighashType::All, EcdsaSighashType::None, EcdsaSighashType::SinglePlusAnyoneCanPay] {
                if let Some(s) = signer.ecdsa(*id, ty) { repl.push((format!("sig{}:{:?}", id, ty), s)); }
            }
        }
    }
    if tap && wit.len() == 1 {
        for ty in [TapSighashType::Default, TapSighashType::All, TapSighashType::Single] {
            if let Some(s) = signer.schnorr_key(ty) { repl.push((format!("keysig:{:?}", ty), s)); }
        }
    }
    let mut muts: Vec<(String, Vec<Vec<u8>>, usize)> = vec![];   // (name, items, n_ss)
    // structural elements (redeem / witness script, control block): only drop / empty / one
    let mut structural: BTreeSet<usize> = BTreeSet::new();
    if d.script_pubkey().is_p2sh() && n_ss > 0 { structural.insert(n_ss - 1); }
    if matches!(d.desc_type(), miniscript::descriptor::DescriptorType::Wsh | miniscript::descriptor::DescriptorType::ShWsh) && n > n_ss { structural.insert(n - 1); }
    if tap && wit.len() >= 2 { structural.insert(n - 1); structural.insert(n - 2); }
    for i in 0..n {
        let in_ss = i < n_ss;
        if structural.contains(&i) {
            { let mut v = all.clone(); v.remove(i); muts.push((format!("drop{}", i), v, if in_ss { n_ss - 1 } else { n_ss })); }
            for (name, r) in repl.iter().take(2) { let mut v = all.clone(); v[i] = r.clone(); muts.push((format!("srepl{}:{}", i, name), v, n_ss)); }
            // still-parseable replacements: the script `OP_1`, a control block with another parity /
            // a flipped bit in the internal key / in the Merkle path
            { let mut v = all.clone(); v[i] = vec![0x51]; muts.push((format!("srepl{}:op1", i), v, n_ss)); }
            if tap && i == n - 1 && all[i].len() >= 33 {
                { let mut v = all.clone(); v[i][0] ^= 1; muts.push((format!("srepl{}:cb-parity", i), v, n_ss)); }
                { let mut v = all.clone(); v[i][7] ^= 4; muts.push((format!("srepl{}:cb-key", i), v, n_ss)); }
                if all[i].len() >= 65 { let mut v = all.clone(); v[i][40] ^= 1; muts.push((format!("srepl{}:cb-path", i), v, n_ss)); }
                { let mut v = all.clone(); v[i].extend_from_slice(&[0x11; 32]); muts.push((format!("srepl{}:cb-longer", i), v, n_ss)); }
            }
            continue;
        }
        { let mut v = all.clone(); v.remove(i); muts.push((format!("drop{}", i), v, if in_ss { n_ss - 1 } else { n_ss })); }
        { let mut v = all.clone(); let e = v[i].clone(); v.insert(i, e); muts.push((format!("dup{}", i), v, if in_ss { n_ss + 1 } else { n_ss })); }
        for (name, r) in &repl {
            if *r == all[i] { continue; }
            let mut v = all.clone(); v[i] = r.clone(); muts.push((format!("repl{}:{}", i, name), v, n_ss));
        }
        if looks_like_sig(&all[i], tap) {
            { let mut v = all.clone(); let l = v[i].len(); v[i][l - 1] ^= 0x02; muts.push((format!("sighashflip{}", i), v, n_ss)); }
            { let mut v = all.clone(); v[i][10] ^= 0x01; muts.push((format!("bitflip{}", i), v, n_ss)); }
            if tap && all[i].len() == 64 {
                let mut v = all.clone(); v[i].push(0x00); muts.push((format!("append00:{}", i), v, n_ss));
                let mut v = all.clone(); v[i].push(0x01); muts.push((format!("append01:{}", i), v, n_ss));
            }
            if tap && all[i].len() == 65 { let mut v = all.clone(); v[i][64] = 0x00; muts.push((format!("explicit00:{}", i), v, n_ss)); }
        }
        for j in (i + 1)..n {
            if (i < n_ss) != (j < n_ss) || all[i] == all[j] || structural.contains(&j) { continue; }
            let mut v = all.clone(); v.swap(i, j); muts.push((format!("swap{}:{}", i, j), v, n_ss));
        }
    }
    // extra element on the bottom / top
    { let mut v = all.clone(); v.insert(n_ss, vec![1]); muts.push(("extra-bottom".into(), v, if n_ss == n && n_ss > 0 { n_ss + 1 } else { n_ss })); }
    // ---- input class "another VALID key": a key of the spend replaced by key 7 (same encoding),
    // alone (`pair<i>:pk7alone`, also judged in assume mode) and together with key 7's valid
    // signature over the digest the key-hash arm would use for THAT key (`pair<i>:sig7+pk7`)
    {
        use miniscript::descriptor::DescriptorType as DT;
        let dt = d.desc_type();
        let known = pk_bytes(&case.key_ids);
        for i in 0..n {
            if structural.contains(&i) || !known.contains(&all[i]) { continue; }
            let pk7: Vec<u8> = match all[i].len() {
                33 => ast::full_key(7).to_bytes(), 65 => ast::full_key(107).to_bytes(),
                32 => ast::xonly_key(7).serialize().to_vec(), _ => continue };
            if pk7 == all[i] { continue; }
            { let mut v = all.clone(); v[i] = pk7.clone(); muts.push((format!("pair{}:pk7alone", i), v, n_ss)); }
            if i == 0 || ((i - 1) < n_ss) != (i < n_ss) || structural.contains(&(i - 1)) { continue; }
            let sig7 = if tap {
                leaf_script.as_ref().and_then(|ls| signer.schnorr_leaf(7, ls, TapSighashType::Default))
            } else if matches!(dt, DT::Wpkh | DT::ShWpkh) {
                signer.ecdsa_code(7, EcdsaSighashType::All, &p2pkh_code(&pk7), true)
            } else { signer.ecdsa(7, EcdsaSighashType::All) };
            if let Some(s7) = sig7 { let mut v = all.clone(); v[i] = pk7.clone(); v[i - 1] = s7; muts.push((format!("pair{}:sig7+pk7", i), v, n_ss)); }
        }
        // ---- nested segwit: redeem script AND witness replaced consistently (only the P2SH hash
        // of the scriptPubKey stands between this and an accepted spend)
        if dt == DT::ShWsh {
            let mut r = vec![0x00, 0x20]; r.extend_from_slice(sha256::Hash::hash(&[0x51]).as_byte_array());
            muts.push(("pair-nested:op1".into(), vec![r, vec![0x51]], 1));
        }
        if dt == DT::ShWpkh {
            let pk7 = ast::full_key(7).to_bytes();
            let mut r = vec![0x00, 0x14]; r.extend_from_slice(hash160::Hash::hash(&pk7).as_byte_array());
            if let Some(s7) = signer.ecdsa_code(7, EcdsaSighashType::All, &p2pkh_code(&pk7), true) {
                muts.push(("pair-nested:wpkh7".into(), vec![r, s7, pk7], 1));
            }
        }
    }
    // ---- slot sweep (designated corpus, first asset subset): EVERY satisfaction slot replaced by empty /
    // 1 / a parseable junk signature / a valid signature of EVERY key of the descriptor, and every pair
    // of slots swapped - a later multisig slot, a threshold child after k are satisfied, a skipped or_* /
    // andor branch holding junk or one more valid signature; never truncated, also in assume mode
    if special && !mall && SWEEP.with(|c| c.get()) {
        let mut pool: Vec<(String, Vec<u8>)> = vec![("empty".into(), vec![]), ("one".into(), vec![1]),
            ("junk".into(), if tap { vec![0x42u8; 64] } else { vec![0x30, 0x06, 0x02, 0x01, 0x01, 0x02, 0x01, 0x01, 0x01] })];
        for id in case.key_ids.iter() {
            let sg = if tap { leaf_script.as_ref().and_then(|ls| signer.schnorr_leaf(*id, ls, TapSighashType::Default)) }
                else { signer.ecdsa(*id, EcdsaSighashType::All) };
            if let Some(sg) = sg { pool.push((format!("sig{}", id), sg)); }
        }
        for i in 0..n {
            if structural.contains(&i) { continue; }
            for (name, r) in &pool {
                if *r == all[i] { continue; }
                let mut v = all.clone(); v[i] = r.clone(); muts.push((format!("slot{}:{}", i, name), v, n_ss));
            }
            for j in (i + 1)..n {
                if (i < n_ss) != (j < n_ss) || all[i] == all[j] || structural.contains(&j) { continue; }
                let mut v = all.clone(); v.swap(i, j); muts.push((format!("slotswap{}:{}", i, j), v, n_ss));
            }
        }
    }
    // ---- input class "the WRONG stack is non-empty" on an otherwise valid spend, every output type
    { let mut v = vec![vec![1u8]]; v.extend(all.iter().cloned()); muts.push(("xs:ss-prepend-01".into(), v, n_ss + 1)); }
    { let mut v = all.clone(); v.insert(n_ss, vec![1]); muts.push(("xs:wit-add-01".into(), v, n_ss)); }
    // an annex on a taproot witness
    if tap { let mut v = all.clone(); v.push(vec![0x50, 0x01]); muts.push(("annex".into(), v, n_ss)); }
    // Fisher-Yates, keep n_mut
    for i in (1..muts.len()).rev() { let j = rng.below(i + 1); muts.swap(i, j); }
    // the interesting classes first, whatever the shuffle says
    muts.sort_by_key(|(name, _, _)| if name.starts_with("pair") || name.starts_with("xs:") || name.starts_with("slot") { 0u8 }
        else if name.starts_with("append00") || name.starts_with("explicit00") || name.starts_with("srepl") { 1 } else { 2 });
    let n_mut = n_mut.max(muts.iter().filter(|(n, _, _)| n.starts_with("pair") || n.starts_with("xs:") || n.starts_with("slot")).count() + n_mut / 2);
    muts.truncate(n_mut);
    let mut mut_no = 0usize;
    for (name, items, k) in muts {
        let k = k.min(items.len());
        // for pure-witness outputs all items belong to the witness
        let (s_items, w_items) = items.split_at(k);
        let ss2 = ss_build(s_items);
        let w2: Vec<Vec<u8>> = w_items.to_vec();
        let leaf2 = leaf_of(leaves, &w2);
        mut_no += 1;
        let acc = judge_x(out, case, &sat.tx, &sat.prevout, &ss2, &w2, false, &format!("{} {} mut:{}", mode, assets.wire(), name), leaf2,
            if mut_no % 3 == 0 || name.starts_with("pair") || name.starts_with("slot") { X_ASSUME } else { 0 });
        if acc { out.count("c13 mutation accepted by interpreter"); }
    }
    // a non-minimal push in the scriptSig (same items)
    if n_ss > 0 && !ssi[0].is_empty() && ssi[0].len() < 0x4c {
        let mut b = vec![0x4c, ssi[0].len() as u8]; b.extend_from_slice(&ssi[0]);
        b.extend_from_slice(ss_build(&ssi[1..]).as_bytes());
        judge(out, case, &sat.tx, &sat.prevout, &ScriptBuf::from_bytes(b), &wit, false, &format!("{} {} mut:nonminimal-push", mode, assets.wire()), leaf);
    }
}

/* ------------------------------------------------------------------ hand-built segwit-v0 spends: key forms */

/// Segwit v0 spends that are VALID for Script (`C script-verdict`: `Spec/Spend.verifySpend` accepts -
/// BIP143's "compressed keys only" is Core's WITNESS_PUBKEYTYPE relay-policy flag, not consensus)
/// but use an uncompressed key, next to their compressed twins: p2wpkh / sh-wpkh of the key
/// (`C txdata-key`: model `Interp.pkFromSlice`) and p2wsh / sh-wsh of witness scripts naming the key
/// (`C txdata-segwit-script`: model `Interp.segwitScriptAdmits`).  The demand is the library's own
/// context rule (the interpreter parses segwit scripts in `Segwitv0`, keys with
/// `require_compressed`), judged at model level; soundness w.r.t. Script (`J interp-sound`) holds
/// whatever the interpreter answers here.
fn handbuilt_segwit_keys(out: &mut Out) {
    let tx = make_tx(2, 0, 0xffff_fffe);
    let value = Amount::from_sat(VALUE);
    let all = EcdsaSighashType::All;
    let emit = |out: &mut Out, spk: ScriptBuf, ss: ScriptBuf, wit: Vec<Vec<u8>>, pks: &[Vec<u8>], info: &str, cline: String| {
        let prevout = TxOut { value, script_pubkey: spk };
        let run = run_interp(&tx, &prevout, &ss, &wit);
        register_all(out, &tx, &prevout, &ss, &wit, pks);
        let head = format!("plain {} {} {} {} {} {}", tx.version.0, tx.lock_time.to_consensus_u32(), tx.input[0].sequence.to_consensus_u32(),
            hex(prevout.script_pubkey.as_bytes()), hex(ss.as_bytes()), desc::wit_wire(&wit));
        if run.verdict == "PANIC" { out.line(&format!("J nopanic interpreter {} | {} PANIC", head, info), "ok"); return; }
        out.line(&format!("C script-verdict {} - | {}", head, info), "accept");
        out.line(&format!("J interp-sound {} {} | {}", head, run.verdict, info), "ok");
        out.line(&cline, &run.verdict);
        out.count(&format!("c13 handbuilt segwit key form: {}", run.verdict));
        if run.verdict == "accept" && !prevout.script_pubkey.is_p2pkh() && wit.iter().any(|e| e.len() == 65 && e[0] == 4) {
            out.count("observation: segwit-v0 spend with an uncompressed key behind a key HASH in the witness script accepted (consensus-valid, non-standard)");
        }
    };
    let p2sh_of = |redeem: &[u8]| -> (ScriptBuf, ScriptBuf) {
        let r = ScriptBuf::from_bytes(redeem.to_vec());
        (ScriptBuf::new_p2sh(&r.script_hash()), ss_build(&[redeem.to_vec()]))
    };
    for key in [100u32, 0, 101, 1] {
        let pkb = ast::full_key(key).to_bytes();
        let pks = pk_bytes(&[key % 100, 2]);
        // ---- key-hash programs
        let code = p2pkh_code(&pkb);
        let mut prog = vec![0x00, 0x14]; prog.extend_from_slice(hash160::Hash::hash(&pkb).as_byte_array());
        if let Some(sig) = ecdsa_sign(&tx, 0, value, &code, true, key % 100, all) {
            let cl = format!("C txdata-key 1 {}", hex(&pkb));
            emit(out, ScriptBuf::from_bytes(prog.clone()), ScriptBuf::new(), vec![sig.clone(), pkb.clone()], &pks, &format!("handbuilt wpkh key {}", key), cl.clone());
            let (spk, ss) = p2sh_of(&prog);
            emit(out, spk, ss, vec![sig, pkb.clone()], &pks, &format!("handbuilt sh-wpkh key {}", key), cl);
        }
        // the same key in p2pkh: no compressedness demanded
        if let Some(sig) = ecdsa_sign(&tx, 0, value, &code, false, key % 100, all) {
            emit(out, code.clone(), ss_build(&[sig, pkb.clone()]), vec![], &pks, &format!("handbuilt pkh key {}", key), format!("C txdata-key 0 {}", hex(&pkb)));
        }
        // ---- witness scripts naming the key: pk(K), multi(1,K,K2) signed by K2, and_v(v:pk(K2),pk_h(K))
        let k2 = 2u32;
        let nodes: Vec<(Node, Vec<u32>)> = vec![
            (Node::Check(Box::new(Node::PkK(key))), vec![key]),
            (Node::Multi(1, vec![key, k2]), vec![k2]),
            (Node::AndV(Box::new(Node::Verify(Box::new(Node::Check(Box::new(Node::PkK(k2)))))), Box::new(Node::Check(Box::new(Node::PkH(key))))), vec![key, k2]),
        ];
        for (ni, (node, signers)) in nodes.iter().enumerate() {
            // script bytes through the Legacy context (the encoding does not depend on the context)
            let script = match ast::to_ms::<PublicKey, miniscript::Legacy>(node) { Ok(m) => m.encode(), Err(_) => continue };
            let sigs: Vec<Vec<u8>> = signers.iter().filter_map(|id| ecdsa_sign(&tx, 0, value, &script, true, *id % 100, all)).collect();
            if sigs.len() != signers.len() { continue; }
            let mut wit: Vec<Vec<u8>> = match ni {
                0 => vec![sigs[0].clone()],
                1 => vec![vec![], sigs[0].clone()],
                _ => vec![sigs[0].clone(), pkb.clone(), sigs[1].clone()],   // pk_h(K): sig, key; then pk(K2)'s sig on top
            };
            wit.push(script.to_bytes());
            let mut prog = vec![0x00, 0x20]; prog.extend_from_slice(sha256::Hash::hash(script.as_bytes()).as_byte_array());
            // pk_h decodes to a RAW key hash (the script does not name the key): model AST accordingly
            let wire = if ni == 2 {
                Node::AndV(Box::new(Node::Verify(Box::new(Node::Check(Box::new(Node::PkK(k2)))))), Box::new(Node::Check(Box::new(Node::RawPkH(key))))).wire()
            } else { node.wire() };
            let cl = format!("C txdata-segwit-script {}", wire);
            emit(out, ScriptBuf::from_bytes(prog.clone()), ScriptBuf::new(), wit.clone(), &pks, &format!("handbuilt wsh {} key {}", node.wire(), key), cl.clone());
            let (spk, ss) = p2sh_of(&prog);
            emit(out, spk, ss, wit, &pks, &format!("handbuilt sh-wsh {} key {}", node.wire(), key), cl);
        }
    }
}

/* ------------------------------------------------------------------ raw channel: txdata no encoder of the library produces */

/// Judge one raw (scriptPubKey, scriptSig, witness): `J interp-sound` / `-m assume` (accept => Script
/// accepts), `J constraints` on accepts, `J accessors` / `C verify-sig` / `J interp-reuse` when
/// `from_txdata` builds an interpreter, `J nopanic` throughout.  Returns the `iter` verdict.
fn judge_raw(out: &mut Out, tx: &Transaction, spk: &ScriptBuf, ss: &ScriptBuf, wit: &[Vec<u8>], pks: &[Vec<u8>], info: &str) -> String {
    let prevout = TxOut { value: Amount::from_sat(VALUE), script_pubkey: spk.clone() };
    let run = run_interp(tx, &prevout, ss, wit);
    register_all(out, tx, &prevout, ss, wit, pks);
    let class = if tx.version.0 < 2 { "csv-tx-version-1" } else { "plain" };
    let head = format!("{} {} {} {} {} {} {}", class, tx.version.0, tx.lock_time.to_consensus_u32(), tx.input[0].sequence.to_consensus_u32(),
        hex(spk.as_bytes()), hex(ss.as_bytes()), desc::wit_wire(wit));
    if run.verdict == "PANIC" { out.line(&format!("J nopanic interpreter {} | {} PANIC", head, info), "ok"); return run.verdict; }
    out.line(&format!("J interp-sound {} {} | {}", head, run.verdict, info), "ok");
    if run.verdict == "accept" {
        let cs = if run.cs.is_empty() { "-".to_string() } else { run.cs.join(",") };
        out.line(&format!("J constraints {} {} | {}", head, cs, info), "ok");
    }
    let ra = run_interp_mode(tx, &prevout, ss, wit, &Mode::Assume);
    if ra.verdict == "PANIC" { out.line(&format!("J nopanic interpreter-assume {} | {} PANIC", head, info), "ok"); return run.verdict; }
    out.line(&format!("J interp-sound-m assume {} {} | {}", head, ra.verdict, info), "ok");
    if ra.verdict == "accept" {
        let cs = if ra.cs.is_empty() { "-".to_string() } else { ra.cs.join(",") };
        out.line(&format!("J constraints-m assume {} {} | {}", head, cs, info), "ok");
    }
    routes(out, tx, 0, std::slice::from_ref(&prevout), ss, wit, pks, info);
    run.verdict
}

fn p2sh_spk(redeem: &[u8]) -> ScriptBuf { ScriptBuf::new_p2sh(&ScriptBuf::from_bytes(redeem.to_vec()).script_hash()) }
fn p2wsh_prog(script: &[u8]) -> Vec<u8> { let mut v = vec![0x00, 0x20]; v.extend_from_slice(sha256::Hash::hash(script).as_byte_array()); v }
fn push_of(b: &[u8]) -> Vec<u8> { ss_build(&[b.to_vec()]).into_bytes() }

/// a p2tr output committing to `leaf` (leaf version `ver`) at depth `siblings.len()` under internal key 3:
/// (scriptPubKey, control block)
fn tr_commit(leaf: &[u8], ver: u8, siblings: &[[u8; 32]]) -> (ScriptBuf, Vec<u8>) {
    use miniscript::bitcoin::taproot::TapNodeHash;
    let lv = LeafVersion::from_consensus(ver).unwrap_or(LeafVersion::TapScript);
    let mut cur = TapNodeHash::from(TapLeafHash::from_script(&ScriptBuf::from_bytes(leaf.to_vec()), lv));
    for sib in siblings { cur = TapNodeHash::from_node_hashes(cur, TapNodeHash::from_byte_array(*sib)); }
    let internal = ast::xonly_key(3);
    let (tweaked, parity) = internal.tap_tweak(secp(), Some(cur));
    let mut spk = vec![0x51, 0x20]; spk.extend_from_slice(&tweaked.to_inner().serialize());
    let mut cb = vec![ver | (if parity == secp256k1::Parity::Odd { 1 } else { 0 })];
    cb.extend_from_slice(&internal.serialize());
    for sib in siblings { cb.extend_from_slice(sib); }
    (ScriptBuf::from_bytes(spk), cb)
}

/// Schnorr signature of key `id` for a tapscript leaf of a raw output
fn schnorr_sign_leaf(tx: &Transaction, spk: &ScriptBuf, leaf: &[u8], id: u32) -> Option<Vec<u8>> {
    let lh = TapLeafHash::from_script(&ScriptBuf::from_bytes(leaf.to_vec()), LeafVersion::TapScript);
    let prevs = [TxOut { value: Amount::from_sat(VALUE), script_pubkey: spk.clone() }];
    let mut cache = SighashCache::new(tx);
    let d = cache.taproot_script_spend_signature_hash(0, &Prevouts::All(&prevs), lh, TapSighashType::Default).ok()?;
    let kp = secp256k1::Keypair::from_secret_key(secp(), &ast::secret(id % 100));
    Some(secp().sign_schnorr_with_aux_rand(&Message::from_digest(d.to_byte_array()), &kp, &[5u8; 32]).as_ref().to_vec())
}

/// Designated raw inputs (every tier).  (1) inner scripts of length 0, 1, 2 and other non-scripts behind
/// EVERY script-hash wrapper, alone and over an extra `01`; (2) look-alikes of the witness-program
/// templates one byte short / long, as scriptPubKey and as P2SH redeem script, and other witness
/// versions; (3) control blocks of every length class, both parities, leaf versions c0 / c2, with a VALID
/// commitment over arbitrary leaves (miniscript, non-miniscript, empty), truncated / extended by one
/// byte; (4) scripts the decoder REFUSES today for exactly one reason each (top-level K / V / W type,
/// missing s:, multi in a tap leaf, multi_a and x-only keys in p2wsh, 21-key multi, 202 opcodes next to
/// the admitted 201, non-minimal pushes and numbers) with witnesses that Script would run.
fn raw_channel(out: &mut Out) {
    let tx = make_tx(2, 0, 0xffff_fffe);
    let value = Amount::from_sat(VALUE);
    let all = EcdsaSighashType::All;
    let pks = pk_bytes(&[0, 1, 2, 3, 80, 81]);
    let k = |i: u32| ast::full_key(i).to_bytes();
    let x = |i: u32| ast::xonly_key(i).serialize().to_vec();
    let push = |b: &[u8]| push_of(b);
    let cat = |parts: &[&[u8]]| -> Vec<u8> { parts.iter().flat_map(|p| p.iter().cloned()).collect() };
    let n_acc = std::cell::Cell::new(0u32);
    let mut go = |out: &mut Out, spk: ScriptBuf, ss: ScriptBuf, wit: Vec<Vec<u8>>, info: String| {
        let v = judge_raw(out, &tx, &spk, &ss, &wit, &pks, &info);
        out.count(&format!("c13 raw: {}", v.split(':').take(3).collect::<Vec<_>>().join(":")));
        if v == "accept" { n_acc.set(n_acc.get() + 1); }
    };
    // every script-hash wrapper around `script`, stack items `below` (bottom first); legacy / segwit sigs
    // are made by the caller through `sign(script, segwit)`
    let wrappers = |out: &mut Out, go: &mut dyn FnMut(&mut Out, ScriptBuf, ScriptBuf, Vec<Vec<u8>>, String), script: &[u8], below_legacy: &[Vec<u8>], below_segwit: &[Vec<u8>], tag: &str| {
        let mut ssi: Vec<Vec<u8>> = below_legacy.to_vec(); ssi.push(script.to_vec());
        go(out, p2sh_spk(script), ss_build(&ssi), vec![], format!("raw sh {}", tag));
        let mut w: Vec<Vec<u8>> = below_segwit.to_vec(); w.push(script.to_vec());
        go(out, ScriptBuf::from_bytes(p2wsh_prog(script)), ScriptBuf::new(), w.clone(), format!("raw wsh {}", tag));
        let prog = p2wsh_prog(script);
        go(out, p2sh_spk(&prog), ss_build(&[prog.clone()]), w, format!("raw sh-wsh {}", tag));
        go(out, ScriptBuf::from_bytes(script.to_vec()), ss_build(below_legacy), vec![], format!("raw bare {}", tag));
    };
    // ---- (1) short inner scripts
    let shorts: Vec<Vec<u8>> = vec![vec![], vec![0x00], vec![0x51], vec![0x00, 0x14], vec![0x00, 0x20], vec![0x51, 0x20], vec![0x01], vec![0x4c], vec![0xac],
        vec![0x51, 0x51], vec![0x00, 0x51], vec![0x51, 0x00], vec![0x02, 0x00], vec![0x4d, 0x01], vec![0x52], vec![0x60], vec![0x4f], vec![0x61], vec![0x51, 0x69], vec![0x51, 0x75, 0x51]];
    for sc in &shorts {
        for below in [vec![], vec![vec![1u8]], vec![vec![]]] {
            wrappers(out, &mut go, sc, &below, &below, &format!("short {} below {}", hex(sc), desc::wit_wire(&below)));
            let (spk, cb) = tr_commit(sc, 0xc0, &[]);
            let mut w = below.clone(); w.push(sc.clone()); w.push(cb);
            go(out, spk, ScriptBuf::new(), w, format!("raw tr-leaf short {}", hex(sc)));
        }
    }
    // ---- (2) witness-program look-alikes
    let h20 = hash160::Hash::hash(&k(0)).to_byte_array().to_vec();
    let ws = cat(&[&push(&k(0)), &[0xac]]);                     // <K0> CHECKSIG
    let h32 = sha256::Hash::hash(&ws).to_byte_array().to_vec();
    let sig_wpkh = ecdsa_sign(&tx, 0, value, &p2pkh_code(&k(0)), true, 0, all).unwrap_or_default();
    let sig_wsh = ecdsa_sign(&tx, 0, value, &ScriptBuf::from_bytes(ws.clone()), true, 0, all).unwrap_or_default();
    let mut progs: Vec<(String, Vec<u8>)> = vec![];
    for (ver, vname) in [(0x00u8, "v0"), (0x51, "v1"), (0x52, "v2"), (0x60, "v16"), (0x4f, "v-1")] {
        progs.push((format!("{} 20", vname), cat(&[&[ver, 0x14], &h20])));
        progs.push((format!("{} 19", vname), cat(&[&[ver, 0x13], &h20[..19]])));
        progs.push((format!("{} 21", vname), cat(&[&[ver, 0x15], &h20, &[0x00]])));
        progs.push((format!("{} 20+1", vname), cat(&[&[ver, 0x14], &h20, &[0x00]])));
        progs.push((format!("{} 32", vname), cat(&[&[ver, 0x20], &h32])));
        progs.push((format!("{} 31", vname), cat(&[&[ver, 0x1f], &h32[..31]])));
        progs.push((format!("{} 33", vname), cat(&[&[ver, 0x21], &h32, &[0x00]])));
        progs.push((format!("{} 32+1", vname), cat(&[&[ver, 0x20], &h32, &[0x51]])));
        progs.push((format!("{} 32 pushdata1", vname), cat(&[&[ver, 0x4c, 0x20], &h32])));
    }
    progs.push(("v1 x-only key 0".into(), cat(&[&[0x51, 0x20], &x(0)])));
    for (name, prog) in &progs {
        for (wn, w) in [("key", vec![sig_wpkh.clone(), k(0)]), ("script", vec![sig_wsh.clone(), ws.clone()]), ("none", vec![]), ("one", vec![vec![1u8]])] {
            go(out, ScriptBuf::from_bytes(prog.clone()), ScriptBuf::new(), w.clone(), format!("raw native look-alike {} wit {}", name, wn));
            go(out, p2sh_spk(prog), ss_build(&[prog.clone()]), w.clone(), format!("raw nested look-alike {} wit {}", name, wn));
        }
        go(out, ScriptBuf::from_bytes(prog.clone()), ss_build(&[sig_wpkh.clone(), k(0)]), vec![], format!("raw native look-alike {} scriptSig key", name));
    }
    // ---- (3) control blocks
    let sibs: [[u8; 32]; 3] = [[0x11; 32], [0x22; 32], [0x33; 32]];
    let leaf_pk = cat(&[&push(&x(0)), &[0xac]]);
    let leaves: Vec<(&str, Vec<u8>, bool)> = vec![("1", vec![0x51], false), ("pk(x0)", leaf_pk.clone(), true), ("OP_RETURN", vec![0x6a], false), ("empty", vec![], false),
        ("33-byte key", cat(&[&push(&k(0)), &[0xac]]), true), ("two pushes", vec![0x51, 0x51], false), ("0", vec![0x00], false)];
    for (lname, leaf, signed) in &leaves {
        for depth in 0..=3usize {
            for ver in [0xc0u8, 0xc2] {
                let (spk, cb) = tr_commit(leaf, ver, &sibs[..depth]);
                let below: Vec<Vec<u8>> = if *signed { vec![schnorr_sign_leaf(&tx, &spk, leaf, 0).unwrap_or_default()] } else { vec![] };
                let mut variants: Vec<(String, Vec<u8>)> = vec![("exact".into(), cb.clone())];
                if ver == 0xc0 {
                    { let mut c = cb.clone(); c[0] ^= 1; variants.push(("parity".into(), c)); }
                    { let mut c = cb.clone(); c.pop(); variants.push(("short1".into(), c)); }
                    { let mut c = cb.clone(); c.push(0x00); variants.push(("long1".into(), c)); }
                    { let mut c = cb.clone(); c.extend_from_slice(&[0x44; 32]); variants.push(("deeper".into(), c)); }
                    if depth > 0 { let mut c = cb.clone(); c.truncate(c.len() - 32); variants.push(("shallower".into(), c)); }
                    { let mut c = cb.clone(); c[0] = 0x50 | (c[0] & 1); variants.push(("annex-tag".into(), c)); }
                }
                for (vn, c) in variants {
                    let mut w = below.clone(); w.push(leaf.clone()); w.push(c);
                    // a leaf version other than 0xc0 succeeds unconditionally by consensus but is refused by
                    // Spec/Spend (DISCOURAGE_UPGRADABLE_TAPROOT_VERSION): not a soundness input, only observed
                    if ver != 0xc0 {
                        let prevout = TxOut { value, script_pubkey: spk.clone() };
                        let r = run_interp(&tx, &prevout, &ScriptBuf::new(), &w);
                        out.line(&format!("J nopanic interp-adv {} - {} {}", hex(spk.as_bytes()), desc::wit_wire(&w), if r.verdict == "PANIC" { "PANIC" } else { "OK" }), "ok");
                        if r.verdict == "accept" { out.count("observation: tapscript spend under leaf version 0xc2 evaluated and accepted (consensus: unconditional success; Spec/Spend refuses the version)"); }
                        continue;
                    }
                    go(out, spk.clone(), ScriptBuf::new(), w, format!("raw tr leaf {} depth {} cb {}", lname, depth, vn));
                }
            }
        }
    }
    // ---- (4) refused today, one reason each (and the admitted neighbour where there is one)
    let sg = |script: &[u8], segwit: bool, id: u32| ecdsa_sign(&tx, 0, value, &ScriptBuf::from_bytes(script.to_vec()), segwit, id, all).unwrap_or_default();
    let mut refused: Vec<(String, Vec<u8>, Vec<u32>)> = vec![   // (reason, script, signer ids bottom..top)
        ("top-level K".into(), push(&k(0)), vec![0]),
        ("top-level K no sig".into(), push(&k(0)), vec![]),
        ("top-level V".into(), cat(&[&push(&k(0)), &[0xad]]), vec![0]),
        ("top-level W".into(), cat(&[&[0x7c], &push(&k(0)), &[0xac]]), vec![0]),
        ("and_b without s:".into(), cat(&[&push(&k(0)), &[0xac], &push(&k(1)), &[0xac, 0x9a]]), vec![1, 0]),
        ("and_b without s: other order".into(), cat(&[&push(&k(0)), &[0xac], &push(&k(1)), &[0xac, 0x9a]]), vec![0, 1]),
        ("or_b without s:".into(), cat(&[&push(&k(0)), &[0xac], &push(&k(1)), &[0xac, 0x9b]]), vec![1, 0]),
        ("multi_a in v0".into(), cat(&[&push(&k(0)), &[0xac], &push(&k(1)), &[0xba, 0x51, 0x9c]]), vec![1, 0]),
        ("x-only key in v0".into(), cat(&[&push(&x(0)), &[0xac]]), vec![0]),
        ("pushdata1 key".into(), cat(&[&[0x4c, 0x21], &k(0), &[0xac]]), vec![0]),
        ("non-minimal k".into(), cat(&[&push(&k(0)), &[0xac, 0x7c], &push(&k(1)), &[0xac, 0x93, 0x01, 0x01, 0x87]]), vec![1, 0]),
        ("trailing opcode".into(), cat(&[&push(&k(0)), &[0xac, 0x61]]), vec![0]),
        ("v: over verify".into(), cat(&[&push(&k(0)), &[0xac, 0x69, 0x51]]), vec![0]),
    ];
    { // multi with 21 keys (20 is the consensus maximum), signed by the first
        let mut sc = vec![0x51];
        for i in 0..21u32 { sc.extend(push(&k(i))); }
        sc.extend([0x01, 0x15, 0xae]);
        refused.push(("multi 21 keys".into(), sc, vec![0]));
        let mut sc = vec![0x51];
        for i in 0..20u32 { sc.extend(push(&k(i))); }
        sc.extend([0x01, 0x14, 0xae]);
        refused.push(("multi 20 keys (admitted)".into(), sc, vec![0]));
    }
    for (reason, script, signers) in &refused {
        let multi = reason.starts_with("multi ");
        let mk = |segwit: bool| -> Vec<Vec<u8>> {
            let mut v: Vec<Vec<u8>> = if multi { vec![vec![]] } else { vec![] };
            v.extend(signers.iter().map(|id| sg(script, segwit, *id)));
            v
        };
        wrappers(out, &mut go, script, &mk(false), &mk(true), &format!("refused-today: {}", reason));
    }
    // op count: thresh(1, pk, s:pk x 66) has 200 counted opcodes; one / two v:pk in front make 201 / 202
    for extra in [1usize, 2] {
        let n = 67u32;
        let mut sc: Vec<u8> = vec![];
        for e in 0..extra as u32 { sc.extend(push(&k(80 + e))); sc.push(0xad); }
        sc.extend(push(&k(0))); sc.push(0xac);
        for i in 1..n { sc.push(0x7c); sc.extend(push(&k(i))); sc.extend([0xac, 0x93]); }
        sc.extend([0x51, 0x87]);
        let mut w: Vec<Vec<u8>> = (1..n).map(|_| vec![]).collect();
        w.push(sg(&sc, true, 0));
        for e in (0..extra as u32).rev() { w.push(sg(&sc, true, 80 + e)); }
        w.push(sc.clone());
        go(out, ScriptBuf::from_bytes(p2wsh_prog(&sc)), ScriptBuf::new(), w, format!("raw wsh refused-today: {} opcodes", 200 + extra));
    }
    // tap leaves the Tap context refuses: CHECKMULTISIG, a 33-byte key
    {
        let sc = cat(&[&[0x51], &push(&x(0)), &push(&x(1)), &[0x52, 0xae]]);
        let (spk, cb) = tr_commit(&sc, 0xc0, &[]);
        let s0 = schnorr_sign_leaf(&tx, &spk, &sc, 0).unwrap_or_default();
        go(out, spk, ScriptBuf::new(), vec![vec![], s0, sc.clone(), cb], "raw tr refused-today: multi in a tap leaf".into());
    }
    out.note("raw_channel_accepted", n_acc.get().to_string());
}

/// combinator-over-cast towers: the sugar casts t: (and_v(X,1)), l: (or_i(0,X)), u: (or_i(X,0)) over
/// atoms and over one another, under every combinator position that takes a B / W / V argument, kept
/// when the context types the result B
fn cast_towers(ctx: CtxK) -> Vec<Node> {
    use Node::*;
    let b = if ctx == CtxK::Tap { 200 } else { 0 };
    let bx = |n: Node| Box::new(n);
    let pk = |i: u32| Check(bx(PkK(b + i)));
    let t = |x: Node| AndV(bx(x), bx(True));
    let l = |x: Node| OrI(bx(False), bx(x));
    let u = |x: Node| OrI(bx(x), bx(False));
    let v = |x: Node| Verify(bx(x));
    let casts: Vec<Node> = vec![
        t(v(pk(0))), t(v(Hash(ast::HK::Sha256, 0))), t(v(Older(10))),
        l(pk(0)), l(After(100)), l(Hash(ast::HK::Hash160, 1)),
        u(pk(0)), u(Older(10)),
        u(l(pk(0))), l(u(pk(0))), t(v(u(pk(0)))), u(t(v(pk(0)))), l(t(v(Older(10)))),
    ];
    let mut out = vec![];
    for c in &casts {
        let cands = vec![
            c.clone(),
            AndB(bx(pk(7)), bx(Alt(bx(c.clone())))),
            OrB(bx(pk(7)), bx(Alt(bx(c.clone())))),
            OrD(bx(c.clone()), bx(pk(7))),
            OrI(bx(c.clone()), bx(pk(7))),
            AndOr(bx(c.clone()), bx(pk(7)), bx(pk(8))),
            AndOr(bx(pk(7)), bx(c.clone()), bx(pk(8))),
            AndOr(bx(pk(7)), bx(pk(8)), bx(c.clone())),
            Thresh(2, vec![pk(7), Alt(bx(c.clone())), Swap(bx(pk(8)))]),
            AndV(bx(v(c.clone())), bx(pk(7))),
            AndV(bx(OrC(bx(c.clone()), bx(v(pk(7))))), bx(True)),
            NonZero(bx(c.clone())),
            AndB(bx(pk(7)), bx(Alt(bx(ZeroNotEqual(bx(c.clone())))))),
            AndV(bx(v(pk(7))), bx(DupIf(bx(v(c.clone()))))),
        ];
        for n in cands {
            let ok = match ctx {
                CtxK::Segwitv0 => ast::to_ms::<PublicKey, miniscript::Segwitv0>(&n).map(|m| m.ty.corr.base == Base::B).unwrap_or(false),
                CtxK::Legacy => ast::to_ms::<PublicKey, miniscript::Legacy>(&n).map(|m| m.ty.corr.base == Base::B).unwrap_or(false),
                CtxK::Bare => ast::to_ms::<PublicKey, miniscript::BareCtx>(&n).map(|m| m.ty.corr.base == Base::B).unwrap_or(false),
                CtxK::Tap => ast::to_ms::<XOnlyPublicKey, miniscript::Tap>(&n).map(|m| m.ty.corr.base == Base::B).unwrap_or(false),
            };
            if ok && !out.contains(&n) { out.push(n); }
        }
    }
    out
}

/* ------------------------------------------------------------------ driver */

fn dassets_subsets(nodes: &[&Node], cap: usize) -> Vec<DAssets> {
    let mut full = DAssets::full(nodes);
    // the keys behind raw key hashes sign too
    for n in nodes { let mut r = vec![]; n.rawpkhs(&mut r); for h in r { full.keys.insert(h % 100); } }
    let mut v = vec![full.clone()];
    for k in full.keys.iter() { let mut a = full.clone(); a.keys.remove(k); v.push(a); }
    for p in full.pre.iter() { let mut a = full.clone(); a.pre.remove(p); v.push(a); }
    for x in full.after.iter() { let mut a = full.clone(); a.after.remove(x); v.push(a); }
    for x in full.older.iter() { let mut a = full.clone(); a.older.remove(x); v.push(a); }
    v.dedup();
    v.truncate(cap);
    v
}

fn key_ids(nodes: &[&Node], extra: &[u32]) -> Vec<u32> {
    let mut ks = vec![];
    for n in nodes { n.keys(&mut ks); }
    for n in nodes { n.rawpkhs(&mut ks); }
    let mut v: Vec<u32> = ks.iter().map(|k| k % 100).chain(extra.iter().cloned()).collect();
    v.push(7); // a key that is not part of the descriptor ("another key's signature")
    v.sort(); v.dedup();
    v
}

pub fn run(out: &mut Out, thorough: bool, seed: u64) {
    let mut rng = Rng(seed ^ 0xC13);
    ast::emit_defs(out);
    // raw pkh of the uncompressed key used by the thorough atoms
    for id in 100..104 { out.line(&format!("D rawpkh {} {}", id, hex(ast::raw_pkh(id).as_byte_array())), "ok"); }
    let n_mut = if thorough { 36 } else { 14 };
    let mut n_desc = 0u64;
    // a corpus of descriptors that exercise the interpreter's special arms
    let k = |i: u32| Box::new(Node::Check(Box::new(Node::PkK(i))));
    let corpus_v0: Vec<Node> = vec![
        Node::True,
        Node::After(100),
        Node::AndV(Box::new(Node::Verify(k(0))), Box::new(Node::After(100))),
        Node::AndV(Box::new(Node::Verify(k(0))), Box::new(Node::Older(10))),
        Node::AndV(Box::new(Node::Verify(k(0))), Box::new(Node::After(500_000_001))),
        Node::AndV(Box::new(Node::Verify(k(0))), Box::new(Node::Older(4_194_305))),
        Node::Multi(2, vec![0, 1, 2]),
        Node::SortedMulti(2, vec![2, 1, 0]),
        Node::Thresh(2, vec![*k(0), Node::Swap(k(1)), Node::Swap(k(2))]),
        Node::Thresh(1, vec![*k(0), Node::Alt(Box::new(Node::Hash(ast::HK::Sha256, 0)))]),
        Node::OrD(k(0), Box::new(Node::AndV(Box::new(Node::Verify(k(1))), Box::new(Node::Older(10))))),
        Node::AndOr(k(0), Box::new(Node::After(100)), k(1)),
        Node::OrI(k(0), Box::new(Node::AndV(Box::new(Node::Verify(Box::new(Node::Hash(ast::HK::Hash160, 1)))), k(1)))),
        Node::AndB(k(0), Box::new(Node::Alt(Box::new(Node::NonZero(Box::new(Node::Multi(1, vec![1, 2]))))))),
        Node::OrB(k(0), Box::new(Node::Alt(Box::new(Node::DupIf(Box::new(Node::Verify(Box::new(Node::After(100))))))))),
        Node::Check(Box::new(Node::PkH(0))),
        // all four hash-lock kinds, whatever the shared atoms of the tier contain
        Node::AndV(Box::new(Node::Verify(k(0))), Box::new(Node::Hash(ast::HK::Sha256, 0))),
        Node::AndV(Box::new(Node::Verify(k(0))), Box::new(Node::Hash(ast::HK::Hash256, 2))),
        Node::AndV(Box::new(Node::Verify(k(0))), Box::new(Node::Hash(ast::HK::Ripemd160, 3))),
        Node::AndV(Box::new(Node::Verify(k(0))), Box::new(Node::Hash(ast::HK::Hash160, 1))),
        Node::OrD(k(0), Box::new(Node::AndB(Box::new(Node::Hash(ast::HK::Hash256, 2)), Box::new(Node::Alt(Box::new(Node::Hash(ast::HK::Ripemd160, 3))))))),
    ];
    for (ctx, wraps) in [(CtxK::Segwitv0, vec![Wrap::Wsh, Wrap::ShWsh]), (CtxK::Legacy, vec![Wrap::Sh]), (CtxK::Bare, vec![Wrap::Bare])] {
        let atoms = ast::default_atoms(ctx, !thorough);
        let mut nodes: Vec<Node> = corpus_v0.clone();
        let frags = ast::enumerate(ctx, &atoms, if thorough { 4 } else { 3 }, if thorough { 24 } else { 5 }, &mut rng);
        nodes.extend(frags.iter().filter(|t| t.base == Base::B).map(|t| t.node.clone()));
        // the shared designated fragments (every tier): fewer asset subsets / mutations each
        let n_wide = nodes.len();
        let towers = ast::wrapper_towers(ctx);
        for dn in ast::dimension_corpus(ctx) { if !nodes.contains(&dn) { nodes.push(dn); } }
        let n_cast = nodes.len();
        for dn in cast_towers(ctx) { if !nodes.contains(&dn) { nodes.push(dn); } }
        if ctx == CtxK::Segwitv0 {
            // a raw key hash whose key is UNCOMPRESSED: the script names no key, so the Segwitv0 context
            // admits it; the 65-byte key only shows up in the witness (see `handbuilt_segwit_keys`)
            nodes.push(Node::Check(Box::new(Node::RawPkH(100))));
            nodes.push(Node::AndV(Box::new(Node::Verify(k(0))), Box::new(Node::Check(Box::new(Node::RawPkH(101))))));
        }
        for (ni, node) in nodes.iter().enumerate() {
            let dim = ni >= n_wide;
            // towers: what matters is that the tower is executed satisfied AND dissatisfied (full assets,
            // without the outer key 7, without the tower's own keys), not the mutation classes
            let tower = dim && (ni >= n_cast || towers.contains(node));
            // the slot sweep runs on the hand corpus and the designated non-tower fragments
            SWEEP.with(|c| c.set(ni < corpus_v0.len() || (dim && !tower)));
            for w in &wraps {
                if let Some(d) = desc::build_desc(*w, node, 0) {
                    n_desc += 1;
                    node.count_frags(out);
                    let sane = match ctx {
                        CtxK::Segwitv0 => ast::to_ms::<PublicKey, miniscript::Segwitv0>(node).map(|m| m.validate(&<miniscript::Segwitv0 as miniscript::ScriptContext>::SANE).is_ok()).unwrap_or(false),
                        CtxK::Legacy => ast::to_ms::<PublicKey, miniscript::Legacy>(node).map(|m| m.validate(&<miniscript::Legacy as miniscript::ScriptContext>::SANE).is_ok()).unwrap_or(false),
                        _ => ast::to_ms::<PublicKey, miniscript::BareCtx>(node).map(|m| m.validate(&<miniscript::BareCtx as miniscript::ScriptContext>::SANE).is_ok()).unwrap_or(false),
                    };
                    let hl = { let (mut a, mut o) = (vec![], vec![]); for n in [node] { n.locks(&mut a, &mut o); } (!a.is_empty(), !o.is_empty()) };
                    let case = Case { desc: &d, node: Some(node), ctx, key_ids: key_ids(&[node], &[]), info: format!("{}", d), sane, has_after: hl.0, has_older: hl.1, single_key: None };
                    let (cap, nm) = if tower { (if thorough { 5 } else { 3 }, if thorough { 8 } else { 2 }) }
                        else if dim { (if thorough { 4 } else { 2 }, if thorough { 16 } else { 6 }) } else { (if thorough { 8 } else { 3 }, n_mut) };
                    let mut subsets = dassets_subsets(&[node], 12);
                    if tower { if let Some(p) = subsets.iter().position(|a| !a.keys.contains(&7)) { let a = subsets.remove(p); subsets.insert(1.min(subsets.len()), a); } }
                    subsets.truncate(cap);
                    for (ai, a) in subsets.into_iter().enumerate() {
                        let mut prev = None;
                        for mall in [false, true] { do_case(out, &mut rng, &case, &[], &a, mall, nm, &mut prev, ai == 0 && (!dim || thorough || *w != Wrap::ShWsh)); }
                    }
                }
            }
        }
    }
    SWEEP.with(|c| c.set(true));
    for w in [Wrap::Pkh, Wrap::Wpkh, Wrap::ShWpkh] {
        for key in [0u32, 1, 100] {
            if let Some(d) = desc::build_desc(w, &Node::True, key) {
                n_desc += 1;
                let mut a = DAssets::default();
                a.keys.insert(key % 100);
                let case = Case { desc: &d, node: None, ctx: CtxK::Legacy, key_ids: key_ids(&[], &[key % 100]), info: format!("{}", d), sane: true, has_after: false, has_older: false, single_key: Some(ast::full_key(key).to_bytes()) };
                do_case(out, &mut rng, &case, &[], &a, false, n_mut * 2, &mut None, true);
            }
        }
    }
    // taproot
    {
        let ctx = CtxK::Tap;
        let atoms = ast::default_atoms(ctx, !thorough);
        let kt = |i: u32| Box::new(Node::Check(Box::new(Node::PkK(200 + i))));
        let mut frags: Vec<Node> = vec![
            Node::True,
            *kt(0),
            Node::MultiA(2, vec![200, 201, 202]),
            Node::SortedMultiA(1, vec![202, 201]),
            Node::AndV(Box::new(Node::Verify(kt(0))), Box::new(Node::After(100))),
            Node::AndV(Box::new(Node::Verify(kt(0))), Box::new(Node::Older(10))),
            Node::Thresh(2, vec![*kt(0), Node::Swap(kt(1)), Node::Alt(Box::new(Node::Hash(ast::HK::Sha256, 0)))]),
            Node::Check(Box::new(Node::PkH(200))),
            Node::AndV(Box::new(Node::Verify(kt(0))), Box::new(Node::Hash(ast::HK::Hash256, 2))),
            Node::AndV(Box::new(Node::Verify(kt(0))), Box::new(Node::Hash(ast::HK::Ripemd160, 3))),
            Node::AndV(Box::new(Node::Verify(kt(0))), Box::new(Node::Hash(ast::HK::Hash160, 1))),
        ];
        frags.extend(ast::enumerate(ctx, &atoms, if thorough { 3 } else { 2 }, if thorough { 30 } else { 8 }, &mut rng)
            .into_iter().filter(|t| t.base == Base::B).map(|t| t.node));
        let n_hand = 11usize;
        let n_wide = frags.len();
        let towers = ast::wrapper_towers(ctx);
        for dn in ast::dimension_corpus(ctx) { if !frags.contains(&dn) { frags.push(dn); } }
        let n_cast = frags.len();
        for dn in cast_towers(ctx) { if !frags.contains(&dn) { frags.push(dn); } }
        let n_frags = frags.len();
        if let Some(d) = desc::build_tr(3, &[]) {
            for sa in [false, true] {
                let mut a = DAssets::default(); a.tapkey = true; a.schnorr_all = sa;
                let case = Case { desc: &d, node: None, ctx, key_ids: vec![3, 7], info: format!("{}", d), sane: true, has_after: false, has_older: false, single_key: None };
                do_case(out, &mut rng, &case, &[], &a, false, n_mut * 2, &mut None, true);
            }
        }
        // single leaves (every fragment once), then random small trees
        let n_tr = if thorough { 600 } else { 60 };
        let mut trees: Vec<Vec<Node>> = frags.iter().map(|f| vec![f.clone()]).collect();
        for _ in 0..n_tr {
            let nl = 2 + rng.below(3);
            trees.push((0..nl).map(|_| { let m = if rng.below(4) == 0 { frags.len() } else { n_wide }; frags[rng.below(m)].clone() }).collect());
        }
        for (i, leaves) in trees.iter().enumerate() {
            if let Some(d) = desc::build_tr(3, leaves) {
                n_desc += 1;
                let refs: Vec<&Node> = leaves.iter().collect();
                let sane = leaves.iter().all(|l| ast::to_ms::<PublicKey, miniscript::Tap>(l).map(|m| m.validate(&<miniscript::Tap as miniscript::ScriptContext>::SANE).is_ok()).unwrap_or(false));
                let hl = { let (mut a, mut o) = (vec![], vec![]); for n in leaves.iter() { n.locks(&mut a, &mut o); } (!a.is_empty(), !o.is_empty()) };
                let case = Case { desc: &d, node: None, ctx, key_ids: key_ids(&refs, &[3]), info: format!("{}", d), sane, has_after: hl.0, has_older: hl.1, single_key: None };
                // single leaves i < n_frags: designation as in the other streams
                let tower = i < n_frags && i >= n_wide && (i >= n_cast || towers.contains(&leaves[0]));
                SWEEP.with(|c| c.set(i < n_hand || (i < n_frags && i >= n_wide && !tower)));
                let mut subsets = dassets_subsets(&refs, 12);
                if tower { if let Some(p) = subsets.iter().position(|a| !a.keys.contains(&7)) { let a = subsets.remove(p); subsets.insert(1.min(subsets.len()), a); } }
                subsets.truncate(if tower { if thorough { 5 } else { 3 } } else if thorough { 4 } else { 2 });
                let n_mut = if tower { if thorough { 8 } else { 2 } } else { n_mut };
                for (ai, mut a) in subsets.into_iter().enumerate() {
                    a.tapkey = i % 7 == 0;
                    a.schnorr_all = i % 3 == 0;
                    let mut prev = None;
                    for mall in [false, true] { do_case(out, &mut rng, &case, leaves, &a, mall, n_mut, &mut prev, ai == 0); }
                }
            }
        }
    }
    SWEEP.with(|c| c.set(false));
    // ---- segwit v0 and the form of the key
    handbuilt_segwit_keys(out);
    // ---- txdata no encoder produces, judged
    raw_channel(out);
    // ---- arbitrary shapes: nothing may panic
    adversarial(out, &mut rng, if thorough { 30_000 } else { 3_000 });
    out.note("descriptors", n_desc.to_string());
    out.note("distinct_nontrivial", n_desc.to_string());
    out.note("domain", "corpus + all B-typed fragments to depth 2/3 (quota-thinned) in wsh / sh-wsh / sh / bare, pkh / wpkh / sh-wpkh, tr key path and tr script path (single leaves and random trees) x asset subsets x {nonmall, mall} x (base tx; re-signed variants of version / nLockTime / nSequence around every lock; mutations of scriptSig and witness: drop, duplicate, swap, replace by empty / 1 / 2 / 0x00 / 32 zero bytes / junk DER / other keys' and other sighash types' valid signatures, flipped sighash byte, flipped bit, 0x00 / 0x01 appended to Schnorr signatures, annex, extra element, non-minimal push; another valid key alone / with its valid signature in every key-hash position; consistently replaced redeem script + witness in nested segwit; 01 added to the wrong stack on every output type) + the shared dimension corpus in every stream (incl. uncompressed keys in bare / sh / multi and raw key hashes) + every first-subset spend again as input 1 of a two-input transaction (Prevouts::All, One(0), One(1), stale index-0 signatures) + hand-built segwit-v0 spends with uncompressed keys + ROUTES on every base spend (accessors, verify_sig on every key x signature element and with an out-of-range index, second iteration over the same Interpreter) + slot sweep on the hand corpus and the designated non-tower fragments (every satisfaction slot := empty / 1 / parseable junk signature / valid signature of every key; every pair of slots swapped; real and assume mode) + wrapper towers and combinator-over-cast towers (t: l: u: under every combinator position) with asset subsets ordered so that the tower runs satisfied AND dissatisfied + RAW CHANNEL judged for soundness (inner scripts of length 0..3 behind sh / wsh / sh-wsh / bare / tap leaf, witness-program look-alikes one byte short / long for versions 0, 1, 2, 16, -1 as scriptPubKey and as redeem script, control blocks at depth 0..3 with valid commitments over arbitrary leaves, both parities, truncated / extended / annex-tagged, leaf version c2 observed only; refused-today scripts: top-level K / V / W, missing s:, multi_a and x-only key in v0, CHECKMULTISIG in a tap leaf, pushdata1 key, non-minimal k, trailing opcode, 21-key multi next to 20, 202 opcodes next to 201) + the adversarial stream judged for soundness when anything is accepted".into());
}

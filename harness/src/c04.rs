//! C04: script encoding and decoding are inverse and canonical (lexer + decoder, all decode entry
//! points, predicted script size).
//!
//! VALID stream — every enumerated / random / corpus fragment `from_ast` accepts (EVERY base type),
//! in each context:
//!   C encode / C scriptsize      library encoding and `script_size()` vs the Lean models
//!   J size <ctx> <ast> <size>    `script_size()` = length of the Lean encoding
//!   C lex <hex>                  library `lex::lex` on the encoding  vs Lean `lex`
//!   J toks <ctx> <ast> <tokens>  library tokens = structural `tokens` of the Lean model (T2a)
//!   C decode <ctx> <hex> <inv>   library `decode_consensus`          vs Lean `decodeScript`
//!   C decodep <ctx> <consensus|max> <hex> <inv>
//!                                `decode_with_validation_params(.., &Ctx::CONSENSUS | &MAX)` vs `decodeScriptP`
//!   J rt <ctx> <ast> <hex> <entry> <decoded> <reenc> <ty0> <ty1>
//!                                the library's own round trip judged by Lean (decoded AST = decoder
//!                                normal form of the original, byte-identical re-encoding, identical
//!                                type): through `decode_consensus` and `params-consensus` when the
//!                                miniscript is consensus-valid in the context, and through
//!                                `params-max` for EVERY accepted miniscript that is not of base W
//!                                and through `sane` (`Miniscript::decode`) for every miniscript that
//!                                passes `validate(&Ctx::SANE)` and has no pk_h / raw_pkh (with one,
//!                                `decode` refuses its own encoding: counted as an observation)
//!   J canon <ctx[:entry]> <hex> <ERR | re-encoded hex>   accepted ⇒ re-encodes to the input
//!   J canon / J dsize <ctx>:clone | <ctx>:again   USED objects: the encoding and `script_size()` of a
//!                                `clone()` and of the original after it has been encoded, sized,
//!                                lexed and validated once equal the first encoding
//!   J tapfull <ast> <hex> <decoded>   Taproot over FULL keys: script = encoding of the x-only
//!                                translation, decoding returns that translation
//! Designated corpora (all unsliced, quick tier): own `corpus` (script-number boundaries of after /
//! older / thresh k / multi k,n / multi_a k,n incl. 16|17), `ast::dimension_corpus`, the FULL
//! `ast::wrapper_towers`, `verify_towers` (`v:` over every fragment with and without a free verify,
//! over n: j: d: towers and over casts l: u: t:, in seven embeddings), `templates` (one minimal
//! script per fragment), and `refused_corpus`: miniscripts `from_ast` refuses TODAY for exactly one
//! reason each (lock 0 / bit 31, thresh k = 0 / k > n, one type error per combinator, each context
//! rule, each size limit + 1, tree height 403) - counted while refused, pushed through the whole
//! valid stream the day one is accepted.
//! MALFORMED stream — every fragment template with each instruction deleted (`del1`) and each of
//! VERIFY / 0NOTEQUAL / 1 / EQUAL inserted at every boundary (`ins1`), every 20/32/33/65-byte push
//! replaced by a registered string of each other length class (`swaplen`), every opcode with a
//! VERIFY twin fused / split, ALL 1-byte scripts, all 2- and 3-opcode scripts over the decoder's
//! alphabet, pushes of 255 / 520 / 521 bytes; mutations of valid scripts, non-minimal pushes / numbers / verifies,
//! key↔hash swaps, truncation, trailing garbage, deep nesting, huge multi: C lex, C decode,
//! C decodep (both parameter sets), `J canon` for all four entry points, `J lexcanon`
//! (accepted ⇒ canonical serialisation of its tokens) and `J nopanic` (`catch_unwind`).
//!
//! Atoms.  The Lean decoder names keys / hashes by reverse lookup in the `D` tables; a 20/32/33/65-
//! byte push that is not registered becomes an OPAQUE atom `x<hex>` on both sides, so `C decode` /
//! `C decodep` are emitted for EVERY input.  The only fact the model cannot compute is whether an
//! unknown 32/33/65-byte string is a curve point: `<inv>` lists the key-like pushes of the input
//! that libsecp (`from_slice`, an oracle, not code under test) rejects.  Key ids >= 900 register
//! byte strings that the library rejects as keys.
use std::collections::{HashMap, HashSet};
use std::panic::{catch_unwind, AssertUnwindSafe};

use miniscript::bitcoin::hashes::{hash160, Hash};
use miniscript::bitcoin::secp256k1::XOnlyPublicKey;
use miniscript::bitcoin::{PublicKey, ScriptBuf};
use miniscript::miniscript::decode::ParseableKey;
use miniscript::miniscript::lex::{self, Token};
use miniscript::miniscript::types::Base;
use miniscript::{Miniscript, MiniscriptKey, ScriptContext, Terminal};

use crate::ast::{self, hex, CtxK, KeyOf, Node, HK};
use crate::c05::ts;
use crate::common::{Out, Rng};
use crate::with_ctx;

/* ------------------------------------------------------------------ atom universe */

pub struct Universe {
    /// serialisation -> key id (valid keys < 900, rejected byte strings >= 900)
    keys: HashMap<Vec<u8>, u32>,
    rawpkh: HashMap<Vec<u8>, u32>,
    hashes: HashMap<(HK, Vec<u8>), u32>,
    known: HashSet<Vec<u8>>,
}

fn hash_kinds_for_len(len: usize) -> &'static [HK] {
    if len == 32 { &[HK::Sha256, HK::Hash256] } else { &[HK::Ripemd160, HK::Hash160] }
}

impl Universe {
    /// writes the supplementary `D` lines and returns the reverse maps
    pub fn build(out: &mut Out) -> Universe {
        let mut u = Universe { keys: HashMap::new(), rawpkh: HashMap::new(), hashes: HashMap::new(), known: HashSet::new() };
        // what ast::emit_defs already sent
        for id in (0..10).chain(100..104) { u.keys.insert(ast::full_key(id).to_bytes(), id); }
        for id in 200..210 { u.keys.insert(ast::xonly_key(id).serialize().to_vec(), id); }
        for kind in HK::ALL { for h in 0..4 { u.hashes.insert((kind, ast::hash_value(kind, h)), h); } }
        for h in (0..4).chain(100..104).chain(200..204) { u.rawpkh.insert(ast::raw_pkh(h).to_byte_array().to_vec(), h); }
        // (a) raw pkh atom for every key id
        for h in (4..10).chain(204..210) {
            let v = ast::raw_pkh(h).to_byte_array().to_vec();
            out.line(&format!("D rawpkh {} {}", h, hex(&v)), "ok");
            u.rawpkh.insert(v, h);
        }
        // a few deliberately odd strings: 33/65-byte strings with a good prefix that are no keys
        let mut extra33 = vec![2u8; 33]; extra33[1] = 0; // 02 00 02 02 …
        let mut extra65 = vec![4u8; 65]; extra65[1] = 0;
        let mut strings: Vec<Vec<u8>> = vec![extra33, extra65, vec![0u8; 32], vec![0xffu8; 32], vec![0u8; 20]];
        strings.extend(u.keys.keys().cloned());
        strings.extend(u.rawpkh.keys().cloned());
        strings.extend(u.hashes.keys().map(|(_, v)| v.clone()));
        strings.sort();
        strings.dedup();
        // (b) every string in every role
        let (mut next_valid, mut next_invalid, mut next_hash, mut next_raw) = (300u32, 900u32, 10u32, 300u32);
        for s in &strings {
            u.known.insert(s.clone());
            match s.len() {
                32 | 33 | 65 => {
                    if !u.keys.contains_key(s) {
                        let ok = if s.len() == 32 { XOnlyPublicKey::from_slice(s).is_ok() } else { PublicKey::from_slice(s).is_ok() };
                        let id = if ok { next_valid += 1; next_valid } else { next_invalid += 1; next_invalid };
                        let pkh = hash160::Hash::hash(s);
                        out.line(&format!("D key {} {} {} {}", id, hex(s), hex(s), hex(pkh.as_byte_array())), "ok");
                        u.keys.insert(s.clone(), id);
                    }
                }
                _ => {}
            }
            if s.len() == 32 || s.len() == 20 {
                for kind in hash_kinds_for_len(s.len()) {
                    if !u.hashes.contains_key(&(*kind, s.clone())) {
                        next_hash += 1;
                        out.line(&format!("D hash {} {} {} {}", kind.name(), next_hash, hex(s), "00"), "ok");
                        u.hashes.insert((*kind, s.clone()), next_hash);
                    }
                }
            }
            if s.len() == 20 && !u.rawpkh.contains_key(s) {
                next_raw += 1;
                out.line(&format!("D rawpkh {} {}", next_raw, hex(s)), "ok");
                u.rawpkh.insert(s.clone(), next_raw);
            }
        }
        u
    }
    fn all_known(&self, toks: &[Token]) -> bool {
        toks.iter().all(|t| match t {
            Token::Hash20(b) => self.known.contains(&b[..]),
            Token::Bytes32(b) => self.known.contains(&b[..]),
            Token::Bytes33(b) => self.known.contains(&b[..]),
            Token::Bytes65(b) => self.known.contains(&b[..]),
            _ => true,
        })
    }
}

pub trait KeyBytes { fn key_bytes(&self) -> Vec<u8>; }
impl KeyBytes for PublicKey { fn key_bytes(&self) -> Vec<u8> { self.to_bytes() } }
impl KeyBytes for XOnlyPublicKey { fn key_bytes(&self) -> Vec<u8> { self.serialize().to_vec() } }

pub trait CKey: KeyOf + KeyBytes + ParseableKey {}
impl CKey for PublicKey {}
impl CKey for XOnlyPublicKey {}

/// library AST -> wire text by reverse lookup of the atoms; a key / hash that is not in the
/// tables prints as the OPAQUE atom `x<hex of its bytes>` (same convention as the Lean driver)
fn to_wire<Pk: CKey, Ctx: ScriptContext>(u: &Universe, ms: &Miniscript<Pk, Ctx>) -> String {
    let sub = |x: &Miniscript<Pk, Ctx>| -> String { to_wire(u, x) };
    let opaque = |b: &[u8]| -> String { format!("x{}", hex(b)) };
    let key = |k: &Pk| -> String { let b = k.key_bytes(); match u.keys.get(&b) { Some(id) if *id < 900 => id.to_string(), _ => opaque(&b) } };
    let keys = |it: &mut dyn Iterator<Item = &Pk>| -> String { it.map(|k| key(k)).collect::<Vec<_>>().join(",") };
    let h = |kind: HK, v: &[u8]| -> String { match u.hashes.get(&(kind, v.to_vec())) { Some(id) => id.to_string(), None => opaque(v) } };
    match &ms.node {
        Terminal::True => "1".into(),
        Terminal::False => "0".into(),
        Terminal::PkK(k) => format!("pk_k({})", key(k)),
        Terminal::PkH(k) => format!("pk_h({})", key(k)),
        Terminal::RawPkH(hh) => { let b = hh.to_byte_array().to_vec(); format!("raw_pkh({})", match u.rawpkh.get(&b) { Some(id) => id.to_string(), None => opaque(&b) }) }
        Terminal::After(n) => format!("after({})", n.to_consensus_u32()),
        Terminal::Older(n) => format!("older({})", n.to_consensus_u32()),
        Terminal::Sha256(x) => format!("sha256({})", h(HK::Sha256, &x.to_byte_array())),
        Terminal::Hash256(x) => format!("hash256({})", h(HK::Hash256, &x.to_byte_array())),
        Terminal::Ripemd160(x) => format!("ripemd160({})", h(HK::Ripemd160, &x.to_byte_array())),
        Terminal::Hash160(x) => format!("hash160({})", h(HK::Hash160, &x.to_byte_array())),
        Terminal::Alt(x) => format!("a({})", sub(x)),
        Terminal::Swap(x) => format!("s({})", sub(x)),
        Terminal::Check(x) => format!("c({})", sub(x)),
        Terminal::DupIf(x) => format!("d({})", sub(x)),
        Terminal::Verify(x) => format!("v({})", sub(x)),
        Terminal::NonZero(x) => format!("j({})", sub(x)),
        Terminal::ZeroNotEqual(x) => format!("n({})", sub(x)),
        Terminal::AndV(a, b) => format!("and_v({},{})", sub(a), sub(b)),
        Terminal::AndB(a, b) => format!("and_b({},{})", sub(a), sub(b)),
        Terminal::AndOr(a, b, c) => format!("andor({},{},{})", sub(a), sub(b), sub(c)),
        Terminal::OrB(a, b) => format!("or_b({},{})", sub(a), sub(b)),
        Terminal::OrD(a, b) => format!("or_d({},{})", sub(a), sub(b)),
        Terminal::OrC(a, b) => format!("or_c({},{})", sub(a), sub(b)),
        Terminal::OrI(a, b) => format!("or_i({},{})", sub(a), sub(b)),
        Terminal::Thresh(t) => format!("thresh({},{})", t.k(), t.iter().map(|x| to_wire(u, x)).collect::<Vec<_>>().join(",")),
        Terminal::Multi(t) => format!("multi({},{})", t.k(), keys(&mut t.iter())),
        Terminal::SortedMulti(t) => format!("sortedmulti({},{})", t.k(), keys(&mut t.iter())),
        Terminal::MultiA(t) => format!("multi_a({},{})", t.k(), keys(&mut t.iter())),
        Terminal::SortedMultiA(t) => format!("sortedmulti_a({},{})", t.k(), keys(&mut t.iter())),
    }
}

/// the key-like pushes of a token list that libsecp (an oracle, not code under test) rejects:
/// the one fact about unknown byte strings the Lean model cannot compute
fn rejected_keys(toks: &Option<Vec<Token>>) -> String {
    let mut v: Vec<String> = vec![];
    if let Some(ts) = toks {
        for t in ts {
            let bad = match t {
                Token::Bytes32(b) => if XOnlyPublicKey::from_slice(&b[..]).is_err() { Some(hex(&b[..])) } else { None },
                Token::Bytes33(b) => if PublicKey::from_slice(&b[..]).is_err() { Some(hex(&b[..])) } else { None },
                Token::Bytes65(b) => if PublicKey::from_slice(&b[..]).is_err() { Some(hex(&b[..])) } else { None },
                _ => None,
            };
            if let Some(h) = bad { if !v.contains(&h) { v.push(h); } }
        }
    }
    if v.is_empty() { "-".into() } else { v.join(",") }
}

/* ------------------------------------------------------------------ answers */

fn lex_err_kind(e: &lex::Error) -> &'static str {
    match e {
        lex::Error::Script(_) => "script",
        lex::Error::InvalidInt { .. } => "invalidint",
        lex::Error::NegativeInt { .. } => "negativeint",
        lex::Error::InvalidOpcode(_) => "invalidopcode",
        lex::Error::NonMinimalVerify(_) => "nonminimalverify",
    }
}

fn err_kind(e: &miniscript::Error) -> String {
    use miniscript::Error as E;
    match e {
        E::ScriptLexer(le) => format!("ERR:lex:{}", lex_err_kind(le)),
        E::Unexpected(_) => "ERR:unexpected".into(),
        E::UnexpectedStart => "ERR:unexpectedstart".into(),
        E::PubKeyCtxError(..) => "ERR:key".into(),
        E::AbsoluteLockTime(_) | E::RelativeLockTime(_) => "ERR:locktime".into(),
        E::Threshold(_) => "ERR:threshold".into(),
        E::TypeCheck(_) => "ERR:typecheck".into(),
        E::ContextError(_) => "ERR:context".into(),
        E::MaxRecursiveDepthExceeded => "ERR:recursion".into(),
        E::Trailing(_) => "ERR:trailing".into(),
        E::Validation(_) => "ERR:validation".into(),
        other => format!("ERR:other:{}", format!("{:?}", other).split(|c: char| !c.is_alphanumeric()).next().unwrap_or("")),
    }
}

fn tokens_wire(ts: &[Token]) -> String {
    if ts.is_empty() { return "-".into(); }
    ts.iter().map(|t| t.to_string()).collect::<Vec<_>>().join(",")
}

fn script_hex(b: &[u8]) -> String { hex(b) }

/// library lexer under catch_unwind: tokens wire | ERR:<kind> | PANIC
fn lib_lex(bytes: &[u8]) -> (String, Option<Vec<Token>>) {
    let s = ScriptBuf::from_bytes(bytes.to_vec());
    match catch_unwind(AssertUnwindSafe(|| lex::lex(&s))) {
        Ok(Ok(ts)) => (tokens_wire(&ts), Some(ts)),
        Ok(Err(e)) => (format!("ERR:{}", lex_err_kind(&e)), None),
        Err(_) => ("PANIC".into(), None),
    }
}

struct Dec { wire: String, reenc: Option<Vec<u8>>, ty: Option<String>, size: Option<usize>, panicked: bool }

#[derive(Clone, Copy, PartialEq)]
enum Mode { Consensus, Sane, ParamsConsensus, ParamsMax }

fn lib_decode<Pk: CKey, Ctx: ScriptContext<Key = Pk>>(u: &Universe, bytes: &[u8], mode: Mode) -> Dec {
    let s = ScriptBuf::from_bytes(bytes.to_vec());
    let r = catch_unwind(AssertUnwindSafe(|| {
        let d = match mode {
            Mode::Consensus => Miniscript::<Pk, Ctx>::decode_consensus(&s),
            Mode::Sane => Miniscript::<Pk, Ctx>::decode(&s),
            Mode::ParamsConsensus => Miniscript::<Pk, Ctx>::decode_with_validation_params(&s, &Ctx::CONSENSUS),
            Mode::ParamsMax => Miniscript::<Pk, Ctx>::decode_with_validation_params(&s, &miniscript::ValidationParams::MAX),
        };
        d.map(|ms| {
            let re = ms.encode().into_bytes();
            (to_wire(u, &ms), re, ts(&ms.ty), ms.script_size())
        })
    }));
    match r {
        Ok(Ok((wire, re, ty, sz))) => Dec { wire, reenc: Some(re), ty: Some(ty), size: Some(sz), panicked: false },
        Ok(Err(e)) => Dec { wire: err_kind(&e), reenc: None, ty: None, size: None, panicked: false },
        Err(_) => Dec { wire: "PANIC".into(), reenc: None, ty: None, size: None, panicked: true },
    }
}

/// `script_size()` of a DECODED miniscript against the length of the script it was decoded from.
/// The statement's size claim is about miniscripts accepted under the context's consensus
/// parameters, so it is judged for the three consensus-or-stricter entry points; what only `MAX`
/// lets through (e.g. an uncompressed key in Segwitv0, where `pk_len` is a constant 34) is
/// outside the quantifier: judged too when it agrees, an OBSERVATION when it does not.
fn emit_dsize(out: &mut Out, ctx: CtxK, entry: &str, h: &str, n_bytes: usize, d: &Dec) {
    if let Some(sz) = d.size {
        if entry != "params-max" || sz == n_bytes {
            out.line(&format!("J dsize {}:{} {} {}", ctx.name(), entry, h, sz), "ok");
        } else {
            out.count(&format!("observation: {} accepts under ValidationParams::MAX a script whose script_size() differs from its length", ctx.name()));
            out.note(&format!("observation-maxsize-{}", ctx.name()), format!("script {} ({} bytes) decodes under MAX to a miniscript with script_size() = {}", h, n_bytes, sz));
        }
    }
}

/// all lines for one byte string offered to lexer + decoder (malformed or not)
fn emit_bytes<Pk: CKey, Ctx: ScriptContext<Key = Pk>>(out: &mut Out, u: &Universe, ctx: CtxK, bytes: &[u8], tag: &str) {
    let h = script_hex(bytes);
    let (lx, toks) = lib_lex(bytes);
    out.line(&format!("C lex {}", h), &lx);
    out.line(&format!("J lexcanon {} {}", h, lx), "ok");
    let inv = rejected_keys(&toks);
    if toks.as_ref().map(|t| !u.all_known(t)).unwrap_or(false) { out.count("inputs with opaque (unregistered) atoms, decoded by the model through opaque atoms"); }
    let verdict = |d: &Dec| match &d.reenc { Some(r) => script_hex(r), None => "ERR".to_string() };
    let d = lib_decode::<Pk, Ctx>(u, bytes, Mode::Consensus);
    out.line(&format!("C decode {} {} {}", ctx.name(), h, inv), &d.wire);
    out.line(&format!("J canon {} {} {}", ctx.name(), h, verdict(&d)), "ok");
    let ds = lib_decode::<Pk, Ctx>(u, bytes, Mode::Sane);
    out.line(&format!("J canon {}:sane {} {}", ctx.name(), h, verdict(&ds)), "ok");
    // the explicit-parameter entry point, with the context's CONSENSUS set and with MAX
    let dc = lib_decode::<Pk, Ctx>(u, bytes, Mode::ParamsConsensus);
    out.line(&format!("C decodep {} consensus {} {}", ctx.name(), h, inv), &dc.wire);
    out.line(&format!("J canon {}:params-consensus {} {}", ctx.name(), h, verdict(&dc)), "ok");
    let dm = lib_decode::<Pk, Ctx>(u, bytes, Mode::ParamsMax);
    out.line(&format!("C decodep {} max {} {}", ctx.name(), h, inv), &dm.wire);
    out.line(&format!("J canon {}:params-max {} {}", ctx.name(), h, verdict(&dm)), "ok");
    emit_dsize(out, ctx, "decode_consensus", &h, bytes.len(), &d);
    emit_dsize(out, ctx, "sane", &h, bytes.len(), &ds);
    emit_dsize(out, ctx, "params-consensus", &h, bytes.len(), &dc);
    emit_dsize(out, ctx, "params-max", &h, bytes.len(), &dm);
    let p = lx == "PANIC" || d.panicked || ds.panicked || dc.panicked || dm.panicked;
    out.line(&format!("J nopanic {}:{} {} {}", ctx.name(), tag, h, if p { "PANIC" } else { "ok" }), "ok");
    let cls = if d.reenc.is_some() { "accepted".to_string() } else { d.wire.clone() };
    out.count(&format!("{} {}: {}", tag.split('/').next().unwrap_or(tag), ctx.name(), cls));
    if dm.reenc.is_some() && d.reenc.is_none() { out.count(&format!("{} {}: accepted under MAX only", tag.split('/').next().unwrap_or(tag), ctx.name())); }
}

fn has_key_hash(n: &Node) -> bool {
    use Node::*;
    match n {
        PkH(_) | RawPkH(_) => true,
        Alt(x) | Swap(x) | Check(x) | DupIf(x) | Verify(x) | NonZero(x) | ZeroNotEqual(x) => has_key_hash(x),
        AndV(a, b) | AndB(a, b) | OrB(a, b) | OrD(a, b) | OrC(a, b) | OrI(a, b) => has_key_hash(a) || has_key_hash(b),
        AndOr(a, b, c) => has_key_hash(a) || has_key_hash(b) || has_key_hash(c),
        Thresh(_, xs) => xs.iter().any(has_key_hash),
        _ => false,
    }
}

/// the valid stream for one AST that `from_ast` accepts (any base type)
fn emit_valid<Pk: CKey, Ctx: ScriptContext<Key = Pk>>(out: &mut Out, u: &Universe, ctx: CtxK, node: &Node, pool: &mut Vec<Vec<u8>>) {
    let ms = match ast::to_ms::<Pk, Ctx>(node) { Ok(m) => m, Err(_) => { out.count("valid: from_ast rejects (not emitted)"); return; } };
    let bytes = ms.encode().into_bytes();
    let h = script_hex(&bytes);
    let w = node.wire();
    // encoding and predicted size
    out.line(&format!("C encode {} {}", ctx.name(), w), &h);
    out.line(&format!("C scriptsize {} {}", ctx.name(), w), &ms.script_size().to_string());
    out.line(&format!("J size {} {} {}", ctx.name(), w, ms.script_size()), "ok");
    let (lx, toks) = lib_lex(&bytes);
    out.line(&format!("C lex {}", h), &lx);
    out.line(&format!("J toks {} {} {}", ctx.name(), w, lx), "ok");
    let inv = rejected_keys(&toks);
    let d = lib_decode::<Pk, Ctx>(u, &bytes, Mode::Consensus);
    out.line(&format!("C decode {} {} {}", ctx.name(), h, inv), &d.wire);
    let dc = lib_decode::<Pk, Ctx>(u, &bytes, Mode::ParamsConsensus);
    out.line(&format!("C decodep {} consensus {} {}", ctx.name(), h, inv), &dc.wire);
    let dm = lib_decode::<Pk, Ctx>(u, &bytes, Mode::ParamsMax);
    out.line(&format!("C decodep {} max {} {}", ctx.name(), h, inv), &dm.wire);
    let rt = |out: &mut Out, tag: &str, d: &Dec| {
        let reenc = d.reenc.as_ref().map(|r| script_hex(r)).unwrap_or_else(|| "-".into());
        out.line(&format!("J rt {} {} {} {} {} {} {} {}", ctx.name(), w, h, tag, d.wire, reenc, ts(&ms.ty), d.ty.clone().unwrap_or_else(|| "-".into())), "ok");
    };
    // the property's quantifier: accepted under the context's consensus parameters -> both
    // consensus entry points must round-trip
    match ms.validate(&Ctx::CONSENSUS) {
        Ok(()) => {
            rt(out, "decode_consensus", &d);
            rt(out, "params-consensus", &dc);
            out.count(&format!("valid {}: consensus-valid, round trip judged", ctx.name()));
            if pool.len() < 4000 { pool.push(bytes.clone()); }
        }
        Err(e) => {
            let k = format!("{:?}", e);
            let k = k.split(|c: char| !c.is_alphanumeric()).next().unwrap_or("").to_string();
            out.count(&format!("valid {}: not consensus-valid ({}), round trip judged through MAX; decode_consensus answer {}", ctx.name(), k, if d.reenc.is_some() { "accepted" } else { d.wire.as_str() }));
        }
    }
    // every miniscript `from_ast` accepts round-trips through the permissive entry point,
    // whatever its base type (a W fragment `a:X` / `s:X` is no script suffix the parser can start
    // from: the decoder must refuse it or return a miniscript with the same bytes)
    if ms.ty.corr.base != Base::W {
        rt(out, "params-max", &dm);
    } else {
        let verdict = match &dm.reenc { Some(r) => script_hex(r), None => "ERR".to_string() };
        out.line(&format!("J canon {}:params-max {} {}", ctx.name(), h, verdict), "ok");
    }
    let ds = lib_decode::<Pk, Ctx>(u, &bytes, Mode::Sane);
    let verdict = match &ds.reenc { Some(r) => script_hex(r), None => "ERR".to_string() };
    out.line(&format!("J canon {}:sane {} {}", ctx.name(), h, verdict), "ok");
    // the default entry point `Miniscript::decode` (Ctx::SANE): a miniscript that is itself sane
    // must come back through it
    // (scope: the decoder returns `expr_raw_pkh` for `pk_h`, which Ctx::SANE forbids, so the SANE
    // entry point refuses the encoding of every sane miniscript containing pk_h / raw_pkh - by
    // design of the parameter set, not a claim of the statement: an observation unless it decodes)
    if ms.validate(&Ctx::SANE).is_ok() {
        if !has_key_hash(node) || ds.reenc.is_some() {
            rt(out, "sane", &ds);
            out.count(&format!("valid {}: sane, round trip through Miniscript::decode judged", ctx.name()));
        } else {
            out.count(&format!("observation: {} Miniscript::decode (SANE) refuses the encoding of a sane miniscript with pk_h / raw_pkh", ctx.name()));
            out.note("observation-sane-pkh", format!("e.g. {} {} -> {}", ctx.name(), w, ds.wire));
        }
    }
    // USED objects: a deep clone, and the object after encode() / script_size() were called on it,
    // must encode to the same bytes and predict the same size
    {
        let c = ms.clone();
        out.line(&format!("J canon {}:clone {} {}", ctx.name(), h, script_hex(&c.encode().into_bytes())), "ok");
        out.line(&format!("J dsize {}:clone {} {}", ctx.name(), h, c.script_size()), "ok");
        out.line(&format!("J canon {}:again {} {}", ctx.name(), h, script_hex(&ms.encode().into_bytes())), "ok");
        out.line(&format!("J dsize {}:again {} {}", ctx.name(), h, ms.script_size()), "ok");
    }
    emit_dsize(out, ctx, "decode_consensus", &h, bytes.len(), &d);
    emit_dsize(out, ctx, "sane", &h, bytes.len(), &ds);
    emit_dsize(out, ctx, "params-consensus", &h, bytes.len(), &dc);
    emit_dsize(out, ctx, "params-max", &h, bytes.len(), &dm);
    let p = lx == "PANIC" || d.panicked || ds.panicked || dc.panicked || dm.panicked;
    out.line(&format!("J nopanic {}:valid {} {}", ctx.name(), h, if p { "PANIC" } else { "ok" }), "ok");
}

/// Taproot miniscripts over FULL (02/03) keys: the encoder pushes the x-only form of every key,
/// so the script is the encoding of the x-only translation and decoding yields x-only keys
fn emit_tapfull(out: &mut Out, u: &Universe, node: &Node) {
    use miniscript::Tap;
    let ms = match ast::to_ms::<PublicKey, Tap>(node) { Ok(m) => m, Err(_) => { out.count("tapfull: from_ast rejects (not emitted)"); return; } };
    let r = catch_unwind(AssertUnwindSafe(|| ms.encode().into_bytes()));
    let bytes = match r { Ok(b) => b, Err(_) => { out.line(&format!("J nopanic tapfull {} PANIC", node.wire()), "ok"); return; } };
    let d = lib_decode::<XOnlyPublicKey, Tap>(u, &bytes, Mode::ParamsMax);
    out.line(&format!("J tapfull {} {} {}", node.wire(), script_hex(&bytes), d.wire), "ok");
    out.line(&format!("J size tapfull {} {}", node.wire(), ms.script_size()), "ok");
    out.count("tapfull: judged");
}

/// what one context contributes to the cross-context stream
fn cross_sources(ctx: CtxK) -> Vec<Node> {
    let mut v = seeds(ctx);
    let dim = ast::dimension_corpus(ctx);
    // the wrapper towers are appended last; the blocks meant here sit just before them
    let n = dim.len().saturating_sub(ast::wrapper_towers_thin(ctx).len());
    let dim = &dim[..n];
    // a thin regular slice plus the tail (raw key hashes; in Bare / Legacy the uncompressed-key block)
    v.extend(dim.iter().step_by(6).cloned());
    v.extend(dim[n.saturating_sub(14)..].iter().cloned());
    if matches!(ctx, CtxK::Bare | CtxK::Legacy) {
        let pk = |i: u32| Node::Check(Box::new(Node::PkK(i)));
        v.push(pk(100));
        v.push(Node::Multi(1, vec![100, 0, 101]));
        v.push(Node::AndV(Box::new(Node::Verify(Box::new(pk(100)))), Box::new(pk(0))));
        v.push(Node::AndV(Box::new(Node::Verify(Box::new(Node::Check(Box::new(Node::PkH(100)))))), Box::new(pk(0))));
    }
    v
}

fn encode_all<Pk: CKey, Ctx: ScriptContext<Key = Pk>>(nodes: &[Node]) -> Vec<Vec<u8>> {
    let mut v: Vec<Vec<u8>> = nodes.iter().filter_map(|n| ast::to_ms::<Pk, Ctx>(n).ok()).map(|m| m.encode().into_bytes()).collect();
    v.sort(); v.dedup();
    v
}

/// rename the keys of a neutral AST
fn rekey(n: &Node, f: &dyn Fn(u32) -> u32) -> Node {
    use Node::*;
    let b = |x: &Node| Box::new(rekey(x, f));
    let ks = |v: &Vec<u32>| v.iter().map(|k| f(*k)).collect::<Vec<_>>();
    match n {
        PkK(k) => PkK(f(*k)), PkH(k) => PkH(f(*k)),
        Multi(k, v) => Multi(*k, ks(v)), SortedMulti(k, v) => SortedMulti(*k, ks(v)),
        MultiA(k, v) => MultiA(*k, ks(v)), SortedMultiA(k, v) => SortedMultiA(*k, ks(v)),
        Alt(x) => Alt(b(x)), Swap(x) => Swap(b(x)), Check(x) => Check(b(x)), DupIf(x) => DupIf(b(x)),
        Verify(x) => Verify(b(x)), NonZero(x) => NonZero(b(x)), ZeroNotEqual(x) => ZeroNotEqual(b(x)),
        AndV(x, y) => AndV(b(x), b(y)), AndB(x, y) => AndB(b(x), b(y)), OrB(x, y) => OrB(b(x), b(y)),
        OrD(x, y) => OrD(b(x), b(y)), OrC(x, y) => OrC(b(x), b(y)), OrI(x, y) => OrI(b(x), b(y)),
        AndOr(x, y, z) => AndOr(b(x), b(y), b(z)),
        Thresh(k, xs) => Thresh(*k, xs.iter().map(|x| rekey(x, f)).collect()),
        other => other.clone(),
    }
}

/* ------------------------------------------------------------------ corpus */

fn corpus(ctx: CtxK) -> Vec<Node> {
    let ks = ast::ctx_keys(ctx, 10);
    let k = |i: usize| ks[i % ks.len()];
    let pk = |i: usize| Node::Check(Box::new(Node::PkK(k(i))));
    let spk = |i: usize| Node::Swap(Box::new(pk(i)));
    let mut v = vec![];
    // numbers at the script-number boundaries
    // (65541 = bit 16, 4194309 = type flag + 5, 8388609 = bit 23: bits outside the BIP68 mask must
    // be pushed and read back unchanged - permanently in the quick tier)
    for n in [1u32, 2, 15, 16, 17, 127, 128, 255, 256, 32767, 32768, 65535, 65536, 65541, 4194303, 4194304, 4194305, 4194309,
              8388607, 8388608, 8388609, 16777215, 16777216, 499_999_999, 500_000_000, 500_000_001, 0x7fff_fffe, 0x7fff_ffff] {
        v.push(Node::After(n));
        v.push(Node::Older(n));
        v.push(Node::AndV(Box::new(Node::Verify(Box::new(pk(0)))), Box::new(Node::After(n))));
        v.push(Node::AndV(Box::new(Node::Verify(Box::new(pk(0)))), Box::new(Node::Older(n))));
    }
    // every hash kind, bare / verified / under wrappers
    for kind in HK::ALL {
        for h in 0..4 {
            let x = Node::Hash(kind, h);
            v.push(x.clone());
            v.push(Node::AndV(Box::new(Node::Verify(Box::new(x.clone()))), Box::new(pk(1))));
            v.push(Node::AndB(Box::new(x.clone()), Box::new(Node::Alt(Box::new(Node::Hash(kind, (h + 1) % 4))))));
            v.push(Node::OrD(Box::new(pk(2)), Box::new(x.clone())));
            v.push(Node::NonZero(Box::new(x)));
        }
    }
    // pk_h everywhere (comes back as raw_pkh)
    for i in 0..10 {
        v.push(Node::Check(Box::new(Node::PkH(k(i)))));
        v.push(Node::AndV(Box::new(Node::Verify(Box::new(Node::Check(Box::new(Node::PkH(k(i))))))), Box::new(pk(i + 1))));
    }
    if matches!(ctx, CtxK::Bare | CtxK::Legacy) {
        // sortedmulti over mixed encodings, incl. one point in both encodings given uncompressed first
        // (BIP67 tie-break: the compressed key sorts first)
        v.push(Node::SortedMulti(1, vec![100, 0]));
        v.push(Node::SortedMulti(1, vec![0, 100]));
        v.push(Node::SortedMulti(2, vec![100, 1, 0]));
        v.push(Node::SortedMulti(2, vec![101, 100, 1, 0]));
        for id in 100..104u32 {
            v.push(Node::Check(Box::new(Node::PkK(id))));
            v.push(Node::Check(Box::new(Node::PkH(id))));
            v.push(Node::Multi(1, vec![id, 0, 101]));
        }
    }
    // thresh of many sizes, k around 16/17
    for n in [1usize, 2, 3, 5, 16, 17, 18, 40] {
        for kk in [1usize, 2, n / 2 + 1, 16, 17, n] {
            if kk == 0 || kk > n { continue; }
            let mut xs = vec![pk(0)];
            for i in 1..n { xs.push(spk(i)); }
            v.push(Node::Thresh(kk, xs));
        }
    }
    // threshold values at the 1/2/3-byte script-number boundaries (needs that many children:
    // only Taproot has room for them)
    if ctx == CtxK::Tap {
        for (n, kks) in [(129usize, [127usize, 128]), (257, [255, 256])] {
            for kk in kks {
                let mut xs = vec![pk(0)];
                for i in 1..n { xs.push(spk(i)); }
                v.push(Node::Thresh(kk, xs));
                v.push(Node::MultiA(kk, (0..n).map(k).collect()));
            }
        }
    }
    // multi / multi_a of many sizes
    if ctx == CtxK::Tap {
        for n in [1usize, 2, 3, 16, 17, 20, 21, 100, 998, 999] {
            for kk in [1usize, 2, 16, 17, n] {
                if kk > n { continue; }
                v.push(Node::MultiA(kk, (0..n).map(k).collect()));
            }
        }
        v.push(Node::SortedMultiA(2, vec![k(3), k(1), k(2), k(0)]));
    } else {
        for n in 1..=20usize {
            for kk in [1usize, 2, 16, 17, n] {
                if kk > n { continue; }
                v.push(Node::Multi(kk, (0..n).map(k).collect()));
            }
        }
        v.push(Node::SortedMulti(2, vec![k(3), k(1), k(2), k(0)]));
    }
    // and_v associativity / floating (the decoder's normal form)
    let vpk = |i: usize| Node::Verify(Box::new(pk(i)));
    v.push(Node::AndV(Box::new(vpk(0)), Box::new(Node::AndV(Box::new(vpk(1)), Box::new(pk(2))))));
    v.push(Node::AndV(Box::new(Node::AndV(Box::new(vpk(0)), Box::new(vpk(1)))), Box::new(pk(2))));
    v.push(Node::AndV(Box::new(vpk(0)), Box::new(Node::AndV(Box::new(vpk(1)), Box::new(Node::AndV(Box::new(vpk(2)), Box::new(pk(3))))))));
    v.push(Node::Check(Box::new(Node::AndV(Box::new(vpk(0)), Box::new(Node::PkK(k(1)))))));
    v.push(Node::Check(Box::new(Node::AndV(Box::new(vpk(0)), Box::new(Node::PkH(k(1)))))));
    v.push(Node::ZeroNotEqual(Box::new(Node::AndV(Box::new(vpk(0)), Box::new(pk(1))))));
    v.push(Node::AndV(Box::new(Node::Verify(Box::new(Node::AndV(Box::new(vpk(0)), Box::new(pk(1)))))), Box::new(pk(2))));
    v.push(Node::AndB(Box::new(Node::AndV(Box::new(vpk(0)), Box::new(pk(1)))), Box::new(spk(2))));
    v.push(Node::AndB(Box::new(pk(0)), Box::new(Node::Alt(Box::new(Node::AndV(Box::new(vpk(1)), Box::new(pk(2))))))));
    v.push(Node::OrI(Box::new(Node::AndV(Box::new(vpk(0)), Box::new(pk(1)))), Box::new(Node::AndV(Box::new(vpk(2)), Box::new(Node::AndV(Box::new(vpk(3)), Box::new(pk(4))))))));
    v.push(Node::AndOr(Box::new(pk(0)), Box::new(Node::AndV(Box::new(vpk(1)), Box::new(pk(2)))), Box::new(Node::AndV(Box::new(vpk(3)), Box::new(pk(4))))));
    v.push(Node::OrD(Box::new(pk(0)), Box::new(Node::AndV(Box::new(vpk(1)), Box::new(pk(2))))));
    v.push(Node::OrC(Box::new(pk(0)), Box::new(Node::AndV(Box::new(vpk(1)), Box::new(vpk(2))))));
    v.push(Node::DupIf(Box::new(Node::AndV(Box::new(vpk(1)), Box::new(vpk(2))))));
    v.push(Node::NonZero(Box::new(Node::AndV(Box::new(vpk(1)), Box::new(pk(2))))));
    v.push(Node::Thresh(2, vec![pk(0), Node::Alt(Box::new(Node::AndV(Box::new(vpk(1)), Box::new(pk(2))))), spk(3)]));
    // tree height at the recursion limit: `and_v(X,and_v(Y,Z))` with height(X) = 400 / 401.  The
    // decoder returns the left-nested chain, which is one level higher; at 402 the round trip
    // fails (KNOWN FINDING, not fixed).  Only Taproot has no opcode limit that rejects the long n: chain.
    if ctx == CtxK::Tap {
        for depth in [398usize, 399] {
            let mut x = pk(0);
            for _ in 0..depth { x = Node::ZeroNotEqual(Box::new(x)); }
            let x = Node::Verify(Box::new(x));
            v.push(Node::AndV(Box::new(x), Box::new(Node::AndV(Box::new(vpk(1)), Box::new(pk(2))))));
        }
    }
    v
}

/// B-typed scripts containing every fused `*VERIFY` opcode and every push kind: their encodings
/// are ALWAYS used as mutation sources (the structured mutations are deterministic per source)
fn seeds(ctx: CtxK) -> Vec<Node> {
    let ks = ast::ctx_keys(ctx, 10);
    let k = |i: usize| ks[i % ks.len()];
    let pk = |i: usize| Node::Check(Box::new(Node::PkK(k(i))));
    let v = |x: Node| Node::Verify(Box::new(x));
    let and_v = |a: Node, b: Node| Node::AndV(Box::new(a), Box::new(b));
    let mut r = vec![];
    let m = if ctx == CtxK::Tap { Node::MultiA(2, vec![k(0), k(1), k(2)]) } else { Node::Multi(2, vec![k(0), k(1), k(2)]) };
    let m1 = if ctx == CtxK::Tap { Node::MultiA(1, vec![k(3)]) } else { Node::Multi(1, vec![k(3)]) };
    r.push(and_v(v(m.clone()), Node::True));                      // CHECKMULTISIGVERIFY / NUMEQUALVERIFY
    r.push(and_v(v(m1), pk(4)));
    r.push(and_v(v(pk(0)), pk(1)));                               // CHECKSIGVERIFY
    r.push(and_v(v(Node::Hash(HK::Sha256, 0)), pk(1)));           // EQUALVERIFY (hash)
    r.push(and_v(v(Node::Hash(HK::Hash160, 1)), Node::Check(Box::new(Node::PkH(k(2))))));
    r.push(and_v(v(Node::Thresh(2, vec![pk(0), Node::Swap(Box::new(pk(1))), Node::Alt(Box::new(pk(2)))])), Node::Older(1000))); // EQUALVERIFY (thresh)
    r.push(and_v(v(m), Node::After(500_000_001)));
    r.push(Node::AndB(Box::new(pk(0)), Box::new(Node::Alt(Box::new(Node::ZeroNotEqual(Box::new(Node::Older(17))))))));
    r.push(Node::OrD(Box::new(pk(0)), Box::new(and_v(v(pk(1)), Node::After(70000)))));
    r.push(Node::AndOr(Box::new(pk(0)), Box::new(Node::Hash(HK::Ripemd160, 2)), Box::new(Node::Hash(HK::Hash256, 3))));
    r
}

/* ------------------------------------------------------------------ malformed */

const WITNESS_TAG: &str = "numequal-verify-regression";

/// split a script into instruction byte ranges (best effort, direct pushes and PUSHDATA1/2)
fn instr_bounds(b: &[u8]) -> Vec<(usize, usize)> {
    let mut v = vec![];
    let mut i = 0;
    while i < b.len() {
        let op = b[i] as usize;
        let len = if op >= 1 && op <= 75 { 1 + op }
            else if op == 0x4c && i + 1 < b.len() { 2 + b[i + 1] as usize }
            else if op == 0x4d && i + 2 < b.len() { 3 + b[i + 1] as usize + 256 * b[i + 2] as usize }
            else { 1 };
        let end = (i + len).min(b.len());
        v.push((i, end));
        i = end;
    }
    v
}

fn splice(b: &[u8], from: usize, to: usize, with: &[u8]) -> Vec<u8> {
    let mut r = b[..from].to_vec();
    r.extend_from_slice(with);
    r.extend_from_slice(&b[to..]);
    r
}

/// structured mutations of one valid script
fn mutations(b: &[u8], rng: &mut Rng, u: &Universe, n_random: usize) -> Vec<(String, Vec<u8>)> {
    let mut v: Vec<(String, Vec<u8>)> = vec![];
    let ins = instr_bounds(b);
    let interesting: [u8; 24] = [0x00, 0x51, 0x60, 0x4c, 0x4d, 0x4e, 0x4f, 0x50, 0x61, 0x63, 0x64, 0x67, 0x68, 0x69, 0x6b, 0x6c, 0x75, 0x76, 0x7c, 0x87, 0x88, 0x92, 0x93, 0xac];
    // 1-3 random byte edits
    for _ in 0..n_random {
        let mut m = b.to_vec();
        if m.is_empty() { break; }
        let edits = 1 + rng.below(3);
        for _ in 0..edits {
            let i = rng.below(m.len());
            m[i] = match rng.below(3) { 0 => interesting[rng.below(interesting.len())], 1 => m[i] ^ (1 << rng.below(8)), _ => rng.below(256) as u8 };
        }
        v.push(("mut".into(), m));
    }
    // opcode-level edits: only touch opcode bytes (first byte of an instruction), so atoms stay known
    for _ in 0..n_random {
        if ins.is_empty() { break; }
        let mut m = b.to_vec();
        for _ in 0..(1 + rng.below(2)) {
            let (s, e) = ins[rng.below(ins.len())];
            if e - s == 1 && s < m.len() { m[s] = interesting[rng.below(interesting.len())]; }
        }
        v.push(("opmut".into(), m));
    }
    // delete / duplicate / swap whole instructions
    if !ins.is_empty() {
        let (s, e) = ins[rng.below(ins.len())];
        v.push(("del".into(), splice(b, s, e, &[])));
        let (s, e) = ins[rng.below(ins.len())];
        v.push(("dup".into(), splice(b, s, s, &b[s..e])));
        if ins.len() >= 2 {
            let i = rng.below(ins.len() - 1);
            let (s1, e1) = ins[i];
            let (s2, e2) = ins[i + 1];
            let mut w = b[s2..e2].to_vec();
            w.extend_from_slice(&b[s1..e1]);
            v.push(("swap".into(), splice(b, s1, e2, &w)));
        }
    }
    // truncations and trailing / leading garbage
    if b.len() > 1 { v.push(("trunc".into(), b[..rng.below(b.len())].to_vec())); v.push(("trunc".into(), b[..b.len() - 1].to_vec())); }
    for g in [&[0x51u8][..], &[0x00], &[0x69], &[0x92], &[0x92, 0x92], &[0x75], &[0x01], &[0x4c], &[0x4d, 0xff], &[0x4e, 0x00, 0x00, 0x01, 0x00], &[0x61]] {
        let mut m = b.to_vec(); m.extend_from_slice(g);
        v.push(("trail".into(), m));
        let mut m = g.to_vec(); m.extend_from_slice(b);
        v.push(("lead".into(), m));
    }
    // per-instruction canonicity attacks
    for &(s, e) in &ins {
        let op = b[s];
        let data = &b[s + 1..e];
        if (1..=75).contains(&op) && e - s == 1 + op as usize {
            // same data through PUSHDATA1 / PUSHDATA2 / PUSHDATA4
            let mut w = vec![0x4c, op]; w.extend_from_slice(data);
            v.push(("nonmin-pushdata1".into(), splice(b, s, e, &w)));
            let mut w = vec![0x4d, op, 0]; w.extend_from_slice(data);
            v.push(("nonmin-pushdata2".into(), splice(b, s, e, &w)));
            let mut w = vec![0x4e, op, 0, 0, 0]; w.extend_from_slice(data);
            v.push(("nonmin-pushdata4".into(), splice(b, s, e, &w)));
            if data.len() <= 3 {
                // padded number
                let mut w = vec![op + 1]; w.extend_from_slice(data); w.push(0);
                v.push(("nonmin-padded-number".into(), splice(b, s, e, &w)));
                let mut w = vec![op]; w.extend_from_slice(data); let l = w.len(); w[l - 1] |= 0x80;
                v.push(("negative-number".into(), splice(b, s, e, &w)));
            }
            if data.len() == 32 {
                // key <-> hash swaps: another registered 32-byte string
                let alts: Vec<&Vec<u8>> = u.known.iter().filter(|x| x.len() == 32 && &x[..] != data).collect();
                let mut alts = alts; alts.sort();
                for _ in 0..2 {
                    let a = alts[rng.below(alts.len())];
                    let mut w = vec![op]; w.extend_from_slice(a);
                    v.push(("swap32".into(), splice(b, s, e, &w)));
                }
            }
            if data.len() == 20 {
                let mut alts: Vec<&Vec<u8>> = u.known.iter().filter(|x| x.len() == 20 && &x[..] != data).collect();
                alts.sort();
                let a = alts[rng.below(alts.len())];
                let mut w = vec![op]; w.extend_from_slice(a);
                v.push(("swap20".into(), splice(b, s, e, &w)));
            }
            if [20usize, 32, 33, 65].contains(&data.len()) {
                // a registered string of EVERY OTHER length class in this key / hash position
                for other in [20usize, 32, 33, 65] {
                    if other == data.len() { continue; }
                    let mut alts: Vec<&Vec<u8>> = u.known.iter().filter(|x| x.len() == other).collect();
                    alts.sort();
                    if alts.is_empty() { continue; }
                    let a = alts[rng.below(alts.len())];
                    let mut w = vec![other as u8]; w.extend_from_slice(a);
                    v.push((format!("swaplen/{}to{}", data.len(), other), splice(b, s, e, &w)));
                }
            }
            if data.len() == 33 || data.len() == 65 {
                let mut alts: Vec<&Vec<u8>> = u.known.iter().filter(|x| x.len() == data.len() && &x[..] != data).collect();
                alts.sort();
                let a = alts[rng.below(alts.len())];
                let mut w = vec![op]; w.extend_from_slice(a);
                v.push(("swapkey".into(), splice(b, s, e, &w)));
                // bad prefix
                let mut w = b[s..e].to_vec(); w[1] = 0x05;
                v.push(("badprefix".into(), splice(b, s, e, &w)));
            }
        }
        if e - s == 1 {
            match op {
                0x51..=0x60 => {
                    v.push(("nonmin-pushnum".into(), splice(b, s, e, &[0x01, op - 0x50])));
                    v.push(("nonmin-pushnum".into(), splice(b, s, e, &[0x02, op - 0x50, 0x00])));
                }
                0x00 => { v.push(("nonmin-zero".into(), splice(b, s, e, &[0x01, 0x00]))); v.push(("neg-zero".into(), splice(b, s, e, &[0x01, 0x80]))); }
                0x88 => v.push(("split-verify".into(), splice(b, s, e, &[0x87, 0x69]))),
                0xad => v.push(("split-verify".into(), splice(b, s, e, &[0xac, 0x69]))),
                0xaf => v.push(("split-verify".into(), splice(b, s, e, &[0xae, 0x69]))),
                0x9d => v.push(("split-verify-numequal".into(), splice(b, s, e, &[0x9c, 0x69]))),
                0x87 => v.push(("fuse-verify".into(), splice(b, s, e, &[0x88]))),
                0xac => v.push(("fuse-verify".into(), splice(b, s, e, &[0xad]))),
                0xae => v.push(("fuse-verify".into(), splice(b, s, e, &[0xaf]))),
                0x9c => v.push(("fuse-verify".into(), splice(b, s, e, &[0x9d]))),
                0x92 => v.push(("dup-0notequal".into(), splice(b, s, e, &[0x92, 0x92]))),
                0x69 => v.push(("dup-verify".into(), splice(b, s, e, &[0x69, 0x69]))),
                0x9a => v.push(("and-or".into(), splice(b, s, e, &[0x9b]))),
                0x9b => v.push(("and-or".into(), splice(b, s, e, &[0x9a]))),
                0x63 => v.push(("if-notif".into(), splice(b, s, e, &[0x64]))),
                0x64 => v.push(("if-notif".into(), splice(b, s, e, &[0x63]))),
                _ => {}
            }
        }
    }
    v
}

/// every way to shorten a script by ONE instruction and to extend it by ONE opcode (from the
/// opcodes that start or end a template) at every instruction boundary
fn one_opcode_edits(b: &[u8]) -> Vec<(String, Vec<u8>)> {
    let mut v: Vec<(String, Vec<u8>)> = vec![];
    let ins = instr_bounds(b);
    for &(s, e) in &ins { v.push(("del1".into(), splice(b, s, e, &[]))); }
    let mut cuts: Vec<usize> = ins.iter().map(|x| x.0).collect();
    cuts.push(b.len());
    for &c in &cuts {
        for op in [0x69u8, 0x92, 0x51, 0x87] {
            v.push(("ins1".into(), splice(b, c, c, &[op])));
        }
    }
    v
}

/// one minimal B script per fragment template (the sources of the systematic raw-channel edits)
fn templates(ctx: CtxK) -> Vec<Node> {
    use Node::*;
    let ks = ast::ctx_keys(ctx, 10);
    let k = |i: usize| ks[i % ks.len()];
    let bx = |n: Node| Box::new(n);
    let pk = |i: usize| Check(bx(PkK(k(i))));
    let v = |x: Node| Verify(bx(x));
    let mut r = vec![
        pk(0), Check(bx(PkH(k(1)))), Check(bx(RawPkH(k(0)))),
        AndV(bx(v(pk(0))), bx(Older(10))), AndV(bx(v(pk(0))), bx(After(1000))),
        AndB(bx(pk(0)), bx(Alt(bx(pk(1))))), AndB(bx(pk(0)), bx(Swap(bx(pk(1))))),
        OrB(bx(pk(0)), bx(Alt(bx(pk(1))))), OrD(bx(pk(0)), bx(pk(1))),
        AndV(bx(OrC(bx(pk(0)), bx(v(pk(1))))), bx(True)), OrI(bx(pk(0)), bx(pk(1))),
        AndOr(bx(pk(0)), bx(pk(1)), bx(pk(2))), NonZero(bx(pk(0))), ZeroNotEqual(bx(pk(0))),
        DupIf(bx(v(True))), AndV(bx(v(pk(0))), bx(True)), OrI(bx(False), bx(pk(0))),
        Thresh(2, vec![pk(0), Swap(bx(pk(1))), Alt(bx(pk(2)))]),
    ];
    for kind in HK::ALL { r.push(AndV(bx(v(pk(0))), bx(Hash(kind, 1)))); r.push(AndV(bx(v(Hash(kind, 2))), bx(pk(0)))); }
    if ctx == CtxK::Tap { r.push(MultiA(2, vec![k(0), k(1), k(2)])); r.push(AndV(bx(v(MultiA(1, vec![k(0), k(1)]))), bx(pk(2)))); }
    else { r.push(Multi(2, vec![k(0), k(1), k(2)])); r.push(AndV(bx(v(Multi(1, vec![k(0), k(1)]))), bx(pk(2)))); }
    r
}

/// R5: `v:` over every fragment with and without a free verify, over wrappers whose accounting
/// depends on the child, and combinators over the casts `t:` `l:` `u:` - each inside a B script
fn verify_towers(ctx: CtxK) -> Vec<Node> {
    use Node::*;
    let ks = ast::ctx_keys(ctx, 10);
    let k = |i: usize| ks[i % ks.len()];
    let bx = |n: Node| Box::new(n);
    let pk = |i: usize| Check(bx(PkK(k(i))));
    let v = |x: Node| Verify(bx(x));
    let m = if ctx == CtxK::Tap { MultiA(2, vec![k(0), k(1), k(2)]) } else { Multi(2, vec![k(0), k(1), k(2)]) };
    let th = Thresh(2, vec![pk(0), Swap(bx(pk(1))), Alt(bx(pk(2)))]);
    let mut inner: Vec<Node> = vec![
        pk(0), Check(bx(PkH(k(1)))), m.clone(), th.clone(), After(100), Older(10), True,
        ZeroNotEqual(bx(pk(0))), ZeroNotEqual(bx(m.clone())), ZeroNotEqual(bx(th.clone())), ZeroNotEqual(bx(ZeroNotEqual(bx(pk(0))))),
        NonZero(bx(pk(0))), NonZero(bx(ZeroNotEqual(bx(pk(0))))), NonZero(bx(m.clone())),
        DupIf(bx(v(True))), DupIf(bx(v(pk(0)))), DupIf(bx(v(m.clone()))), DupIf(bx(v(Older(10)))),
        AndB(bx(pk(0)), bx(Alt(bx(pk(1))))), AndB(bx(pk(0)), bx(Alt(bx(Check(bx(PkH(k(1)))))))), AndB(bx(pk(0)), bx(Swap(bx(m.clone())))),
        OrB(bx(pk(0)), bx(Alt(bx(pk(1))))), OrD(bx(pk(0)), bx(pk(1))), OrD(bx(pk(0)), bx(m.clone())), OrD(bx(m.clone()), bx(th.clone())),
        OrI(bx(pk(0)), bx(pk(1))), OrI(bx(False), bx(pk(0))), OrI(bx(pk(0)), bx(False)), OrI(bx(m.clone()), bx(False)),
        AndOr(bx(pk(0)), bx(pk(1)), bx(pk(2))), AndOr(bx(pk(0)), bx(m.clone()), bx(th.clone())),
        AndV(bx(v(pk(0))), bx(pk(1))), AndV(bx(v(pk(0))), bx(m.clone())), AndV(bx(v(m.clone())), bx(True)), AndV(bx(v(pk(0))), bx(True)),
        AndV(bx(OrC(bx(pk(0)), bx(v(pk(1))))), bx(True)), AndV(bx(OrC(bx(pk(0)), bx(v(m.clone())))), bx(pk(2))),
    ];
    for kind in HK::ALL { inner.push(Hash(kind, 1)); inner.push(ZeroNotEqual(bx(Hash(kind, 1)))); inner.push(NonZero(bx(Hash(kind, 2)))); }
    let mut r = vec![];
    for x in inner {
        r.push(AndV(bx(v(x.clone())), bx(pk(5))));
        r.push(AndV(bx(v(x.clone())), bx(True)));                              // t:v:X
        r.push(AndV(bx(v(pk(5))), bx(x.clone())));
        r.push(OrI(bx(False), bx(AndV(bx(v(x.clone())), bx(pk(5))))));        // l:and_v(v:X,pk)
        r.push(OrD(bx(pk(6)), bx(AndV(bx(v(x.clone())), bx(True)))));
        r.push(AndV(bx(v(AndV(bx(v(x.clone())), bx(pk(5))))), bx(pk(6))));   // v:and_v(v:X,pk)
        r.push(DupIf(bx(v(x))));                                              // d:v:X
    }
    r
}

/// R2: designated inputs that the library refuses TODAY, each for exactly one reason.  They go
/// through `emit_valid`, which writes its judged lines as soon as `from_ast` accepts one.
fn refused_corpus(ctx: CtxK) -> Vec<(&'static str, Node)> {
    use Node::*;
    let ks = ast::ctx_keys(ctx, 10);
    let k = |i: usize| ks[i % ks.len()];
    let bx = |n: Node| Box::new(n);
    let pk = |i: usize| Check(bx(PkK(k(i))));
    let v = |x: Node| Verify(bx(x));
    let tap = ctx == CtxK::Tap;
    let mut r: Vec<(&'static str, Node)> = vec![
        ("lock-zero", After(0)), ("lock-zero", Older(0)), ("lock-bit31", After(0x8000_0000)), ("lock-bit31", Older(0x8000_0000)),
        ("thresh-k0", Thresh(0, vec![pk(0), Swap(bx(pk(1)))])), ("thresh-k>n", Thresh(3, vec![pk(0), Swap(bx(pk(1)))])),
        ("type: and_v(B,B)", AndV(bx(pk(0)), bx(pk(1)))), ("type: and_b(B,B)", AndB(bx(pk(0)), bx(pk(1)))),
        ("type: or_b(B,B)", OrB(bx(pk(0)), bx(pk(1)))), ("type: v:V", v(v(pk(0)))), ("type: c:B", Check(bx(pk(0)))),
        ("type: or_d(non-d)", OrD(bx(After(10)), bx(pk(0)))), ("type: thresh W first", Thresh(1, vec![Swap(bx(pk(0)))])),
        ("type: thresh B second", Thresh(1, vec![pk(0), pk(1)])), ("type: j:z", NonZero(bx(After(10)))),
        ("type: d:B", DupIf(bx(pk(0)))), ("type: s:Bz", Swap(bx(After(10)))), ("type: andor(non-du)", AndOr(bx(After(10)), bx(pk(0)), bx(pk(1)))),
    ];
    if tap {
        r.push(("ctx: multi in tap", Multi(1, vec![k(0), k(1)])));
        r.push(("ctx: multi_a n=1000", MultiA(1, (0..1000).map(k).collect())));
        r.push(("ctx: multi_a k=0", MultiA(0, vec![k(0)])));
    } else {
        r.push(("ctx: multi_a outside tap", MultiA(1, vec![k(0), k(1)])));
        r.push(("ctx: multi n=21", Multi(1, (0..21).map(k).collect())));
        r.push(("ctx: multi k=0", Multi(0, vec![k(0)])));
        r.push(("ctx: multi k>n", Multi(3, vec![k(0), k(1)])));
    }
    if matches!(ctx, CtxK::Segwitv0) {
        r.push(("ctx: uncompressed key", Check(bx(PkK(100)))));
        r.push(("ctx: uncompressed key in pk_h", Check(bx(PkH(100)))));
        r.push(("ctx: uncompressed key in multi", Multi(1, vec![0, 100])));
    }
    // script-size ceilings + 1 (and_v chain padded with n:), recursion depth 403
    let chain = |target: usize| -> Node {
        let n = (target - 35) / 35 - 1;
        let j = target - 35 * n - 35;
        let mut last = pk(n);
        for _ in 0..j { last = ZeroNotEqual(bx(last)); }
        let mut acc = last;
        for i in (0..n).rev() { acc = AndV(bx(v(pk(i))), bx(acc)); }
        acc
    };
    match ctx {
        CtxK::Legacy => r.push(("limit: 521 bytes", chain(521))),
        CtxK::Segwitv0 => r.push(("limit: 3601 bytes", chain(3601))),
        CtxK::Bare => r.push(("limit: 10001 bytes", chain(10001))),
        CtxK::Tap => {}
    }
    if tap {
        let mut x = pk(0);
        for _ in 0..402 { x = ZeroNotEqual(bx(x)); }
        r.push(("limit: tree height 403", x));
    }
    r
}

/// hand-built byte strings
fn handmade(ctx: CtxK) -> Vec<(String, Vec<u8>)> {
    let mut v: Vec<(String, Vec<u8>)> = vec![];
    let key = |i: u32| -> Vec<u8> {
        let k = if ctx == CtxK::Tap { ast::xonly_key(200 + i % 10).serialize().to_vec() } else { ast::full_key(i % 10).to_bytes() };
        let mut w = vec![k.len() as u8]; w.extend_from_slice(&k); w
    };
    let push_num = |n: u32| -> Vec<u8> {
        if n == 0 { return vec![0]; }
        if n <= 16 { return vec![0x50 + n as u8]; }
        let mut d = vec![]; let mut x = n;
        while x > 0 { d.push((x & 0xff) as u8); x >>= 8; }
        if d[d.len() - 1] & 0x80 != 0 { d.push(0); }
        let mut w = vec![d.len() as u8]; w.extend_from_slice(&d); w
    };
    // deep nesting around the recursion limit: c:pk_k then d x n:
    for d in [1usize, 100, 399, 400, 401, 402, 403, 404, 600, 2000] {
        let mut s = key(0); s.push(0xac);
        s.extend(std::iter::repeat(0x92).take(d));
        v.push((format!("deep-n/{}", d), s));
    }
    // deep nesting through or_i: IF 0 ELSE (…) ENDIF
    for d in [10usize, 200, 400, 401, 402, 403, 500] {
        let mut s = vec![];
        for _ in 0..d { s.extend_from_slice(&[0x63, 0x00, 0x67]); }
        s.extend(key(1)); s.push(0xac);
        for _ in 0..d { s.push(0x68); }
        v.push((format!("deep-ori/{}", d), s));
    }
    // long and_v chains (tree height grows with the chain: left-nested)
    for d in [10usize, 300, 401, 402, 403, 450] {
        let mut s = vec![];
        for i in 0..d { s.extend(key(i as u32)); s.push(0xad); }
        s.push(0x51);
        v.push((format!("chain-andv/{}", d), s));
    }
    // unbalanced control flow, lone tokens
    for s in [vec![], vec![0x68], vec![0x63], vec![0x67], vec![0x64, 0x68], vec![0x51, 0x68], vec![0x63, 0x51, 0x68], vec![0x63, 0x51, 0x67, 0x68],
              vec![0x93], vec![0x87], vec![0x88], vec![0x69], vec![0x51, 0x69], vec![0x51, 0x87], vec![0x51, 0x88], vec![0x9a], vec![0x51, 0x9a], vec![0x51, 0x51, 0x9a],
              vec![0x6c], vec![0x6b, 0x51, 0x6c], vec![0x7c, 0x51], vec![0x51, 0x7c, 0x51, 0x9a], vec![0xb1], vec![0x00, 0xb1], vec![0x00, 0xb2], vec![0x51, 0xb1], vec![0x51, 0xb2],
              vec![0x05, 0xff, 0xff, 0xff, 0xff, 0x00, 0xb1], vec![0x04, 0xff, 0xff, 0xff, 0x7f, 0xb1], vec![0x04, 0xff, 0xff, 0xff, 0x7f, 0xb2], vec![0x04, 0xff, 0xff, 0xff, 0xff, 0xb1],
              vec![0x4f], vec![0x01, 0x81], vec![0x01, 0x11], vec![0x01, 0x10], vec![0x02, 0x00, 0x00], vec![0x02, 0x80, 0x00], vec![0x02, 0xff, 0x00], vec![0x02, 0xff, 0x80],
              vec![0x4c, 0x4c], vec![0x4d, 0x00, 0x01], vec![0x4e, 0x00, 0x00, 0x01, 0x00], vec![0x4e, 0xff, 0xff, 0xff, 0xff], vec![0x4b],
              vec![0x82, 0x01, 0x20, 0x88, 0xa8], vec![0x76, 0xa9], vec![0x76, 0xa9, 0x88, 0xac]] {
        v.push(("tiny".into(), s));
    }
    // multi with odd k / n
    for (kk, n_keys, n_decl) in [(0u32, 2u32, 2u32), (3, 2, 2), (1, 2, 3), (1, 3, 2), (1, 0, 0), (1, 20, 20), (1, 21, 21), (2, 20, 21), (1, 2, 0x7fff_ffff), (0x7fff_ffff, 2, 2), (17, 20, 20), (1, 1, 1)] {
        let mut s = push_num(kk);
        for i in 0..n_keys { s.extend(key(i)); }
        s.extend(push_num(n_decl)); s.push(0xae);
        v.push((format!("multi/{}-{}-{}", kk, n_keys, n_decl), s.clone()));
        s.pop(); s.push(0xaf); s.push(0x51);
        v.push((format!("multi-v/{}-{}-{}", kk, n_keys, n_decl), s));
    }
    // multi_a with odd k / n
    for (kk, n_keys) in [(0u32, 2usize), (1, 1), (2, 1), (1, 2), (3, 2), (999, 999), (1000, 1000), (1, 1000), (1, 999), (0x7fff_ffff, 2), (17, 20)] {
        let mut s = vec![];
        for i in 0..n_keys { s.extend(key(i as u32)); s.push(if i == 0 { 0xac } else { 0xba }); }
        s.extend(push_num(kk)); s.push(0x9c);
        v.push((format!("multi_a/{}-{}", kk, n_keys), s.clone()));
        // first key with CHECKSIGADD, or a CHECKSIG in the middle
        if n_keys == 2 {
            let mut t = s.clone(); let l = key(0).len(); t[l] = 0xba;
            v.push(("multi_a-nochecksig".into(), t));
            let mut t = s.clone(); let l2 = 2 * key(0).len() + 1; t[l2] = 0xac;
            v.push(("multi_a-twochecksig".into(), t));
        }
    }
    // every script of length 1, every 2-opcode script over the template alphabet, pushes at 255/256
    // and 520/521 bytes
    for b0 in 0u16..256 { v.push(("len1".into(), vec![b0 as u8])); }
    {
        let alpha = [0x00u8, 0x51, 0x69, 0x87, 0x88, 0xac, 0xad, 0x92, 0x68, 0x63, 0xb1, 0xb2];
        for a in alpha { for b in alpha { v.push(("len2".into(), vec![a, b])); } }
        for a in alpha { for b in [0x51u8, 0xac, 0x87] { v.push(("len3".into(), vec![0x51, a, b])); } }
        let mut s = vec![0x4c, 0xff]; s.extend(std::iter::repeat(0x33).take(255)); s.push(0xac); v.push(("push255".into(), s));
        for n in [520usize, 521] {
            let mut s = vec![0x4d, (n & 0xff) as u8, (n >> 8) as u8]; s.extend(std::iter::repeat(0x44).take(n)); s.push(0x87);
            v.push((format!("push{}", n), s));
        }
    }
    // minimal PUSHDATA1 / PUSHDATA2 and odd-length direct pushes (no key / hash / number length),
    // each followed by CHECKSIG / EQUAL / CLTV
    {
        let mut s = vec![0x4c, 0x4c]; s.extend(std::iter::repeat(0x11).take(76)); v.push(("pushdata1-min".into(), s.clone()));
        s.push(0xac); v.push(("pushdata1-min".into(), s));
        let mut s = vec![0x4d, 0x00, 0x01]; s.extend(std::iter::repeat(0x22).take(256)); v.push(("pushdata2-min".into(), s.clone()));
        s.push(0x87); v.push(("pushdata2-min".into(), s));
        for len in [5usize, 19, 21, 31, 34, 64, 66, 75] {
            for tail in [0xacu8, 0x87, 0xb1] {
                let mut s = vec![len as u8]; s.extend((0..len).map(|i| 0x02 + (i as u8 & 1))); s.push(tail);
                v.push((format!("oddpush/{}", len), s));
            }
        }
    }
    // and_v chains padded with n: to the exact script-size ceilings of the context and one byte
    // above: Legacy 520 (redeem script), Segwitv0 3600 (standard witness script) and 10000, Bare 10000
    {
        let limits: &[usize] = match ctx { CtxK::Legacy => &[520], CtxK::Segwitv0 => &[3600, 10000], CtxK::Bare => &[10000], CtxK::Tap => &[] };
        for &lim in limits {
            for target in [lim - 1, lim, lim + 1] {
                // n blocks `<key> CHECKSIGVERIFY` (35 bytes), then `<key> CHECKSIG` + j x 0NOTEQUAL
                let n = (target - 35) / 35 - 1;
                let j = target - 35 * n - 35;
                let mut s = vec![];
                for i in 0..n { s.extend(key(i as u32)); s.push(0xad); }
                s.extend(key(n as u32)); s.push(0xac);
                s.extend(std::iter::repeat(0x92).take(j));
                debug_assert_eq!(s.len(), target);
                v.push((format!("sizelimit/{}", target), s));
            }
        }
    }
    // regression inputs (lexer fix 042abd7f): `OP_NUMEQUAL OP_VERIFY` must be rejected as a
    // non-minimal verify; before the fix these were accepted and re-encoded to other bytes
    v.push((WITNESS_TAG.into(), vec![0x51, 0x9c, 0x69]));
    if ctx == CtxK::Tap {
        // and_v(v:multi_a(1,K),1) with the verify split off
        let mut s = key(0); s.extend_from_slice(&[0xac, 0x51, 0x9c, 0x69, 0x51]);
        v.push((WITNESS_TAG.into(), s));
    }
    // thresh with k out of range
    for (kk, n) in [(0u32, 2usize), (3, 2), (1, 1), (2, 2), (17, 17), (18, 17), (0x7fff_ffff, 2)] {
        let mut s = key(0); s.push(0xac);
        for i in 1..n { s.push(0x7c); s.extend(key(i as u32)); s.push(0xac); s.push(0x93); }
        s.extend(push_num(kk)); s.push(0x87);
        v.push((format!("thresh/{}-{}", kk, n), s));
    }
    v
}

/* ------------------------------------------------------------------ driver */

fn run_ctx<Pk: CKey, Ctx: ScriptContext<Key = Pk>>(out: &mut Out, u: &Universe, ctx: CtxK, thorough: bool, rng: &mut Rng) -> u64 {
    let mut n = 0u64;
    let mut pool: Vec<Vec<u8>> = vec![];
    // 1. bounded-exhaustive fragments (every base type is lexed; B goes through the decoder judge)
    let atoms = ast::default_atoms(ctx, !thorough);
    let frags = ast::enumerate(ctx, &atoms, if thorough { 4 } else { 3 }, if thorough { 60 } else { 12 }, rng);
    for t in &frags {
        n += 1;
        t.node.count_frags(out);
        emit_valid::<Pk, Ctx>(out, u, ctx, &t.node, &mut pool);
        if t.base != Base::B && rng.below(4) == 0 {
            // not a script on its own: the consensus entry points must refuse it (or return a B miniscript with the same bytes)
            if let Ok(ms) = ast::to_ms::<Pk, Ctx>(&t.node) { emit_bytes::<Pk, Ctx>(out, u, ctx, &ms.encode().into_bytes(), "nonB"); }
        }
    }
    // 2. random larger scripts
    for _ in 0..(if thorough { 300 } else { 40 }) {
        let sz = 10 + rng.below(40);
        if let Some(node) = ast::random_b(ctx, rng, sz) {
            n += 1;
            node.count_frags(out);
            emit_valid::<Pk, Ctx>(out, u, ctx, &node, &mut pool);
        }
    }
    // 3. corpus (own) + the shared dimension corpus (raw key hashes through from_ast, uncompressed
    //    keys in every position, mixed-encoding multi / sortedmulti, one-child thresholds, ...)
    //    + the FULL set of wrapper towers (`dimension_corpus` carries only a thin slice of them)
    let mut seen: std::collections::HashSet<String> = std::collections::HashSet::new();
    for node in corpus(ctx).into_iter().chain(ast::dimension_corpus(ctx)).chain(ast::wrapper_towers(ctx)) {
        if !seen.insert(node.wire()) { continue; }
        n += 1;
        node.count_frags(out);
        emit_valid::<Pk, Ctx>(out, u, ctx, &node, &mut pool);
    }
    out.count(&format!("corpus {}: {} distinct designated scripts (own + dimension corpus + all wrapper towers)", ctx.name(), seen.len()));
    // 3b. `v:` towers / combinators over casts (size accounting that depends on the child)
    for node in verify_towers(ctx) {
        n += 1;
        node.count_frags(out);
        emit_valid::<Pk, Ctx>(out, u, ctx, &node, &mut pool);
    }
    // 3c. refused-today corpus: judged the day `from_ast` lets one through
    for (why, node) in refused_corpus(ctx) {
        n += 1;
        match ast::to_ms::<Pk, Ctx>(&node) {
            Err(_) => out.count(&format!("refused-today {}: still refused ({})", ctx.name(), why)),
            Ok(_) => { out.count(&format!("refused-today {}: NOW ACCEPTED ({}) - judged", ctx.name(), why)); emit_valid::<Pk, Ctx>(out, u, ctx, &node, &mut pool); }
        }
    }
    // 4. malformed: mutations of the seeds and of random pool members
    let mut sources: Vec<Vec<u8>> = vec![];
    // every fragment template: all structured mutations AND every one-opcode truncation / extension
    for node in templates(ctx) {
        n += 1;
        if let Ok(ms) = ast::to_ms::<Pk, Ctx>(&node) {
            let b = ms.encode().into_bytes();
            emit_valid::<Pk, Ctx>(out, u, ctx, &node, &mut pool);
            for (tag, m) in one_opcode_edits(&b) { n += 1; emit_bytes::<Pk, Ctx>(out, u, ctx, &m, &tag); }
            sources.push(b);
        }
    }
    for node in seeds(ctx) {
        n += 1;
        let before = pool.len();
        emit_valid::<Pk, Ctx>(out, u, ctx, &node, &mut pool);
        if pool.len() > before { sources.push(pool[pool.len() - 1].clone()); } else { out.count(&format!("seed not consensus-valid in {}", ctx.name())); }
    }
    let n_src = if thorough { 600 } else { 60 };
    for _ in 0..n_src {
        if pool.is_empty() { break; }
        sources.push(pool[rng.below(pool.len())].clone());
    }
    for src in sources {
        if src.len() > 3000 { continue; }
        for (tag, m) in mutations(&src, rng, u, if thorough { 6 } else { 3 }) {
            n += 1;
            emit_bytes::<Pk, Ctx>(out, u, ctx, &m, &tag);
        }
    }
    for (tag, m) in handmade(ctx) {
        n += 1;
        emit_bytes::<Pk, Ctx>(out, u, ctx, &m, &tag);
    }
    // the other contexts' valid scripts offered to this context's decoder is covered by `swapkey`/`swap32`
    n
}

pub fn run(out: &mut Out, thorough: bool, seed: u64) {
    let mut rng = Rng(seed ^ 0xC04);
    ast::emit_defs(out);
    let u = Universe::build(out);
    let mut n = 0u64;
    for ctx in CtxK::ALL {
        n += with_ctx!(ctx, run_ctx(out, &u, ctx, thorough, &mut rng));
    }
    // CROSS-CONTEXT: every context's seed / dimension encodings offered to the decoders of the
    // three OTHER contexts (65-byte key to Segwitv0 and Tap, 33-byte key to Tap, x-only key in key
    // position outside Tap, CHECKMULTISIG script to Tap, multi_a script outside Tap)
    {
        let mut enc: Vec<(CtxK, Vec<Vec<u8>>)> = vec![];
        for a in CtxK::ALL {
            let nodes = cross_sources(a);
            enc.push((a, with_ctx!(a, encode_all(&nodes))));
        }
        for b in CtxK::ALL {
            for (a, scripts) in &enc {
                if *a == b { continue; }
                let tag = format!("cross-from-{}", a.name());
                for sc in scripts {
                    n += 1;
                    with_ctx!(b, emit_bytes(out, &u, b, sc, &tag));
                }
            }
        }
    }
    // Taproot over FULL keys: key id 200+i is the x-only form of the compressed key i
    {
        let atoms = ast::default_atoms(CtxK::Tap, true);
        let mut nodes: Vec<Node> = ast::enumerate(CtxK::Tap, &atoms, 2, if thorough { 40 } else { 8 }, &mut rng)
            .into_iter().filter(|t| t.base != Base::W).map(|t| t.node).collect();
        nodes.extend(corpus(CtxK::Tap).into_iter().filter(|x| x.size() < 60));
        nodes.extend(seeds(CtxK::Tap));
        for node in nodes {
            n += 1;
            emit_tapfull(out, &u, &rekey(&node, &|k| if k >= 200 { k - 200 } else { k }));
        }
    }
    out.note("distinct_nontrivial", n.to_string());
    out.note("domain", "valid: all enumerated fragments (depth 3/4, quota-sampled) in 4 contexts + random large + corpus (numbers at script-number boundaries, all hash kinds, pk_h, thresh n<=40, multi n<=20, multi_a n<=999, and_v re-association cases) + dimension corpus + ALL wrapper towers + v: towers over every fragment / cast (7 embeddings) + one template per fragment, each through encode, script_size, lex, decode_consensus, decode (SANE; judged when sane and free of key hashes), decode_with_validation_params CONSENSUS and MAX, and again on a clone and on the used object; refused-today corpus (locks 0 / bit 31, thresh k=0 / k>n, type errors, context rules, limits + 1, height 403) judged if accepted; malformed: every template with one instruction deleted / one opcode inserted, pushes swapped between the 20/32/33/65 length classes, all 1-byte scripts, 2- and 3-opcode scripts, pushes of 255/520/521 bytes, 1-3 byte edits, opcode edits, instruction delete/dup/swap, truncation, leading/trailing garbage, PUSHDATA1/2/4 for short data, padded/negative numbers, OP_n as data push, split/fused *VERIFY, key<->hash swaps, bad key prefixes, nesting depth 399..2000, multi/multi_a/thresh with k,n out of range".into());
}

//! C18: policy transformations preserve meaning.
//!
//! Inputs are small neutral trees (`A` abstract, `CA` concrete) over numbered atoms.  They are
//! turned into `Policy<String>` values by DIRECT enum construction (`Threshold::new`, so that
//! 1-child thresholds and constants inside thresholds are reached; the text parser refuses
//! those) and, where the text form is parseable, additionally through `from_str` (the two must
//! agree).  Every implementation call runs under `catch_unwind`; a panic is the answer `PANIC`.
//!
//! `C` lines: the implementation's answer, to be equal to the Lean model's.
//! `J` lines: the implementation's OUTPUT (last token) next to the canonical input; the Lean
//! driver judges it with the specification (`holdsA` over all assignments, selections).
use std::collections::BTreeSet;
use std::panic::{catch_unwind, AssertUnwindSafe};
use std::str::FromStr;
use std::sync::Arc;

use miniscript::bitcoin::{absolute, Sequence};
use miniscript::policy::{Concrete, Liftable, Semantic};
use miniscript::{AbsLockTime, RelLockTime, Threshold};

use crate::common::{Out, Rng};

type SP = Semantic<String>;
type CP = Concrete<String>;

/// neutral abstract policy
#[derive(Clone, Debug, PartialEq, Eq, PartialOrd, Ord)]
pub enum A {
    Unsat,
    Triv,
    Key(u32),
    After(u32),
    Older(u32),
    Hash(u8, u32),
    Thresh(usize, Vec<A>),
}

/// neutral concrete policy
#[derive(Clone, Debug, PartialEq, Eq, PartialOrd, Ord)]
pub enum CA {
    Leaf(A),
    And(Vec<CA>),
    Or(Vec<(usize, CA)>),
    Thresh(usize, Vec<CA>),
}

const HASHES: [&str; 4] = ["sha256", "hash256", "ripemd160", "hash160"];

fn name(i: u32) -> String { format!("{:04}", i) }
fn unname(s: &str) -> u32 { s.parse().expect("numeric atom name") }

fn leaf_wire(a: &A) -> String {
    match a {
        A::Unsat => "UNSATISFIABLE".into(),
        A::Triv => "TRIVIAL".into(),
        A::Key(i) => format!("pk({})", i),
        A::After(n) => format!("after({})", n),
        A::Older(n) => format!("older({})", n),
        A::Hash(k, h) => format!("{}({})", HASHES[*k as usize], h),
        A::Thresh(..) => unreachable!(),
    }
}

pub fn a_wire(a: &A) -> String {
    match a {
        A::Thresh(k, subs) => {
            let mut s = format!("thresh({}", k);
            for x in subs {
                s.push(',');
                s.push_str(&a_wire(x));
            }
            s.push(')');
            s
        }
        l => leaf_wire(l),
    }
}

pub fn ca_wire(c: &CA) -> String {
    match c {
        CA::Leaf(l) => leaf_wire(l),
        CA::And(subs) => format!("and({})", subs.iter().map(ca_wire).collect::<Vec<_>>().join(",")),
        CA::Or(subs) => format!(
            "or({})",
            subs.iter().map(|(w, x)| format!("{}@{}", w, ca_wire(x))).collect::<Vec<_>>().join(",")
        ),
        CA::Thresh(k, subs) => {
            let mut s = format!("thresh({}", k);
            for x in subs {
                s.push(',');
                s.push_str(&ca_wire(x));
            }
            s.push(')');
            s
        }
    }
}

/// direct construction; `None` when a lock value or a threshold is not constructible
pub fn a_build(a: &A) -> Option<SP> {
    Some(match a {
        A::Unsat => SP::Unsatisfiable,
        A::Triv => SP::Trivial,
        A::Key(i) => SP::Key(name(*i)),
        A::After(n) => SP::After(AbsLockTime::from_consensus(*n).ok()?),
        A::Older(n) => SP::Older(RelLockTime::from_consensus(*n).ok()?),
        A::Hash(0, h) => SP::Sha256(name(*h)),
        A::Hash(1, h) => SP::Hash256(name(*h)),
        A::Hash(2, h) => SP::Ripemd160(name(*h)),
        A::Hash(_, h) => SP::Hash160(name(*h)),
        A::Thresh(k, subs) => {
            let v: Option<Vec<Arc<SP>>> = subs.iter().map(|x| a_build(x).map(Arc::new)).collect();
            SP::Thresh(Threshold::new(*k, v?).ok()?)
        }
    })
}

pub fn ca_build(c: &CA) -> Option<CP> {
    Some(match c {
        CA::Leaf(A::Unsat) => CP::Unsatisfiable,
        CA::Leaf(A::Triv) => CP::Trivial,
        CA::Leaf(A::Key(i)) => CP::Key(name(*i)),
        CA::Leaf(A::After(n)) => CP::After(AbsLockTime::from_consensus(*n).ok()?),
        CA::Leaf(A::Older(n)) => CP::Older(RelLockTime::from_consensus(*n).ok()?),
        CA::Leaf(A::Hash(0, h)) => CP::Sha256(name(*h)),
        CA::Leaf(A::Hash(1, h)) => CP::Hash256(name(*h)),
        CA::Leaf(A::Hash(2, h)) => CP::Ripemd160(name(*h)),
        CA::Leaf(A::Hash(_, h)) => CP::Hash160(name(*h)),
        CA::Leaf(A::Thresh(..)) => return None,
        CA::And(subs) => {
            let v: Option<Vec<Arc<CP>>> = subs.iter().map(|x| ca_build(x).map(Arc::new)).collect();
            CP::And(v?)
        }
        CA::Or(subs) => {
            let v: Option<Vec<(usize, Arc<CP>)>> =
                subs.iter().map(|(w, x)| ca_build(x).map(|p| (*w, Arc::new(p)))).collect();
            CP::Or(v?)
        }
        CA::Thresh(k, subs) => {
            let v: Option<Vec<Arc<CP>>> = subs.iter().map(|x| ca_build(x).map(Arc::new)).collect();
            CP::Thresh(Threshold::new(*k, v?).ok()?)
        }
    })
}

/// canonical wire form of an implementation output
pub fn sp_wire(p: &SP) -> String {
    match p {
        SP::Unsatisfiable => "UNSATISFIABLE".into(),
        SP::Trivial => "TRIVIAL".into(),
        SP::Key(k) => format!("pk({})", unname(k)),
        SP::After(t) => format!("after({})", t.to_consensus_u32()),
        SP::Older(t) => format!("older({})", t.to_consensus_u32()),
        SP::Sha256(h) => format!("sha256({})", unname(h)),
        SP::Hash256(h) => format!("hash256({})", unname(h)),
        SP::Ripemd160(h) => format!("ripemd160({})", unname(h)),
        SP::Hash160(h) => format!("hash160({})", unname(h)),
        SP::Thresh(t) => {
            let mut s = format!("thresh({}", t.k());
            for x in t.iter() {
                s.push(',');
                s.push_str(&sp_wire(x));
            }
            s.push(')');
            s
        }
    }
}

/// an implementation output back as a neutral tree (to feed it into the next analysis)
pub fn sp_to_a(p: &SP) -> A {
    match p {
        SP::Unsatisfiable => A::Unsat,
        SP::Trivial => A::Triv,
        SP::Key(k) => A::Key(unname(k)),
        SP::After(t) => A::After(t.to_consensus_u32()),
        SP::Older(t) => A::Older(t.to_consensus_u32()),
        SP::Sha256(h) => A::Hash(0, unname(h)),
        SP::Hash256(h) => A::Hash(1, unname(h)),
        SP::Ripemd160(h) => A::Hash(2, unname(h)),
        SP::Hash160(h) => A::Hash(3, unname(h)),
        SP::Thresh(t) => A::Thresh(t.k(), t.iter().map(|x| sp_to_a(x)).collect()),
    }
}

/// library text with every threshold spelled `thresh(k,…)` (no and/or sugar)
fn a_text(a: &A) -> String {
    match a {
        A::Unsat => "UNSATISFIABLE".into(),
        A::Triv => "TRIVIAL".into(),
        A::Key(i) => format!("pk({})", name(*i)),
        A::After(n) => format!("after({})", n),
        A::Older(n) => format!("older({})", n),
        A::Hash(k, h) => format!("{}({})", HASHES[*k as usize], name(*h)),
        A::Thresh(k, subs) => {
            let mut s = format!("thresh({}", k);
            for x in subs { s.push(','); s.push_str(&a_text(x)); }
            s.push(')');
            s
        }
    }
}

fn atoms_a(a: &A, acc: &mut Vec<A>) {
    match a {
        A::Unsat | A::Triv => {}
        A::Thresh(_, subs) => subs.iter().for_each(|x| atoms_a(x, acc)),
        l => acc.push(l.clone()),
    }
}
fn atoms_ca(c: &CA, acc: &mut Vec<A>) {
    match c {
        CA::Leaf(l) => atoms_a(l, acc),
        CA::And(s) | CA::Thresh(_, s) => s.iter().for_each(|x| atoms_ca(x, acc)),
        CA::Or(s) => s.iter().for_each(|(_, x)| atoms_ca(x, acc)),
    }
}
fn n_occ(a: &A) -> usize { let mut v = vec![]; atoms_a(a, &mut v); v.len() }
fn n_distinct(xs: &[&A]) -> usize {
    let mut v = vec![];
    xs.iter().for_each(|a| atoms_a(a, &mut v));
    v.into_iter().collect::<BTreeSet<_>>().len()
}
#[allow(dead_code)]
fn has_unsat_ca(c: &CA) -> bool {
    match c {
        CA::Leaf(A::Unsat) => true,
        CA::Leaf(_) => false,
        CA::And(s) | CA::Thresh(_, s) => s.iter().any(has_unsat_ca),
        CA::Or(s) => s.iter().any(|(_, x)| has_unsat_ca(x)),
    }
}

#[allow(dead_code)]
fn has_leaf_ca(c: &CA, l: &A) -> bool {
    match c {
        CA::Leaf(x) => x == l,
        CA::And(s) | CA::Thresh(_, s) => s.iter().any(|x| has_leaf_ca(x, l)),
        CA::Or(s) => s.iter().any(|(_, x)| has_leaf_ca(x, l)),
    }
}
fn max_or_arity(c: &CA) -> usize {
    match c {
        CA::Leaf(_) => 0,
        CA::And(s) | CA::Thresh(_, s) => s.iter().map(max_or_arity).max().unwrap_or(0),
        CA::Or(s) => s.iter().map(|(_, x)| max_or_arity(x)).max().unwrap_or(0).max(s.len()),
    }
}
/// the same policy with the children of every threshold permuted (0: reversed, 1: rotated)
fn permute_children(a: &A, variant: usize) -> A {
    match a {
        A::Thresh(k, subs) => {
            let mut v: Vec<A> = subs.iter().map(|x| permute_children(x, variant)).collect();
            if variant == 0 { v.reverse() } else if !v.is_empty() { v.rotate_left(1) }
            A::Thresh(*k, v)
        }
        l => l.clone(),
    }
}

fn guard<T>(f: impl FnOnce() -> T) -> Option<T> { catch_unwind(AssertUnwindSafe(f)).ok() }
fn or_panic(x: Option<String>) -> String { x.unwrap_or_else(|| "PANIC".into()) }

const AGES: [u32; 12] =
    [0, 1, 2, 143, 144, 145, 65535, 65680, 4194304, 4194305, 4194306, 4194448];
const LOCKTIMES: [u32; 11] =
    [0, 1, 2, 143, 144, 145, 499999999, 500000000, 500000001, 500000002, 4294967295];

struct Ctx<'a> {
    out: &'a mut Out,
    seen: BTreeSet<String>,
    parse_same: u64,
    parse_unparseable: u64,
    slice: u64,
    /// outputs of analyses waiting to be analysed themselves (normalized twice, at_age after
    /// at_lock_time, sorted then normalized, …); `deriving` stops the chain after one step
    pending: Vec<A>,
    deriving: bool,
}

impl<'a> Ctx<'a> {
    /// every single-policy op on one abstract policy; `ages` / `locks`: how many of the lock
    /// parameters to try
    fn abstract_ops(&mut self, a: &A, n_ages: usize, judge: bool) {
        // a thin deterministic slice of every policy size gets ALL ages / lock times
        self.slice += 1;
        let n_ages = if self.slice % 16 == 0 { AGES.len().max(LOCKTIMES.len()) } else { n_ages };
        let ages: Vec<u32> = AGES.iter().copied().take(n_ages).collect();
        let lts: Vec<u32> = LOCKTIMES.iter().copied().take(n_ages).collect();
        self.abstract_ops_with(a, &ages, &lts, judge)
    }

    /// a panic of the library is a violation of its own: one explicit judged line
    fn nopanic(&mut self, op: &str, input: &str, ans: &str) {
        if ans == "PANIC" { self.out.line(&format!("J nopanic {} {} PANIC", op, input), "ok"); }
    }

    fn abstract_ops_with(&mut self, a: &A, ages_in: &[u32], lts_in: &[u32], judge: bool) {
        let p = match a_build(a) { Some(p) => p, None => { self.out.count("skipped-unconstructible"); return } };
        let w = a_wire(a);
        if !self.seen.insert(w.clone()) { return; }
        self.out.count("abstract-policies");
        // the text route, where there is one: must give the same value; the analyses below then
        // run on the PARSED object (route from_str -> analysis), otherwise on the enum-built one
        let p = match guard(|| SP::from_str(&p.to_string())) {
            Some(Ok(q)) if q == p => { self.parse_same += 1; q }
            Some(Ok(q)) => { self.out.line(&format!("C parse-roundtrip {}", w), &format!("DIFFERS:{}", sp_wire(&q))); p }
            _ => { self.parse_unparseable += 1; p }
        };
        // `Liftable for Semantic` is the identity
        let sl = match guard(|| p.lift()) { Some(Ok(q)) => sp_wire(&q), Some(Err(_)) => "ERR".into(), None => "PANIC".into() };
        self.out.line(&format!("C slift {}", w), &sl);
        let small = judge && n_distinct(&[a]) <= 9;
        let norm = guard(|| p.clone().normalized());
        self.out.line(&format!("C normalize {}", w), &or_panic(norm.as_ref().map(sp_wire)));
        if small {
            self.out.line(&format!("J equiv {} {}", w, or_panic(norm.as_ref().map(sp_wire))), "ok");
        }
        if judge {
            self.out.line(&format!("J nf {} {}", w, or_panic(norm.as_ref().map(sp_wire))), "ok");
        }
        self.nopanic("normalize", &w, &or_panic(norm.as_ref().map(sp_wire)));
        if !self.deriving {
            if let Some(n) = norm.as_ref() { self.pending.push(sp_to_a(n)); }
        }
        let sorted = guard(|| p.clone().sorted());
        let sorted_w = or_panic(sorted.as_ref().map(sp_wire));
        self.out.line(&format!("C sort {}", w), &sorted_w);
        self.nopanic("sort", &w, &sorted_w);
        if !self.deriving && self.slice % 4 == 0 {
            if let Some(x) = sorted.as_ref() { self.pending.push(sp_to_a(x)); }
        }
        if small {
            self.out.line(&format!("J equiv {} {}", w, sorted_w), "ok");
        }
        // `sorted` is a normal form of the children's order: permute the children at every
        // level (reversed, and rotated by one) and sort again
        if judge && matches!(a, A::Thresh(..)) && n_occ(a) <= 40 {
            for variant in 0..2 {
                let a2 = permute_children(a, variant);
                if a2 == *a { continue; }
                if let Some(p2) = a_build(&a2) {
                    let s2 = or_panic(guard(|| p2.clone().sorted()).as_ref().map(sp_wire));
                    self.out.line(&format!("J sortcanon {} {} {} {}", w, a_wire(&a2), sorted_w, s2), "ok");
                }
            }
        }
        let mk = or_panic(guard(|| match p.minimum_n_keys() { Some(n) => n.to_string(), None => "none".into() }));
        self.out.line(&format!("C minkeys {}", w), &mk);
        if small && n_occ(a) <= 12 {
            self.out.line(&format!("J minkeys {} {}", w, mk), "ok");
        }
        self.nopanic("minkeys", &w, &mk);
        let nk = or_panic(guard(|| p.n_keys().to_string()));
        self.out.line(&format!("C nkeys {}", w), &nk);
        if judge { self.out.line(&format!("J nkeys {} {}", w, nk), "ok"); }
        // lock lists and constant tests (anchor functions of semantic.rs)
        let show = |v: Vec<u32>| if v.is_empty() { "-".to_string() } else { v.iter().map(|x| x.to_string()).collect::<Vec<_>>().join(",") };
        let rtl = or_panic(guard(|| show(p.relative_timelocks())));
        let atl = or_panic(guard(|| show(p.absolute_timelocks())));
        self.out.line(&format!("C rtl {}", w), &rtl);
        self.out.line(&format!("C atl {}", w), &atl);
        self.nopanic("rtl", &w, &rtl);
        self.nopanic("atl", &w, &atl);
        if judge && rtl != "PANIC" && atl != "PANIC" { self.out.line(&format!("J locks {} {} {}", w, rtl, atl), "ok"); }
        self.out.line(&format!("C isconst {}", w),
            &or_panic(guard(|| format!("{}{}", p.is_trivial() as u8, p.is_unsatisfiable() as u8))));
        let mut locks = vec![];
        atoms_a(a, &mut locks);
        let has_older = locks.iter().any(|x| matches!(x, A::Older(_)));
        let has_after = locks.iter().any(|x| matches!(x, A::After(_)));
        let ages: Vec<u32> = if has_older { ages_in.to_vec() } else { vec![144] };
        for age in ages {
            let rl = Sequence::from_consensus(age).to_relative_lock_time().unwrap();
            let r = or_panic(guard(|| p.clone().at_age(rl)).as_ref().map(sp_wire));
            self.out.line(&format!("C atage {} {}", age, w), &r);
            if small { self.out.line(&format!("J atage {} {} {}", age, w, r), "ok"); }
            if judge { self.out.line(&format!("J nf atage:{}:{} {}", age, w, r), "ok"); }
            self.nopanic("atage", &format!("{} {}", age, w), &r);
            if !self.deriving && has_older && has_after && age == 144 {
                if let Some(q) = guard(|| p.clone().at_age(rl)) { self.pending.push(sp_to_a(&q)); }
            }
        }
        let lts: Vec<u32> = if has_after { lts_in.to_vec() } else { vec![144] };
        for n in lts {
            let lt = absolute::LockTime::from_consensus(n);
            let r = or_panic(guard(|| p.clone().at_lock_time(lt)).as_ref().map(sp_wire));
            self.out.line(&format!("C atlock {} {}", n, w), &r);
            if small { self.out.line(&format!("J atlock {} {} {}", n, w, r), "ok"); }
            if judge { self.out.line(&format!("J nf atlock:{}:{} {}", n, w, r), "ok"); }
            self.nopanic("atlock", &format!("{} {}", n, w), &r);
            if !self.deriving && has_older && has_after && n == 144 {
                if let Some(q) = guard(|| p.clone().at_lock_time(lt)) { self.pending.push(sp_to_a(&q)); }
            }
        }
    }

    /// policies that the constructors / the parser refuse TODAY, one reason each: the refusal
    /// itself is compared with the model of the rule; should a rule let one through, the value
    /// goes through every analysis and judge like any other policy
    fn refused_ops(&mut self, a: &A) {
        let w = a_wire(a);
        let built = a_build(a);
        self.out.line(&format!("C constructible {}", w), if built.is_some() { "ok" } else { "refused" });
        let parsed = guard(|| SP::from_str(&a_text(a)));
        let pr = match &parsed { Some(Ok(_)) => "ok", Some(Err(_)) => "refused", None => "PANIC" };
        self.out.line(&format!("C fromstr {}", w), pr);
        self.nopanic("fromstr", &w, pr);
        if built.is_some() { self.abstract_ops(a, 12, true); }
        if let Some(Ok(q)) = parsed {
            let back = sp_to_a(&q);
            if back != *a { self.out.line(&format!("C parse-roundtrip {}", w), &format!("DIFFERS:{}", sp_wire(&q))); }
            self.abstract_ops(&back, 12, true);
        }
    }

    /// `Concrete::from_str` on a policy that is expressible as text (binary and/or, weights >= 1):
    /// accepted iff `check_timelocks` accepts
    fn cparse_ops(&mut self, c: &CA) {
        let p = match ca_build(c) { Some(p) => p, None => return };
        let w = ca_wire(c);
        let r = match guard(|| CP::from_str(&p.to_string())) {
            Some(Ok(q)) => if q == p { "ok".to_string() } else { "DIFFERS".into() },
            Some(Err(_)) => "refused".into(),
            None => "PANIC".into(),
        };
        self.out.line(&format!("C cparse {}", w), &r);
        self.nopanic("cparse", &w, &r);
        self.concrete_ops(c, false);
    }

    fn entails_ops(&mut self, a: &A, b: &A, judge_unnormalized: bool) {
        let (pa, pb) = match (a_build(a), a_build(b)) { (Some(x), Some(y)) => (x, y), _ => return };
        let (wa, wb) = (a_wire(a), a_wire(b));
        let r = or_panic(guard(|| match pa.clone().entails(pb.clone()) {
            None => "none".to_string(),
            Some(true) => "true".into(),
            Some(false) => "false".into(),
        }));
        self.out.line(&format!("C entails {} {}", wa, wb), &r);
        self.nopanic("entails", &format!("{} {}", wa, wb), &r);
        let normal = pa.clone().normalized() == pa && pb.clone().normalized() == pb;
        let _ = judge_unnormalized;
        if n_distinct(&[a, b]) <= 10 || n_occ(a) > 20 {
            // every pair is judged against truth-table implication, normalised or not
            self.out.count(if normal { "entails-judged-normalized" } else { "entails-judged-unnormalized" });
            self.out.line(&format!("J entails {} {} {}", wa, wb, r), "ok");
        }
    }

    fn concrete_ops(&mut self, c: &CA, _designated: bool) {
        let p = match ca_build(c) { Some(p) => p, None => { self.out.count("skipped-unconstructible"); return } };
        let w = ca_wire(c);
        if !self.seen.insert(format!("c:{}", w)) { return; }
        self.out.count("concrete-policies");
        let tl = or_panic(guard(|| if p.check_timelocks().is_ok() { "ok".to_string() } else { "err".into() }));
        self.out.line(&format!("C checktl {}", w), &tl);
        let mut ats = vec![];
        atoms_ca(c, &mut ats);
        let small = ats.len() <= 10;
        if small {
            // the property as stated: refused iff some SATISFIABLE path mixes height and time
            self.out.line(&format!("J checktl {} {}", w, tl), "ok");
        }
        // both routes of `Liftable`: the policy itself and `Arc<Concrete>` (alternating)
        self.slice += 1;
        let via_arc = self.slice % 2 == 0;
        let lifted = match guard(|| if via_arc { Arc::new(p.clone()).lift() } else { p.lift() }) {
            Some(Ok(s)) => sp_wire(&s),
            Some(Err(miniscript::Error::Threshold(_))) => "ERRTHRESH".into(),
            Some(Err(_)) => "ERR".into(),
            None => "PANIC".into(),
        };
        self.out.line(&format!("C clift {}", w), &lifted);
        if small {
            // lifted to an equivalent policy, or refused because a satisfiable path mixes locks
            self.out.line(&format!("J clift {} {}", w, lifted), "ok");
        }
        if lifted != "PANIC" { self.out.line(&format!("J nf {} {}", w, lifted), "ok"); }
        self.nopanic("checktl", &w, &tl);
        self.nopanic("clift", &w, &lifted);
        let nm = or_panic(guard(|| { let (s, m) = p.is_safe_nonmalleable(); format!("{}{}", s as u8, m as u8) }));
        self.out.line(&format!("C safenm {}", w), &nm);
        self.nopanic("safenm", &w, &nm);
        let dup = or_panic(guard(|| if p.check_duplicate_keys().is_ok() { "ok".to_string() } else { "dup".into() }));
        self.out.line(&format!("C cdup {}", w), &dup);
        self.out.line(&format!("J cdup {} {}", w, dup), "ok");
        self.nopanic("cdup", &w, &dup);
        let valid = or_panic(guard(|| match p.is_valid() {
            Ok(()) => "ok".to_string(),
            Err(miniscript::policy::concrete::PolicyError::HeightTimelockCombination) => "timelock".into(),
            Err(miniscript::policy::concrete::PolicyError::DuplicatePubKeys) => "dup".into(),
        }));
        self.out.line(&format!("C cvalid {}", w), &valid);
        self.nopanic("cvalid", &w, &valid);
        // is_safe_nonmalleable is not part of C18's statement: the judges below run on the classes
        // where the library agrees with the specification today; the class where it does not
        // (`or` with more than two branches) is an OBSERVATION (counted; `C safenm` still covers it)
        if small {
            // `signed` <=> every satisfaction needs a signature
            self.out.line(&format!("J safe {} {}", w, nm), "ok");
        }
        let distinct = ats.iter().collect::<BTreeSet<_>>().len() == ats.len();
        if ats.len() <= 8 && distinct {
            if max_or_arity(c) <= 2 {
                // `non-malleable` claimed => semantically non-malleable (atoms pairwise distinct)
                self.out.line(&format!("J nonmall-sound {} {}", w, nm), "ok");
            } else {
                self.out.count("observation: is_safe_nonmalleable on an Or with more than two branches (one signed branch suffices for non-malleable) - not judged");
                if w == "or(1@pk(0),1@after(1),1@after(500000001))" {
                    self.out.note(&format!("observation_safenm_{}", w), format!("is_safe_nonmalleable = {} (signed, non-malleable)", nm));
                }
            }
        }
        // text route
        if let Some(Ok(q)) = guard(|| CP::from_str(&p.to_string())) {
            if q == p { self.parse_same += 1 } else {
                self.out.line(&format!("C parse-roundtrip-c {}", w), "DIFFERS");
            }
        } else { self.parse_unparseable += 1 }
    }
}

/// all thresholds over the given children alphabets: `n` children, every `k` in `1..=n`
fn all_thresh(children: &[A], n: usize, f: &mut dyn FnMut(A)) {
    let mut idx = vec![0usize; n];
    loop {
        let subs: Vec<A> = idx.iter().map(|&i| children[i].clone()).collect();
        for k in 1..=n { f(A::Thresh(k, subs.clone())); }
        let mut i = 0;
        loop {
            if i == n { return; }
            idx[i] += 1;
            if idx[i] < children.len() { break; }
            idx[i] = 0;
            i += 1;
        }
    }
}

fn rand_a(rng: &mut Rng, depth: usize, leaves: &[A], max_n: usize) -> A {
    if depth == 0 || rng.below(10) < 3 { return rng.pick(leaves).clone(); }
    let n = 1 + rng.below(max_n);
    let k = 1 + rng.below(n);
    A::Thresh(k, (0..n).map(|_| rand_a(rng, depth - 1, leaves, max_n)).collect())
}

fn rand_ca(rng: &mut Rng, depth: usize, leaves: &[A], nary: bool) -> CA {
    if depth == 0 || rng.below(10) < 3 { return CA::Leaf(rng.pick(leaves).clone()); }
    match rng.below(3) {
        0 => {
            let n = if nary { 1 + rng.below(3) } else { 2 };
            CA::And((0..n).map(|_| rand_ca(rng, depth - 1, leaves, nary)).collect())
        }
        1 => {
            let n = if nary { 1 + rng.below(3) } else { 2 };
            CA::Or((0..n).map(|_| (rng.below(10), rand_ca(rng, depth - 1, leaves, nary))).collect())
        }
        _ => {
            let n = 1 + rng.below(4);
            let k = 1 + rng.below(n);
            CA::Thresh(k, (0..n).map(|_| rand_ca(rng, depth - 1, leaves, nary)).collect())
        }
    }
}

pub fn run(out: &mut Out, thorough: bool, seed: u64) {
    let hook = std::panic::take_hook();
    std::panic::set_hook(Box::new(|_| {}));
    let mut rng = Rng(seed ^ 0xC18);
    let mut cx = Ctx { out, seen: BTreeSet::new(), parse_same: 0, parse_unparseable: 0, slice: 0, pending: vec![], deriving: false };

    // ---- leaf alphabets
    let full: Vec<A> = vec![
        A::Key(0), A::Key(1), A::Key(2), A::Hash(0, 0),
        A::After(1), A::After(144), A::After(500000000), A::After(500000001),
        A::Older(1), A::Older(144), A::Older(4194305),
        A::Triv, A::Unsat,
    ];
    let mid: Vec<A> = vec![
        A::Key(0), A::Key(1), A::Hash(0, 0), A::Older(1), A::Older(4194305), A::After(144),
        A::Triv, A::Unsat,
    ];
    let tiny: Vec<A> = vec![A::Key(0), A::Key(2), A::Older(144), A::Triv, A::Unsat];

    // ---- 1. bounded-exhaustive abstract policies
    for l in full.iter().chain([A::Hash(1, 1), A::Hash(2, 2), A::Hash(3, 3), A::Older(65680)].iter()) {
        cx.abstract_ops(l, 12, true);
    }
    // depth 1: every threshold with 1..3 children over the full alphabet, every k
    for n in 1..=3 {
        let mut v = vec![];
        all_thresh(&full, n, &mut |a| v.push(a));
        for a in v { cx.abstract_ops(&a, if n < 3 { 12 } else { 4 }, true); }
    }
    // depth 2: children = leaves of `mid` + all depth-1 thresholds (1..2 children) over `tiny`
    let mut d1: Vec<A> = mid.clone();
    for n in 1..=2 { all_thresh(&tiny, n, &mut |a| d1.push(a)); }
    if thorough { all_thresh(&tiny, 3, &mut |a| d1.push(a)); }
    for n in 1..=2 {
        let mut v = vec![];
        all_thresh(&d1, n, &mut |a| v.push(a));
        for a in v { cx.abstract_ops(&a, 3, true); }
    }
    // depth 2 with 3 and 4 children: seeded sample
    for _ in 0..(if thorough { 60000 } else { 4000 }) {
        let n = 3 + rng.below(2);
        let k = 1 + rng.below(n);
        let a = A::Thresh(k, (0..n).map(|_| rng.pick(&d1).clone()).collect());
        cx.abstract_ops(&a, 3, true);
    }
    // near-twin locks: same 16 value bits with other bits set (older(5) / older(65541) /
    // older(4194309)), same digits across the height/time boundary (after(9) / after(1000000000));
    // ages and lock times on both sides of every value and of the unit boundaries
    let twins: Vec<A> = vec![
        A::Older(5), A::Older(65541), A::Older(4194309), A::After(9), A::After(1000000000), A::Key(0),
    ];
    let twin_ages: Vec<u32> = vec![4, 5, 6, 65540, 65541, 65542, 4194303, 4194304, 4194308, 4194309, 4194310, 4259845];
    let twin_lts: Vec<u32> = vec![8, 9, 10, 499999999, 500000000, 999999999, 1000000000, 1000000001];
    for l in twins.iter() { cx.abstract_ops_with(l, &twin_ages, &twin_lts, true); }
    for n in 1..=3 {
        let mut v = vec![];
        all_thresh(&twins, n, &mut |a| v.push(a));
        for a in v {
            if n < 3 { cx.abstract_ops_with(&a, &twin_ages, &twin_lts, true); }
            else { cx.abstract_ops_with(&a, &twin_ages[..4], &twin_lts[..3], true); }
        }
    }
    for _ in 0..(if thorough { 3000 } else { 300 }) {
        let a = rand_a(&mut rng, 3, &twins, 4);
        cx.abstract_ops_with(&a, &twin_ages, &twin_lts, true);
    }
    // every hash kind, two hashes per kind: siblings of the same kind, different kinds, inside
    // thresholds (variant-name order and the per-kind `Ord` arms; `sorted` / sortcanon)
    let hashes: Vec<A> = (0..4u8).flat_map(|k| [A::Hash(k, 0), A::Hash(k, 1)]).collect();
    let hash_alpha: Vec<A> = hashes.iter().cloned().chain([A::Key(0), A::Older(1), A::After(144)]).collect();
    for l in hashes.iter() { cx.abstract_ops(l, 2, true); }
    for n in 1..=2 {
        let mut v = vec![];
        all_thresh(&hash_alpha, n, &mut |a| v.push(a));
        for a in v { cx.abstract_ops(&a, 2, true); }
    }
    for _ in 0..(if thorough { 6000 } else { 600 }) {
        let a = rand_a(&mut rng, 3, &hash_alpha, 4);
        cx.abstract_ops(&a, 2, true);
    }
    // repeated locks and keys, locks inside unsatisfiable branches (lock lists, n_keys)
    let rep: Vec<A> = vec![A::Older(144), A::Older(1), A::After(9), A::After(500000001), A::Key(0), A::Unsat, A::Triv];
    for _ in 0..(if thorough { 3000 } else { 400 }) {
        let a = rand_a(&mut rng, 3, &rep, 5);
        cx.abstract_ops(&a, 2, true);
    }
    for a in [
        A::Thresh(2, vec![A::Older(144), A::Older(144), A::Older(1)]),
        A::Thresh(2, vec![A::Unsat, A::Thresh(2, vec![A::Older(5), A::After(7)])]),
        A::Thresh(1, vec![A::After(9), A::Thresh(2, vec![A::After(9), A::After(500000001), A::After(9)])]),
    ] { cx.abstract_ops(&a, 12, true); }
    // ---- 2. random deeper policies (repeated atoms, wide thresholds)
    let deep_leaves: Vec<A> = vec![
        A::Key(0), A::Key(1), A::Key(2), A::Key(3), A::Hash(0, 0), A::Hash(3, 1),
        A::Hash(1, 0), A::Hash(1, 1), A::Hash(2, 0), A::Hash(2, 1), A::Hash(0, 1), A::Hash(3, 0),
        A::Older(1), A::Older(4194305), A::Older(65680), A::After(144), A::After(500000001),
        A::Triv, A::Unsat,
    ];
    for _ in 0..(if thorough { 40000 } else { 2500 }) {
        let a = rand_a(&mut rng, 4, &deep_leaves, 5);
        cx.abstract_ops(&a, 3, true);
    }
    // wide: up to 25 children / many keys (model correspondence; judged when few distinct atoms)
    for _ in 0..(if thorough { 2000 } else { 200 }) {
        let many: Vec<A> = (0..12).map(A::Key).chain([A::Triv, A::Unsat, A::Older(1)]).collect();
        let a = rand_a(&mut rng, 2, &many, 25);
        cx.abstract_ops(&a, 2, true);
    }

    // ---- 2b. STATES. Every analysis runs on raw un-normalised values (all of the above), on
    // designated towers whose normal form depends on what the children turn into, and on the
    // OUTPUT of another analysis (normalized twice, sorted then normalized, at_age after
    // at_lock_time and vice versa: the `pending` queue below)
    {
        let (a, b, c, d) = (A::Key(0), A::Key(1), A::Key(2), A::Key(3));
        let (t, u) = (A::Triv, A::Unsat);
        let (o, ot, af) = (A::Older(144), A::Older(4194305), A::After(144));
        let and = |v: Vec<A>| A::Thresh(v.len(), v);
        let or = |v: Vec<A>| A::Thresh(1, v);
        let towers: Vec<A> = vec![
            // nested and-in-and-in-and, or-in-or-in-or, alternations
            and(vec![and(vec![and(vec![a.clone(), b.clone()]), c.clone()]), d.clone()]),
            or(vec![or(vec![or(vec![a.clone(), b.clone()]), c.clone()]), d.clone()]),
            and(vec![or(vec![and(vec![a.clone(), b.clone()]), c.clone()]), or(vec![d.clone(), o.clone()])]),
            or(vec![and(vec![or(vec![a.clone(), b.clone()]), c.clone()]), and(vec![d.clone(), af.clone()])]),
            // one-child towers
            or(vec![or(vec![A::Thresh(2, vec![a.clone(), b.clone(), c.clone()])])]),
            and(vec![or(vec![and(vec![a.clone()])])]),
            or(vec![or(vec![or(vec![t.clone()])])]),
            and(vec![and(vec![u.clone()])]),
            // dead conjunctions below live ors / thresholds
            or(vec![a.clone(), and(vec![u.clone(), b.clone()])]),
            or(vec![and(vec![b.clone(), u.clone()]), a.clone()]),
            A::Thresh(2, vec![a.clone(), and(vec![u.clone(), b.clone(), c.clone()]), d.clone()]),
            A::Thresh(2, vec![a.clone(), and(vec![b.clone(), and(vec![c.clone(), u.clone()])]), or(vec![d.clone(), u.clone()])]),
            or(vec![and(vec![u.clone(), o.clone()]), and(vec![a.clone(), ot.clone()])]),
            A::Thresh(2, vec![and(vec![u.clone(), a.clone()]), and(vec![u.clone(), b.clone()]), c.clone()]),
            // the kind of the node changes once constants are removed, children of the new kind
            A::Thresh(3, vec![t.clone(), and(vec![a.clone(), b.clone()]), and(vec![c.clone(), d.clone()])]),
            A::Thresh(2, vec![t.clone(), or(vec![a.clone(), b.clone()]), or(vec![c.clone(), d.clone()])]),
            A::Thresh(2, vec![u.clone(), and(vec![a.clone(), b.clone()]), and(vec![c.clone(), d.clone()])]),
            A::Thresh(1, vec![u.clone(), or(vec![a.clone(), b.clone()]), or(vec![c.clone(), d.clone()])]),
            A::Thresh(3, vec![t.clone(), t.clone(), or(vec![a.clone(), or(vec![b.clone(), c.clone()])]), d.clone()]),
            A::Thresh(2, vec![t.clone(), u.clone(), and(vec![a.clone(), and(vec![b.clone(), o.clone()])])]),
            A::Thresh(3, vec![a.clone(), t.clone(), u.clone(), and(vec![b.clone(), c.clone()]), or(vec![d.clone(), af.clone()])]),
        ];
        // constants at every child position of every tower
        let mut all: Vec<A> = towers.clone();
        for tw in towers.iter() {
            if let A::Thresh(k, subs) = tw {
                for pos in 0..=subs.len() {
                    for cst in [&t, &u] {
                        let mut v = subs.clone();
                        v.insert(pos, cst.clone());
                        all.push(A::Thresh(*k, v.clone()));
                        all.push(A::Thresh(k + 1, v));
                    }
                }
            }
        }
        for x in all.iter() { cx.abstract_ops(x, 12, true); }
    }
    // ---- 2c. REFUSED TODAY, one reason each (lock ranges, threshold k, spelling of and/or as
    // thresh) next to their accepted neighbours
    for a in [
        A::After(0), A::After(1), A::After(2147483647), A::After(2147483648), A::After(4294967295),
        A::Older(0), A::Older(1), A::Older(2147483647), A::Older(2147483648), A::Older(4294967295),
        A::Thresh(0, vec![A::Key(0), A::Key(1), A::Key(2)]),
        A::Thresh(1, vec![A::Key(0), A::Key(1), A::Key(2)]),
        A::Thresh(2, vec![A::Key(0), A::Key(1), A::Key(2)]),
        A::Thresh(3, vec![A::Key(0), A::Key(1), A::Key(2)]),
        A::Thresh(4, vec![A::Key(0), A::Key(1), A::Key(2)]),
        A::Thresh(0, vec![]), A::Thresh(1, vec![]), A::Thresh(1, vec![A::Key(0)]), A::Thresh(2, vec![A::Key(0)]),
        A::Thresh(2, vec![A::Key(0), A::After(0), A::Key(1)]),
        A::Thresh(2, vec![A::Key(0), A::Older(2147483648), A::Key(1)]),
        A::Thresh(2, vec![A::Key(0), A::Thresh(0, vec![A::Key(1), A::Key(2)]), A::Key(3)]),
        A::Thresh(2, vec![A::Key(0), A::Thresh(3, vec![A::Key(1), A::Key(2)]), A::Key(3)]),
        A::Thresh(2, vec![A::Key(0), A::Thresh(2, vec![A::Key(1), A::Key(2), A::Older(1)]), A::Key(3)]),
    ] { cx.refused_ops(&a); }
    // ---- 2d. the outputs of the analyses above, analysed again (one step)
    {
        cx.deriving = true;
        let pending = std::mem::take(&mut cx.pending);
        let total = pending.len();
        let cap = if thorough { usize::MAX } else { 9000 };
        let mut done = 0usize;
        for a in pending.iter() {
            if done >= cap { break; }
            let before = cx.seen.len();
            cx.abstract_ops(a, 2, true);
            if cx.seen.len() > before { done += 1; }
        }
        cx.out.note("derived_states", format!("{} outputs queued, {} new policies analysed again", total, done));
        cx.deriving = false;
    }

    // ---- 3. entailment
    // (a) all pairs over a small closed set, normalised or not (model correspondence), judged
    //     against truth-table implication
    let e_leaves: Vec<A> = vec![A::Key(0), A::Key(1), A::Older(1), A::Triv, A::Unsat];
    let e_tiny: Vec<A> = vec![A::Key(0), A::Key(1), A::Triv, A::Unsat];
    let mut es: Vec<A> = e_leaves.clone();
    for n in 1..=(if thorough { 3 } else { 2 }) { all_thresh(&e_tiny, n, &mut |a| es.push(a)); }
    all_thresh(&[A::Key(0), A::Key(1), A::Key(2)], 3, &mut |a| es.push(a));
    // hash / after / time-older atoms, two different locks of one kind (atoms are independent:
    // after(144) does NOT entail after(1)); thresholds whose first child is a lock or a hash
    let e_locks: Vec<A> = vec![A::After(1), A::After(144), A::Older(4194305), A::Hash(1, 0)];
    es.extend(e_locks.iter().cloned());
    all_thresh(&[A::After(1), A::After(144), A::Hash(1, 0), A::Key(0)], 2, &mut |a| es.push(a));
    for a in es.iter() { for b in es.iter() { cx.entails_ops(a, b, false); } }
    // (b) un-normalised inputs with hidden constants (the former F6 witnesses)
    let un: Vec<A> = vec![
        A::Triv, A::Unsat, A::Key(0), A::Key(1),
        A::Thresh(1, vec![A::Triv, A::Key(0)]),
        A::Thresh(2, vec![A::Unsat, A::Key(0)]),
        A::Thresh(2, vec![A::Triv, A::Triv]),
    ];
    for a in un.iter() { for b in un.iter() { cx.entails_ops(a, b, true); } }
    // (c) random pairs and their normal forms
    for _ in 0..(if thorough { 20000 } else { 1500 }) {
        let a = rand_a(&mut rng, 3, &mid, 4);
        let b = rand_a(&mut rng, 3, &mid, 4);
        cx.entails_ops(&a, &b, false);
        // weakenings / strengthenings are the interesting positives
        if let A::Thresh(k, subs) = &a {
            if *k > 1 { cx.entails_ops(&a, &A::Thresh(k - 1, subs.clone()), false); }
            cx.entails_ops(&a, &A::Thresh(1, vec![a.clone(), b.clone()]), false);
            cx.entails_ops(&A::Thresh(2, vec![a.clone(), b.clone()]), &a, false);
        }
    }
    // (d) the terminal bound: 20 terminals are answered, 21 are not (few distinct atoms)
    for n in [19usize, 20, 21, 25] {
        let subs: Vec<A> = (0..n).map(|i| A::Key((i % 5) as u32)).collect();
        for k in [1, 3, n] {
            let big = A::Thresh(k, subs.clone());
            cx.entails_ops(&big, &A::Key(0), false);
            cx.entails_ops(&A::Key(0), &big, false);
            cx.entails_ops(&big, &A::Thresh(1, vec![A::Key(0), A::Key(1), A::Key(2), A::Key(3), A::Key(4)]), false);
        }
    }

    // (e) the same bound with mixed atoms, constants and nesting: constants do not count,
    //     every other leaf does, at any depth
    let mix: Vec<A> = vec![A::Key(0), A::Hash(0, 0), A::After(144), A::Older(1), A::Key(1), A::Hash(2, 1)];
    for n in [19usize, 20, 21] {
        // n terminals: groups of three inside nested thresholds, padded with constants
        let mut subs: Vec<A> = vec![A::Triv, A::Unsat];
        let mut left = n;
        let mut i = 0;
        while left > 0 {
            let g = left.min(3);
            let mut inner: Vec<A> = (0..g).map(|j| mix[(i + j) % mix.len()].clone()).collect();
            inner.push(if i % 2 == 0 { A::Unsat } else { A::Triv });
            subs.push(A::Thresh(1 + (i % g), inner));
            left -= g;
            i += 1;
        }
        subs.push(A::Thresh(1, vec![A::Triv, A::Unsat]));
        for k in [1usize, 2, subs.len()] {
            let big = A::Thresh(k, subs.clone());
            cx.entails_ops(&big, &A::Key(0), false);
            cx.entails_ops(&big, &big, false);
            cx.entails_ops(&big, &A::Thresh(1, mix.clone()), false);
            cx.entails_ops(&A::Hash(0, 0), &big, false);
        }
    }

    // ---- 4. concrete policies: lift, check_timelocks
    let c_leaves: Vec<A> = vec![
        A::Key(0), A::Key(1), A::Older(1), A::Older(4194305), A::After(1), A::After(500000001),
        A::Triv, A::Unsat,
    ];
    let cl: Vec<CA> = c_leaves.iter().cloned().map(CA::Leaf).collect();
    // designated regression inputs: the former F10 witnesses (mixed path only through
    // UNSATISFIABLE), lift-refusal witnesses, non-binary `And` / `Or` built through the enum
    let o1 = CA::Leaf(A::Older(1));
    let ot = CA::Leaf(A::Older(4194305));
    let un_ = CA::Leaf(A::Unsat);
    let k0 = CA::Leaf(A::Key(0));
    let k1 = CA::Leaf(A::Key(1));
    let k2 = CA::Leaf(A::Key(2));
    let designated: Vec<CA> = vec![
        CA::And(vec![un_.clone(), CA::And(vec![o1.clone(), ot.clone()])]),
        CA::Thresh(3, vec![o1.clone(), ot.clone(), un_.clone()]),
        CA::And(vec![o1.clone(), CA::Or(vec![(1, k0.clone()), (1, CA::And(vec![ot.clone(), un_.clone()]))])]),
        CA::And(vec![CA::Leaf(A::After(1)), CA::And(vec![CA::Leaf(A::After(500000001)), un_.clone()])]),
        // regression: mixed locks only in a sub-policy that no satisfaction uses (lift used to refuse)
        CA::Or(vec![(1, k0.clone()), (1, CA::And(vec![un_.clone(), CA::And(vec![o1.clone(), ot.clone()])]))]),
        CA::Thresh(2, vec![k0.clone(), k1.clone(), CA::And(vec![un_.clone(),
            CA::And(vec![CA::Leaf(A::After(1)), CA::Leaf(A::After(500000001))])])]),
        // still refused, rightly: a satisfiable mixed path next to UNSATISFIABLE
        CA::Thresh(2, vec![o1.clone(), ot.clone(), un_.clone()]),
        // is_safe_nonmalleable: TRIVIAL (judged since the repair) and the three-branch `or` observation
        CA::Leaf(A::Triv),
        CA::Or(vec![(1, k0.clone()), (1, CA::Leaf(A::Triv))]),
        CA::Thresh(1, vec![k0.clone(), CA::Leaf(A::Triv)]),
        CA::Or(vec![(1, o1.clone()), (1, CA::Leaf(A::Triv))]),
        CA::Or(vec![(1, k0.clone()), (1, CA::Leaf(A::After(1))), (1, CA::Leaf(A::After(500000001)))]),
        CA::Or(vec![(0, k0.clone()), (0, o1.clone())]),
        CA::And(vec![k0.clone(), k1.clone(), k2.clone()]),
        CA::And(vec![k0.clone()]),
        CA::And(vec![]),
        CA::Or(vec![]),
        CA::Or(vec![(1, k0.clone())]),
        CA::Or(vec![(1, k0.clone()), (1, k1.clone()), (1, k2.clone())]),
        CA::And(vec![o1.clone(), ot.clone(), k0.clone()]),
        CA::And(vec![k0.clone(), CA::Or(vec![])]),
        CA::Or(vec![(1, k0.clone()), (2, CA::And(vec![]))]),
        CA::Thresh(1, vec![CA::And(vec![k0.clone()]), CA::And(vec![k1.clone(), k2.clone(), k0.clone()])]),
    ];
    for c in designated.iter() { cx.concrete_ops(c, true); }
    for l in cl.iter() { cx.concrete_ops(l, false); }
    let mut c1: Vec<CA> = vec![];
    for x in cl.iter() { for y in cl.iter() {
        c1.push(CA::And(vec![x.clone(), y.clone()]));
        c1.push(CA::Or(vec![(1, x.clone()), (3, y.clone())]));
        c1.push(CA::Thresh(1, vec![x.clone(), y.clone()]));
        c1.push(CA::Thresh(2, vec![x.clone(), y.clone()]));
    } }
    for x in cl.iter() { c1.push(CA::Thresh(1, vec![x.clone()])); }
    for c in c1.iter() { cx.concrete_ops(c, false); }
    for x in cl.iter() { for y in cl.iter() { for z in cl.iter() { for k in 1..=3 {
        cx.concrete_ops(&CA::Thresh(k, vec![x.clone(), y.clone(), z.clone()]), false);
    } } } }
    // depth 2: binary combinators over depth-1 (sampled), n-ary or
    let pool: Vec<CA> = cl.iter().cloned().chain(c1.iter().cloned()).collect();
    for _ in 0..(if thorough { 100000 } else { 6000 }) {
        let x = rng.pick(&pool).clone();
        let y = rng.pick(&pool).clone();
        let c = match rng.below(6) {
            0 => CA::And(vec![x, y]),
            5 => CA::And(vec![x, y, rng.pick(&pool).clone()]),
            1 => CA::Or(vec![(rng.below(5), x), (rng.below(5), y)]),
            2 => CA::Or(vec![(1, x), (1, y), (2, rng.pick(&pool).clone())]),
            3 => CA::Thresh(2, vec![x, y, rng.pick(&pool).clone()]),
            _ => CA::Thresh(1 + rng.below(2), vec![x, y]),
        };
        cx.concrete_ops(&c, false);
    }
    for _ in 0..(if thorough { 30000 } else { 2000 }) {
        let c = rand_ca(&mut rng, 4, &c_leaves, true);
        cx.concrete_ops(&c, false);
    }

    // hash atoms of every kind in concrete policies (lift keeps the kind; timelock_info `_` arm)
    let ch: Vec<A> = vec![A::Hash(0, 0), A::Hash(1, 1), A::Hash(2, 2), A::Hash(3, 3), A::Hash(3, 2), A::Hash(2, 3),
        A::Key(0), A::Older(1), A::After(1)];
    let chl: Vec<CA> = ch.iter().cloned().map(CA::Leaf).collect();
    for l in chl.iter() { cx.concrete_ops(l, false); }
    for x in chl.iter() { for y in chl.iter() {
        cx.concrete_ops(&CA::And(vec![x.clone(), y.clone()]), false);
        cx.concrete_ops(&CA::Or(vec![(1, x.clone()), (2, y.clone())]), false);
        cx.concrete_ops(&CA::Thresh(1, vec![x.clone(), y.clone(), k1.clone()]), false);
    } }
    let c_leaves_h: Vec<A> = c_leaves.iter().cloned().chain(ch.iter().cloned()).collect();
    for _ in 0..(if thorough { 10000 } else { 800 }) {
        let c = rand_ca(&mut rng, 3, &c_leaves_h, true);
        cx.concrete_ops(&c, false);
    }
    // lock classification at the unit edges: after 499999999 | 500000000, the largest absolute
    // lock, older with the value bits full, with non-consensus bits, time flag + other bits
    let edge: Vec<A> = vec![
        A::After(499999999), A::After(500000000), A::After(2147483647), A::After(1),
        A::Older(65535), A::Older(65541), A::Older(4194304 + 65536 + 1), A::Older(1), A::Older(4194305),
        A::Key(0),
    ];
    let el: Vec<CA> = edge.iter().cloned().map(CA::Leaf).collect();
    for l in el.iter() { cx.concrete_ops(l, false); }
    for x in el.iter() { for y in el.iter() {
        cx.concrete_ops(&CA::And(vec![x.clone(), y.clone()]), false);
        cx.concrete_ops(&CA::Thresh(2, vec![x.clone(), y.clone(), k1.clone()]), false);
        cx.concrete_ops(&CA::Or(vec![(1, x.clone()), (1, y.clone())]), false);
    } }
    // repeated keys (check_duplicate_keys / is_valid), also next to a timelock mix
    for c in [
        CA::And(vec![k0.clone(), k0.clone()]),
        CA::Or(vec![(1, k0.clone()), (1, CA::And(vec![k1.clone(), k0.clone()]))]),
        CA::Thresh(2, vec![k0.clone(), k1.clone(), k2.clone()]),
        CA::And(vec![CA::And(vec![o1.clone(), ot.clone()]), CA::And(vec![k0.clone(), k0.clone()])]),
        CA::Thresh(1, vec![k2.clone(), CA::Thresh(2, vec![k1.clone(), k2.clone()])]),
    ] { cx.concrete_ops(&c, false); }

    // REFUSED TODAY by `Concrete::from_str`, one reason each: every pair of lock units under a
    // conjunction / a 2-of-3; the accepted neighbours (disjunction, different kinds)
    {
        let oh = CA::Leaf(A::Older(1)); let otm = CA::Leaf(A::Older(4194305));
        let ah = CA::Leaf(A::After(1)); let atm = CA::Leaf(A::After(500000001));
        let locks = [oh.clone(), otm.clone(), ah.clone(), atm.clone()];
        for x in locks.iter() { for y in locks.iter() {
            cx.cparse_ops(&CA::And(vec![x.clone(), y.clone()]));
            cx.cparse_ops(&CA::Or(vec![(1, x.clone()), (2, y.clone())]));
            cx.cparse_ops(&CA::Thresh(2, vec![x.clone(), y.clone(), k0.clone()]));
            cx.cparse_ops(&CA::And(vec![k0.clone(), CA::Or(vec![(1, x.clone()), (1, CA::And(vec![y.clone(), k1.clone()]))])]));
            cx.cparse_ops(&CA::And(vec![x.clone(), CA::Or(vec![(1, k0.clone()), (1, CA::And(vec![y.clone(), un_.clone()]))])]));
        } }
    }

    let (same, unp) = (cx.parse_same, cx.parse_unparseable);
    let n_abs = cx.seen.iter().filter(|s| !s.starts_with("c:")).count();
    let n_conc = cx.seen.len() - n_abs;
    drop(cx);
    out.note("domain", format!(
        "abstract: all thresholds (every k) with 1-3 children over 13 leaves (3 keys, 1 hash, after 1/144/5e8/5e8+1, older 1/144/4194305, TRIVIAL, UNSATISFIABLE), depth 2 over 8 leaves + 55 depth-1 children (1-2 children exhaustive, 3-4 sampled), random depth<=4 width<=5 and width<=25; ages/lock times at every boundary; entailment: all pairs over a closed set of {} policies + random + 19/20/21/25 terminals; concrete: depth 1 exhaustive over 8 leaves, depth 2 sampled, random depth<=4, designated non-binary and/or and UNSATISFIABLE witnesses; STATES: every analysis on raw enum-built / parsed values, designated towers (nested and/or, one-child towers, dead conjunctions under live or/thresh, kind changes after constant removal, constants at every child position) and on the outputs of normalized / sorted / at_age / at_lock_time (one further step); REFUSED TODAY: lock values and threshold k outside the constructors' ranges, 1-of-n / n-of-n spelled thresh(), every pair of lock units under and / 2-of-3 through Concrete::from_str",
        es.len()));
    out.note("distinct_nontrivial", format!("{}", n_abs + n_conc));
    out.note("abstract_policies", format!("{}", n_abs));
    out.note("concrete_policies", format!("{}", n_conc));
    out.note("text_route_same_value", format!("{}", same));
    out.note("not_expressible_as_text", format!("{}", unp));
    std::panic::set_hook(hook);
}

//! C11, PSBT channel: structurally valid PSBTs with RAW field contents that no updater writes,
//! offered to every PSBT entry point.  A fully signed PSBT (valid signatures over the real
//! digests, so that the deep stages - satisfaction, interpreter check - are reached) is built
//! for one descriptor of every output type; then ONE field of input 0 at a time is replaced by
//! each member of a raw alphabet (scripts of every short length, witness-program and template
//! look-alikes truncated / extended by one byte, foreign keys, control blocks and leaf versions,
//! preimages of wrong length, sighash types, transaction fields).  Only panics are judged here
//! (`J nopanic psbt-raw …`); what the finalizer does with such input is C14's business.
use std::str::FromStr;

use miniscript::bitcoin::hashes::Hash;
use miniscript::bitcoin::psbt::{Psbt, PsbtSighashType};
use miniscript::bitcoin::secp256k1::{Keypair, Message, Secp256k1};
use miniscript::bitcoin::sighash::SighashCache;
use miniscript::bitcoin::taproot::{ControlBlock, LeafVersion, TapLeafHash};
use miniscript::bitcoin::{absolute, ecdsa, taproot, transaction, Amount, OutPoint, ScriptBuf, Sequence, Transaction, TxIn, TxOut, Txid, Witness};
use miniscript::psbt::{PsbtExt, PsbtInputExt, PsbtSighashMsg};
use miniscript::{DefiniteDescriptorKey, Descriptor};

use crate::ast;
use crate::common::Out;

type D = Descriptor<DefiniteDescriptorKey>;

fn kx(i: u32) -> String { ast::full_key(i).to_string() }
fn xo(i: u32) -> String { ast::xonly_key(200 + i).to_string() }

fn descriptors() -> Vec<(&'static str, String)> {
    let h = miniscript::bitcoin::hashes::sha256::Hash::hash(&[7u8; 32]).to_string();
    vec![
        ("wpkh", format!("wpkh({})", kx(1))),
        ("pkh", format!("pkh({})", kx(1))),
        ("shwpkh", format!("sh(wpkh({}))", kx(1))),
        ("wsh", format!("wsh(multi(1,{},{}))", kx(1), kx(2))),
        ("sh", format!("sh(multi(1,{},{}))", kx(1), kx(2))),
        ("shwsh", format!("sh(wsh(and_v(v:pk({}),older(10))))", kx(1))),
        ("wsh-hash", format!("wsh(and_v(v:pk({}),sha256({})))", kx(1), h)),
        ("tr-key", format!("tr({})", xo(0))),
        ("tr", format!("tr({},{{pk({}),and_v(v:pk({}),older(10))}})", xo(0), xo(1), xo(2))),
        ("bare", format!("multi(1,{},{})", kx(1), kx(2))),
        ("pk", format!("pk({})", kx(1))),
    ]
}

struct Base { name: &'static str, desc: D, psbt: Psbt, prev: Transaction }

/// a two-input PSBT (input 0: `desc`, input 1: wpkh(K3)) updated from the descriptors and signed
fn build(name: &'static str, s: &str) -> Option<Base> {
    let secp = Secp256k1::new();
    let desc = D::from_str(s).ok()?;
    let other = D::from_str(&format!("wpkh({})", kx(3))).ok()?;
    let prev = Transaction {
        version: transaction::Version::TWO, lock_time: absolute::LockTime::ZERO, input: vec![],
        output: vec![TxOut { value: Amount::from_sat(50_000), script_pubkey: desc.script_pubkey() },
                     TxOut { value: Amount::from_sat(60_000), script_pubkey: other.script_pubkey() }],
    };
    let txid = prev.compute_txid();
    let tx = Transaction {
        version: transaction::Version::TWO, lock_time: absolute::LockTime::ZERO,
        input: (0..2u32).map(|v| TxIn { previous_output: OutPoint { txid, vout: v }, script_sig: ScriptBuf::new(), sequence: Sequence::from_consensus(10), witness: Witness::new() }).collect(),
        output: vec![TxOut { value: Amount::from_sat(100_000), script_pubkey: other.script_pubkey() }],
    };
    let mut p = Psbt::from_unsigned_tx(tx.clone()).ok()?;
    for (i, d) in [&desc, &other].into_iter().enumerate() {
        p.inputs[i].witness_utxo = Some(prev.output[i].clone());
        p.inputs[i].non_witness_utxo = Some(prev.clone());
        p.update_input_with_descriptor(i, d).ok()?;
    }
    p.inputs[0].sha256_preimages.insert(miniscript::bitcoin::hashes::sha256::Hash::hash(&[7u8; 32]), vec![7u8; 32]);
    // signatures by every key the harness owns
    let mut cache = SighashCache::new(&tx);
    for i in 0..2usize {
        let is_tr = p.inputs[i].tap_internal_key.is_some();
        if is_tr {
            if let Ok(PsbtSighashMsg::TapSighash(h)) = p.sighash_msg(i, &mut cache, None) {
                // key path: the internal key tweaked by the merkle root
                let kp = Keypair::from_secret_key(&secp, &ast::secret(200));
                let kp = miniscript::bitcoin::key::TapTweak::tap_tweak(kp, &secp, p.inputs[i].tap_merkle_root).to_keypair();
                let sig = secp.sign_schnorr_no_aux_rand(&Message::from_digest(h.to_byte_array()), &kp);
                p.inputs[i].tap_key_sig = Some(taproot::Signature { signature: sig, sighash_type: miniscript::bitcoin::sighash::TapSighashType::Default });
            }
            let leaves: Vec<(ScriptBuf, LeafVersion)> = p.inputs[i].tap_scripts.values().cloned().collect();
            for (script, ver) in leaves {
                let lh = TapLeafHash::from_script(&script, ver);
                if let Ok(PsbtSighashMsg::TapSighash(h)) = p.sighash_msg(i, &mut cache, Some(lh)) {
                    for k in 201..203u32 {
                        let kp = Keypair::from_secret_key(&secp, &ast::secret(k));
                        let sig = secp.sign_schnorr_no_aux_rand(&Message::from_digest(h.to_byte_array()), &kp);
                        p.inputs[i].tap_script_sigs.insert((kp.x_only_public_key().0, lh), taproot::Signature { signature: sig, sighash_type: miniscript::bitcoin::sighash::TapSighashType::Default });
                    }
                }
            }
        } else if let Ok(m) = p.sighash_msg(i, &mut cache, None) {
            for k in 1..4u32 {
                let sig = secp.sign_ecdsa(&m.to_secp_msg(), &ast::secret(k));
                p.inputs[i].partial_sigs.insert(ast::full_key(k), ecdsa::Signature { signature: sig, sighash_type: miniscript::bitcoin::sighash::EcdsaSighashType::All });
            }
        }
    }
    Some(Base { name, desc, psbt: p, prev })
}

fn raw_scripts(right: Option<&ScriptBuf>) -> Vec<(String, ScriptBuf)> {
    let mut v: Vec<(String, Vec<u8>)> = vec![
        ("empty".into(), vec![]), ("00".into(), vec![0x00]), ("51".into(), vec![0x51]), ("6a".into(), vec![0x6a]), ("ac".into(), vec![0xac]),
        ("0014".into(), vec![0x00, 0x14]), ("0020".into(), vec![0x00, 0x20]), ("5120".into(), vec![0x51, 0x20]),
        ("trunc-push".into(), vec![0x4c]), ("huge-pushdata4".into(), vec![0x4e, 0xff, 0xff, 0xff, 0xff]), ("push-past-end".into(), vec![0x21, 0x02, 0x03]),
    ];
    for (n, head, body) in [("wpkh-like", vec![0x00u8, 0x14], 20usize), ("wsh-like", vec![0x00, 0x20], 32), ("tr-like", vec![0x51, 0x20], 32), ("v2-like", vec![0x52, 0x20], 32)] {
        for d in [-1i32, 0, 1] {
            let mut b = head.clone(); b.extend(std::iter::repeat(0x11u8).take((body as i32 + d) as usize));
            v.push((format!("{}{:+}", n, d), b));
        }
    }
    let mut p2sh = vec![0xa9, 0x14]; p2sh.extend([0x22u8; 20]); p2sh.push(0x87); v.push(("p2sh-like".into(), p2sh));
    let mut p2pkh = vec![0x76, 0xa9, 0x14]; p2pkh.extend([0x22u8; 20]); p2pkh.extend([0x88, 0xac]); v.push(("p2pkh-like".into(), p2pkh));
    let mut badpk = vec![0x21]; badpk.extend([0xffu8; 33]); badpk.push(0xac); v.push(("p2pk-invalid-key".into(), badpk));
    let mut pk65 = vec![0x41]; pk65.extend(ast::full_key(101).to_bytes()); pk65.push(0xac); v.push(("p2pk-uncompressed".into(), pk65));
    if let Some(r) = right {
        let b = r.to_bytes();
        if !b.is_empty() { v.push(("right-minus-last".into(), b[..b.len() - 1].to_vec())); v.push(("right-minus-first".into(), b[1..].to_vec())); }
        let mut e = b.clone(); e.push(0x51); v.push(("right-plus-51".into(), e));
        let mut e = vec![0x00]; e.extend(&b); v.push(("00-plus-right".into(), e));
    }
    v.into_iter().map(|(n, b)| (n, ScriptBuf::from_bytes(b))).collect()
}

pub fn run(out: &mut Out, thorough: bool, last_panic: &std::sync::Mutex<String>) {
    let secp = Secp256k1::new();
    let bases: Vec<Base> = descriptors().into_iter().filter_map(|(n, s)| { let b = build(n, &s); if b.is_none() { out.count("psbt-raw: base not built"); } b }).collect();
    out.note("psbt_raw_bases", bases.len().to_string());
    let all_descs: Vec<D> = bases.iter().map(|b| b.desc.clone()).collect();
    let mut n_calls = 0u64;
    for b in &bases {
        // sanity of the stream itself: the unmodified PSBT finalizes (counted, not judged)
        { let mut p = b.psbt.clone(); out.count(&format!("psbt-raw base {} {}", b.name, if p.finalize_mut(&secp).is_ok() { "finalizes" } else { "does-not-finalize" })); }
        let mut variants: Vec<(String, Psbt)> = vec![("unmodified".into(), b.psbt.clone())];
        let mut add = |name: String, f: &dyn Fn(&mut Psbt)| { let mut p = b.psbt.clone(); f(&mut p); variants.push((name, p)); };
        let i0 = &b.psbt.inputs[0];
        // scripts
        for (n, s) in raw_scripts(i0.witness_script.as_ref()) { let s2 = s.clone(); add(format!("witness_script={}", n), &move |p| p.inputs[0].witness_script = Some(s2.clone())); }
        for (n, s) in raw_scripts(i0.redeem_script.as_ref()) { let s2 = s.clone(); add(format!("redeem_script={}", n), &move |p| p.inputs[0].redeem_script = Some(s2.clone())); }
        add("witness_script=None".into(), &|p| p.inputs[0].witness_script = None);
        add("redeem_script=None".into(), &|p| p.inputs[0].redeem_script = None);
        for (n, s) in raw_scripts(Some(&b.prev.output[0].script_pubkey)) {
            let s2 = s.clone();
            add(format!("witness_utxo.spk={}", n), &move |p| { p.inputs[0].witness_utxo = Some(TxOut { value: Amount::from_sat(50_000), script_pubkey: s2.clone() }); p.inputs[0].non_witness_utxo = None; });
            if thorough || n.len() < 6 {
                let (s3, prev) = (s.clone(), b.prev.clone());
                add(format!("non_witness_utxo.spk={}", n), &move |p| {
                    let mut t = prev.clone(); t.output[0].script_pubkey = s3.clone();
                    p.unsigned_tx.input[0].previous_output.txid = t.compute_txid();
                    p.inputs[0].non_witness_utxo = Some(t); p.inputs[0].witness_utxo = None;
                });
            }
        }
        add("utxo=None".into(), &|p| { p.inputs[0].witness_utxo = None; p.inputs[0].non_witness_utxo = None; });
        add("witness_utxo-only".into(), &|p| p.inputs[0].non_witness_utxo = None);
        add("non_witness_utxo-only".into(), &|p| p.inputs[0].witness_utxo = None);
        add("non_witness_utxo-wrong-txid".into(), &|p| { p.unsigned_tx.input[0].previous_output.txid = Txid::all_zeros(); });
        add("vout=max".into(), &|p| { p.unsigned_tx.input[0].previous_output.vout = u32::MAX; p.inputs[0].witness_utxo = None; });
        add("vout=2".into(), &|p| { p.unsigned_tx.input[0].previous_output.vout = 2; p.inputs[0].witness_utxo = None; });
        add("amount=0".into(), &|p| { if let Some(u) = p.inputs[0].witness_utxo.as_mut() { u.value = Amount::ZERO; } });
        add("amount=max".into(), &|p| { if let Some(u) = p.inputs[0].witness_utxo.as_mut() { u.value = Amount::MAX; } });
        // sighash types
        for t in [0u32, 1, 2, 3, 0x80, 0x81, 0x82, 0x83, 0x55, 0xff, 0x100, u32::MAX] { add(format!("sighash_type={:#x}", t), &move |p| p.inputs[0].sighash_type = Some(PsbtSighashType::from_u32(t))); }
        // signatures
        add("partial_sigs=empty".into(), &|p| p.inputs[0].partial_sigs.clear());
        add("partial_sigs+foreign-key".into(), &|p| { if let Some(s) = p.inputs[0].partial_sigs.values().next().cloned() { p.inputs[0].partial_sigs.insert(ast::full_key(9), s); p.inputs[0].partial_sigs.insert(ast::full_key(101), s); } });
        for t in [miniscript::bitcoin::sighash::EcdsaSighashType::None, miniscript::bitcoin::sighash::EcdsaSighashType::SinglePlusAnyoneCanPay] {
            add(format!("partial_sigs.sighash={:?}", t), &move |p| for s in p.inputs[0].partial_sigs.values_mut() { s.sighash_type = t; });
        }
        add("partial_sigs-swapped".into(), &|p| { let ks: Vec<_> = p.inputs[0].partial_sigs.keys().cloned().collect(); if ks.len() >= 2 { let a = p.inputs[0].partial_sigs[&ks[0]]; let c = p.inputs[0].partial_sigs[&ks[1]]; p.inputs[0].partial_sigs.insert(ks[0], c); p.inputs[0].partial_sigs.insert(ks[1], a); } });
        // taproot fields
        add("tap_internal_key=None".into(), &|p| p.inputs[0].tap_internal_key = None);
        add("tap_internal_key=foreign".into(), &|p| p.inputs[0].tap_internal_key = Some(ast::xonly_key(209)));
        add("tap_internal_key-on-non-taproot".into(), &|p| { p.inputs[0].tap_internal_key = Some(ast::xonly_key(200)); p.inputs[1].tap_internal_key = Some(ast::xonly_key(200)); });
        add("tap_merkle_root=None".into(), &|p| p.inputs[0].tap_merkle_root = None);
        add("tap_merkle_root=junk".into(), &|p| p.inputs[0].tap_merkle_root = Some(miniscript::bitcoin::taproot::TapNodeHash::from_byte_array([0x33; 32])));
        add("tap_key_sig=None".into(), &|p| p.inputs[0].tap_key_sig = None);
        for t in [miniscript::bitcoin::sighash::TapSighashType::All, miniscript::bitcoin::sighash::TapSighashType::None, miniscript::bitcoin::sighash::TapSighashType::SinglePlusAnyoneCanPay] {
            add(format!("tap_sigs.sighash={:?}", t), &move |p| { if let Some(s) = p.inputs[0].tap_key_sig.as_mut() { s.sighash_type = t; } for s in p.inputs[0].tap_script_sigs.values_mut() { s.sighash_type = t; } });
        }
        add("tap_script_sigs=empty".into(), &|p| p.inputs[0].tap_script_sigs.clear());
        add("tap_script_sigs-foreign-leaf".into(), &|p| { let v: Vec<_> = p.inputs[0].tap_script_sigs.iter().map(|(k, s)| (k.0, *s)).collect(); p.inputs[0].tap_script_sigs.clear(); for (k, s) in v { p.inputs[0].tap_script_sigs.insert((k, TapLeafHash::from_byte_array([0x44; 32])), s); } });
        add("tap_scripts=empty".into(), &|p| p.inputs[0].tap_scripts.clear());
        add("tap_key_origins=empty".into(), &|p| p.inputs[0].tap_key_origins.clear());
        add("bip32_derivation=empty".into(), &|p| p.inputs[0].bip32_derivation.clear());
        {
            let cbs: Vec<(ControlBlock, (ScriptBuf, LeafVersion))> = i0.tap_scripts.iter().map(|(a, c)| (a.clone(), c.clone())).collect();
            if let Some((cb0, (sc0, _))) = cbs.first().cloned() {
                for (n, s) in raw_scripts(Some(&sc0)) {
                    let (cb, s2) = (cb0.clone(), s.clone());
                    add(format!("tap_scripts.script={}", n), &move |p| { p.inputs[0].tap_scripts.insert(cb.clone(), (s2.clone(), LeafVersion::TapScript)); });
                }
                let cb = cb0.clone(); let sc = sc0.clone();
                add("tap_scripts.leaf_version=0xc2".into(), &move |p| { if let Ok(v) = LeafVersion::from_consensus(0xc2) { p.inputs[0].tap_scripts.insert(cb.clone(), (sc.clone(), v)); } });
                let (cb, sc) = (cb0.clone(), sc0.clone());
                add("tap_scripts.control-block-empty-path".into(), &move |p| { let mut c = cb.clone(); c.merkle_branch = Default::default(); p.inputs[0].tap_scripts.clear(); p.inputs[0].tap_scripts.insert(c, (sc.clone(), LeafVersion::TapScript)); });
                let (cb, sc) = (cb0.clone(), sc0.clone());
                add("tap_scripts.control-block-foreign-key".into(), &move |p| { let mut c = cb.clone(); c.internal_key = ast::xonly_key(209); p.inputs[0].tap_scripts.clear(); p.inputs[0].tap_scripts.insert(c, (sc.clone(), LeafVersion::TapScript)); });
            }
            // tap_scripts on an input that is not taproot
            if cbs.is_empty() {
                if let Some(t) = bases.iter().find(|x| x.name == "tr") {
                    let ts = t.psbt.inputs[0].tap_scripts.clone();
                    add("tap_scripts-on-non-taproot".into(), &move |p| p.inputs[0].tap_scripts = ts.clone());
                }
            }
        }
        // preimages of the wrong length
        for len in [0usize, 1, 31, 33, 64] {
            add(format!("preimages.len={}", len), &move |p| {
                for v in p.inputs[0].sha256_preimages.values_mut() { *v = vec![7u8; len]; }
                p.inputs[0].hash160_preimages.insert(miniscript::bitcoin::hashes::hash160::Hash::all_zeros(), vec![7u8; len]);
                p.inputs[0].ripemd160_preimages.insert(miniscript::bitcoin::hashes::ripemd160::Hash::all_zeros(), vec![7u8; len]);
                p.inputs[0].hash256_preimages.insert(miniscript::bitcoin::hashes::sha256d::Hash::all_zeros(), vec![7u8; len]);
            });
        }
        // final fields / transaction fields / lengths
        add("final_script_sig=trunc-push".into(), &|p| p.inputs[0].final_script_sig = Some(ScriptBuf::from_bytes(vec![0x4c])));
        add("final_script_witness=junk".into(), &|p| p.inputs[0].final_script_witness = Some(Witness::from_slice(&[vec![], vec![0x50], vec![0xff; 600]])));
        add("final-both-empty".into(), &|p| { p.inputs[0].final_script_sig = Some(ScriptBuf::new()); p.inputs[0].final_script_witness = Some(Witness::new()); });
        for v in [0i32, 1, 3, -1] { add(format!("tx.version={}", v), &move |p| p.unsigned_tx.version = transaction::Version(v)); }
        for l in [1u32, 499_999_999, 500_000_000, u32::MAX] { add(format!("tx.lock_time={}", l), &move |p| p.unsigned_tx.lock_time = absolute::LockTime::from_consensus(l)); }
        for s in [0u32, 9, 10, 0x0040_000a, 0x8000_000a, 0xffff_fffe, u32::MAX] { add(format!("tx.sequence={:#x}", s), &move |p| p.unsigned_tx.input[0].sequence = Sequence::from_consensus(s)); }
        add("tx.outputs=empty".into(), &|p| { p.unsigned_tx.output.clear(); p.outputs.clear(); });
        add("psbt.inputs-short".into(), &|p| { p.inputs.pop(); });
        add("tx.inputs-short".into(), &|p| { p.unsigned_tx.input.pop(); });
        add("no-inputs".into(), &|p| { p.unsigned_tx.input.clear(); p.inputs.clear(); });
        add("inputs-swapped".into(), &|p| p.inputs.swap(0, 1));
        drop(add);
        for (vname, v) in &variants {
            let lh = v.inputs.first().and_then(|i| i.tap_scripts.values().next().map(|(s, ver)| TapLeafHash::from_script(s, *ver)));
            let mut calls: Vec<(String, Box<dyn Fn(&mut Psbt)>)> = vec![
                ("finalize_mut".into(), Box::new(|p: &mut Psbt| { let _ = p.finalize_mut(&Secp256k1::verification_only()); })),
                ("finalize_mall_mut".into(), Box::new(|p: &mut Psbt| { let _ = p.finalize_mall_mut(&Secp256k1::verification_only()); })),
                ("finalize_inp_mut".into(), Box::new(|p: &mut Psbt| { let s = Secp256k1::verification_only(); let _ = p.finalize_inp_mut(&s, 0); let _ = p.finalize_inp_mut(&s, 1); let _ = p.finalize_inp_mut(&s, 9); })),
                ("finalize_inp_mall_mut".into(), Box::new(|p: &mut Psbt| { let s = Secp256k1::verification_only(); let _ = p.finalize_inp_mall_mut(&s, 0); let _ = p.finalize_inp_mall_mut(&s, 1); })),
                ("finalize-by-value".into(), Box::new(|p: &mut Psbt| { let s = Secp256k1::verification_only(); let _ = p.clone().finalize(&s); let _ = p.clone().finalize_mall(&s); let _ = p.clone().finalize_inp(&s, 0); let _ = p.clone().finalize_inp_mall(&s, 0); })),
                ("extract".into(), Box::new(|p: &mut Psbt| { let _ = p.extract(&Secp256k1::verification_only()); })),
                ("finalize-then-extract".into(), Box::new(|p: &mut Psbt| { let s = Secp256k1::verification_only(); let _ = p.finalize_mut(&s); let _ = p.extract(&s); })),
                ("interpreter_check".into(), Box::new(|p: &mut Psbt| { let _ = miniscript::psbt::interpreter_check(p, &Secp256k1::verification_only()); })),
                ("sighash_msg".into(), Box::new(move |p: &mut Psbt| {
                    let tx = p.unsigned_tx.clone(); let mut c = SighashCache::new(&tx);
                    for i in 0..3 { let _ = p.sighash_msg(i, &mut c, None); let _ = p.sighash_msg(i, &mut c, lh); let _ = p.sighash_msg(i, &mut c, Some(TapLeafHash::from_byte_array([0x44; 32]))); }
                })),
            ];
            #[allow(deprecated)]
            { calls.push(("deprecated-finalize".into(), Box::new(|p: &mut Psbt| { let _ = miniscript::psbt::finalize(p, &Secp256k1::verification_only()); }))); }
            let ds = all_descs.clone();
            calls.push(("update_input_with_descriptor".into(), Box::new(move |p: &mut Psbt| { for d in &ds { for i in 0..3 { let mut q = p.clone(); let _ = q.update_input_with_descriptor(i, d); } } })));
            let ds = all_descs.clone();
            calls.push(("update_output_with_descriptor".into(), Box::new(move |p: &mut Psbt| { for d in &ds { for i in 0..2 { let mut q = p.clone(); let _ = q.update_output_with_descriptor(i, d); } } })));
            let ds = all_descs.clone();
            calls.push(("update_with_descriptor_unchecked".into(), Box::new(move |p: &mut Psbt| { for d in &ds { if let Some(inp) = p.inputs.first() { let mut q = inp.clone(); let _ = q.update_with_descriptor_unchecked(d); } } })));
            for (cname, f) in calls {
                let mut p = v.clone();
                let r = std::panic::catch_unwind(std::panic::AssertUnwindSafe(|| f(&mut p)));
                n_calls += 1;
                if r.is_err() {
                    let at = last_panic.lock().map(|s| s.clone()).unwrap_or_default();
                    out.line(&format!("J nopanic psbt-raw {} {} {} at={} PANIC", b.name, vname, cname, at), "ok");
                } else { out.count(&format!("psbt-raw ok {}", cname)); }
            }
        }
        out.count(&format!("psbt-raw variants {}: {}", b.name, variants.len()));
    }
    out.note("psbt_raw_calls", n_calls.to_string());
}

//! C19, objects that are not miniscripts (module of c19.rs): `TapTree` and `Tr` built through
//! the constructors, `policy::Concrete` / `policy::Semantic` built through the public enums
//! (n-ary and / or of arity 1..3, one-child thresholds, or-weights differing only in the weight,
//! near-twin locks), `Descriptor<bitcoin::PublicKey>` and `Descriptor<DescriptorPublicKey>` with
//! real keys.  Every object carries a TOKEN made by the harness from its own description (tree
//! shape + leaf numbers, weighted policy wire form, canonical descriptor string); the judge
//! (`J eqstruct` / `J ordlaws` / `J cloneeq`) takes token identity as structural identity.
//! `C pcmp` compares `Ord for Policy` with the Lean model (`Model/PolicyOrd.lean`).
use std::str::FromStr;
use std::sync::Arc;

use miniscript::descriptor::{DescriptorPublicKey, TapTree, Tr};
use miniscript::policy::{Concrete, Semantic};
use miniscript::{Descriptor, Tap};

use super::*;
use crate::c20::c20p::{to_concrete, to_semantic, P};

/// objects with tokens: every item vs itself, vs its `near` successors in the list and vs
/// `n_rand` random others (all pairs if the list is short), clone, random triples
fn emit_tok_family<T: Eq + Ord + ToString + Clone>(e: &mut Emit, fam: &str, items: &[(String, T)], rng: &mut Rng,
    near: usize, n_rand: usize, n_triples: usize, hs: &dyn Fn(&T, &T) -> bool) {
    if items.is_empty() { return; }
    let all = items.len() <= 110;
    for (i, (sa, a)) in items.iter().enumerate() {
        let mut js: Vec<usize> = if all { (0..items.len()).collect() } else {
            let mut v: Vec<usize> = (i..(i + near + 1).min(items.len())).collect();
            for _ in 0..n_rand { v.push(rng.below(items.len())); }
            v
        };
        js.dedup();
        for j in js {
            let (sb, b) = &items[j];
            let (x, y, sx, sy) = if !all && rng.coin() { (b, a, sb, sa) } else { (a, b, sa, sb) };
            let o = observe_with(x, y, hs);
            e.out.count(&format!("tokpair {}", fam));
            e.out.line(&format!("J eqstruct {} {} {} {} {} {} {} {}", fam, sx, sy, o.eq, o.cmp, o.hash, o.disp, o.pc), "ok");
        }
        let ceq = guarded(|| { let y = a.clone(); if &y == a && y.to_string() == a.to_string() { "1" } else { "0" } }).unwrap_or("PANIC");
        // the clone is given by the token of the original iff it is `==` and prints identically
        e.out.line(&format!("J cloneeq {} {} {} {}", fam, sa, if ceq == "1" { sa.as_str() } else { "DIFFERENT" }, ceq), "ok");
    }
    let c = |a: &T, b: &T| guarded(|| ord_str(a.cmp(b))).unwrap_or("PANIC").to_string();
    for _ in 0..n_triples {
        let (sa, a) = rng.pick(items); let (sb, b) = rng.pick(items); let (sc, cc) = rng.pick(items);
        e.out.line(&format!("J ordlaws {} {} {} {} {} {} {} {}", fam, sa, sb, sc, c(a, b), c(b, cc), c(a, cc), c(b, a)), "ok");
    }
}

/* ------------------------------------------------------------ tap trees */

#[derive(Clone, Debug)]
enum Sh { L(usize), N(Box<Sh>, Box<Sh>) }
impl Sh {
    fn tok(&self) -> String { match self { Sh::L(i) => i.to_string(), Sh::N(a, b) => format!("{{{},{}}}", a.tok(), b.tok()) } }
}
/// all shapes with `n` leaves, leaves numbered by `assign` in order
fn shapes(n: usize) -> Vec<Sh> {
    if n == 1 { return vec![Sh::L(0)]; }
    let mut v = vec![];
    for l in 1..n { for a in shapes(l) { for b in shapes(n - l) { v.push(Sh::N(Box::new(a.clone()), Box::new(b))); } } }
    v
}
fn relabel(s: &Sh, labels: &[usize], next: &mut usize) -> Sh {
    match s {
        Sh::L(_) => { let i = labels[*next]; *next += 1; Sh::L(i) }
        Sh::N(a, b) => { let x = relabel(a, labels, next); let y = relabel(b, labels, next); Sh::N(Box::new(x), Box::new(y)) }
    }
}
fn leaf_ms(i: usize) -> Option<Arc<Miniscript<String, Tap>>> {
    use Node::*;
    let n = match i {
        0 => pk(200),
        1 => pk(201),
        _ => AndV(Box::new(Verify(Box::new(pk(200)))), Box::new(pk(201))),
    };
    build::<Tap>(&n, true).map(Arc::new)
}
fn build_tree(s: &Sh) -> Option<TapTree<String>> {
    match s {
        Sh::L(i) => Some(TapTree::leaf(leaf_ms(*i)?)),
        Sh::N(a, b) => TapTree::combine(build_tree(a)?, build_tree(b)?).ok(),
    }
}
fn tree_items(thorough: bool) -> Vec<Sh> {
    let mut v = vec![];
    for n in 1..=3usize {
        for s in shapes(n) {
            // every assignment of the three leaves (duplicates included)
            let total = 3usize.pow(n as u32);
            for code in 0..total {
                let labels: Vec<usize> = (0..n).map(|p| (code / 3usize.pow(p as u32)) % 3).collect();
                v.push(relabel(&s, &labels, &mut 0));
            }
        }
    }
    let four: &[[usize; 4]] = if thorough { &[[0, 1, 2, 0], [0, 0, 0, 0], [2, 1, 0, 1], [1, 1, 2, 2], [0, 1, 0, 1], [2, 2, 2, 1]] } else { &[[0, 1, 2, 0], [0, 0, 0, 0], [2, 1, 0, 1]] };
    for s in shapes(4) { for l in four { v.push(relabel(&s, l, &mut 0)); } }
    v
}

/* ------------------------------------------------------------ policies through the enums */

fn pol_items() -> Vec<P> {
    let leaves = vec![P::Key(0), P::Key(1), P::Older(5), P::Older(65541), P::Older(4194309), P::After(9), P::After(1000000000),
        P::Hash(HK::Sha256, 1), P::Hash(HK::Hash256, 1), P::Hash(HK::Sha256, 2), P::Hash(HK::Hash256, 2),
        P::Hash(HK::Ripemd160, 1), P::Hash(HK::Ripemd160, 2), P::Hash(HK::Hash160, 1), P::Hash(HK::Hash160, 2), P::U, P::T];
    let a = [P::Key(0), P::Key(1), P::Older(5), P::Older(65541)];
    let mut v = leaves.clone();
    for x in &leaves {
        v.push(P::And(vec![x.clone()]));
        v.push(P::Or(vec![(1, x.clone())]));
        v.push(P::Or(vec![(2, x.clone())]));
        v.push(P::Thresh(1, vec![x.clone()]));
    }
    for x in &a { for y in &a {
        v.push(P::And(vec![x.clone(), y.clone()]));
        v.push(P::Or(vec![(1, x.clone()), (1, y.clone())]));
        v.push(P::Or(vec![(1, x.clone()), (2, y.clone())]));
        v.push(P::Or(vec![(2, x.clone()), (1, y.clone())]));
        v.push(P::Thresh(1, vec![x.clone(), y.clone()]));
        v.push(P::Thresh(2, vec![x.clone(), y.clone()]));
        for z in &a[..3] {
            v.push(P::And(vec![x.clone(), y.clone(), z.clone()]));
            v.push(P::Or(vec![(1, x.clone()), (2, y.clone()), (3, z.clone())]));
            v.push(P::Thresh(2, vec![x.clone(), y.clone(), z.clone()]));
        }
    } }
    // or-weights: zero, proportional (1:2 vs 2:4), the largest usize
    for (w1, w2) in [(0usize, 1usize), (1, 0), (0, 0), (2, 4), (4, 2), (usize::MAX, 1), (1, usize::MAX), (usize::MAX, usize::MAX)] {
        v.push(P::Or(vec![(w1, P::Key(0)), (w2, P::Key(1))]));
    }
    // hashes under connectives (every kind, two values)
    for kind in [HK::Sha256, HK::Hash256, HK::Ripemd160, HK::Hash160] { for h in [1, 2] {
        v.push(P::And(vec![P::Key(0), P::Hash(kind, h)]));
        v.push(P::Thresh(1, vec![P::Hash(kind, h), P::Key(0)]));
    } }
    // nesting: the same children under different connectives, and nested near-twins
    let n1 = P::And(vec![P::Key(0), P::Older(5)]);
    let n2 = P::And(vec![P::Key(0), P::Older(65541)]);
    for inner in [n1, n2] {
        v.push(P::Or(vec![(1, inner.clone()), (1, P::Key(1))]));
        v.push(P::Or(vec![(1, P::Key(1)), (1, inner.clone())]));
        v.push(P::Thresh(1, vec![inner.clone(), P::Key(1)]));
        v.push(P::And(vec![inner.clone(), P::Key(1)]));
        v.push(P::And(vec![P::And(vec![inner.clone()])]));
    }
    v
}

fn random_p(rng: &mut Rng, depth: usize, semantic: bool) -> P {
    let ls = [P::Key(0), P::Key(1), P::Older(5), P::Older(65541), P::After(9), P::Hash(HK::Sha256, 1), P::U, P::T];
    if depth == 0 || rng.below(4) == 0 { return rng.pick(&ls).clone(); }
    let n = 1 + rng.below(3);
    let kids: Vec<P> = (0..n).map(|_| random_p(rng, depth - 1, semantic)).collect();
    match if semantic { 2 } else { rng.below(3) } {
        0 => P::And(kids),
        1 => P::Or(kids.into_iter().map(|x| (1 + rng.below(2), x)).collect()),
        _ => P::Thresh(1 + rng.below(n), kids),
    }
}

fn emit_pcmp<T: Ord>(e: &mut Emit, fam: &str, items: &[(String, T)], rng: &mut Rng, n: usize) {
    for _ in 0..n {
        let i = rng.below(items.len());
        let j = if rng.coin() { (i + 1 + rng.below(3)).min(items.len() - 1) } else { rng.below(items.len()) };
        let (sa, a) = &items[i]; let (sb, b) = &items[j];
        let ans = guarded(|| ord_str(a.cmp(b))).unwrap_or("PANIC");
        e.out.line(&format!("C pcmp {} {} {}", fam, sa, sb), ans);
    }
}

/* ------------------------------------------------------------ descriptors with real keys */

fn real_desc_strings() -> Vec<String> {
    let c = |i: u32| ast::full_key(i).to_string();
    let u = |i: u32| ast::full_key(100 + i).to_string();
    let mut v = vec![];
    for k in [c(0), c(1), u(0), u(1)] {
        v.push(format!("pkh({})", k)); v.push(format!("pk({})", k)); v.push(format!("sh(pk({}))", k));
        v.push(format!("sh(multi(1,{},{}))", k, c(2))); v.push(format!("sh(multi(1,{},{}))", c(2), k));
        v.push(format!("sh(sortedmulti(1,{},{}))", k, c(2)));
    }
    for k in [c(0), c(1)] {
        v.push(format!("wpkh({})", k)); v.push(format!("sh(wpkh({}))", k)); v.push(format!("wsh(pk({}))", k));
        v.push(format!("sh(wsh(pk({})))", k)); v.push(format!("tr({})", k));
        v.push(format!("tr({},pk({}))", c(2), k));
        v.push(format!("tr({},{{pk({}),pk({})}})", c(2), k, c(2)));
        v.push(format!("tr({},{{pk({}),pk({})}})", c(2), c(2), k));
        v.push(format!("wsh(multi(1,{},{}))", k, c(2))); v.push(format!("wsh(multi(2,{},{}))", k, c(2)));
        v.push(format!("wsh(sortedmulti(1,{},{}))", k, c(2))); v.push(format!("wsh(sortedmulti(1,{},{}))", c(2), k));
    }
    v
}

fn dpk_desc_strings() -> Vec<String> {
    let x1 = "xpub6ERApfZwUNrhLCkDtcHTcxd75RbzS1ed54G1LkBUHQVHQKqhMkhgbmJbZRkrgZw4koxb5JaHWkY4ALHY2grBGRjaDMzQLcgJvLJuZZvRcEL";
    let x2 = "xpub661MyMwAqRbcFtXgS5sYJABqqG9YLmC4Q1Rdap9gSE8NqtwybGhePY2gZ29ESFjqJoCu1Rupje8YtGqsefD265TMg7usUDFdp6W1EGMcet8";
    let single = ast::full_key(0).to_string();
    let mut keys: Vec<String> = vec![];
    for x in [x1, x2] {
        for path in ["", "/0", "/1", "/0/*", "/1/*", "/0/1", "/0/*h", "/<0;1>/*", "/<0;1>", "/<1;0>/*"] {
            keys.push(format!("{}{}", x, path));
        }
        keys.push(format!("[78412e3a/44h/0h/0h]{}/0/*", x));
        keys.push(format!("[78412e3a/44h/0h/1h]{}/0/*", x));
        keys.push(format!("[12345678/44h/0h/0h]{}/0/*", x));
        keys.push(format!("[78412e3a]{}/0/*", x));
    }
    keys.push(single.clone());
    keys.push(format!("[78412e3a/0]{}", single));
    keys.push(format!("[78412e3a/1]{}", single));
    let mut v = vec![];
    for k in &keys { v.push(format!("wpkh({})", k)); }
    for k in keys.iter().take(6) { v.push(format!("pkh({})", k)); v.push(format!("wsh(pk({}))", k)); v.push(format!("tr({})", k)); }
    v.push(format!("wsh(multi(1,{},{}))", keys[3], keys[4]));
    v.push(format!("wsh(multi(1,{},{}))", keys[4], keys[3]));
    v.push(format!("wsh(sortedmulti(1,{},{}))", keys[3], keys[4]));
    v.push(format!("tr({},pk({}))", keys[3], keys[4]));
    v.push(format!("tr({},pk({}))", keys[4], keys[3]));
    // one point as x-only key, as 02-key and as 03-key (the negated point): three different keys
    let full = ast::full_key(0).to_string();
    let x = full[2..].to_string();
    let flipped = format!("{}{}", if full.starts_with("02") { "03" } else { "02" }, x);
    for k in [x.clone(), full.clone(), flipped.clone()] {
        v.push(format!("tr({})", k));
        v.push(format!("tr({},pk({}))", full, k));
        v.push(format!("tr({},pk({}))", k, x));
    }
    // an uncompressed single key (legal under pkh / sh)
    let unc = ast::full_key(100).to_string();
    v.push(format!("pkh({})", unc)); v.push(format!("sh(pk({}))", unc)); v.push(format!("pkh({})", flipped));
    v.push(format!("pkh([78412e3a/0]{})", unc));
    v
}

/// definite keys only (no wildcard, no multipath)
fn definite_desc_strings() -> Vec<String> {
    dpk_desc_strings().into_iter().filter(|s| !s.contains('*') && !s.contains('<')).collect()
}

/// two spellings of ONE object (hardened marker `h` / `'`, with / without checksum): the judge
/// is told they are identical (same token) and must see `==`, Equal, same hash, same string
fn alias_pairs() -> Vec<(String, String)> {
    let x1 = "xpub6ERApfZwUNrhLCkDtcHTcxd75RbzS1ed54G1LkBUHQVHQKqhMkhgbmJbZRkrgZw4koxb5JaHWkY4ALHY2grBGRjaDMzQLcgJvLJuZZvRcEL";
    vec![
        (format!("wpkh([78412e3a/44h/0h/0h]{}/0/*)", x1), format!("wpkh([78412e3a/44'/0'/0']{}/0/*)", x1)),
        (format!("wpkh({}/0/*h)", x1), format!("wpkh({}/0/*')", x1)),
        (format!("wsh(pk([78412e3a/1h]{}/<0;1>/*))", x1), format!("wsh(pk([78412e3a/1']{}/<0;1>/*))", x1)),
        (format!("tr({}/1h/2)", x1), format!("tr({}/1'/2)", x1)),
        (format!("pkh([78412E3A/0h]{})", ast::full_key(0)), format!("pkh([78412e3a/0']{})", ast::full_key(0))),
    ]
}

/* ------------------------------------------------------------ routes and used objects */

/// two spellings of one miniscript (sugar): must parse to identical objects
fn sugar_pairs() -> Vec<(&'static str, &'static str)> {
    vec![("pk(K00001)", "c:pk_k(K00001)"), ("pkh(K00001)", "c:pk_h(K00001)"),
         ("tv:pk(K00001)", "and_v(v:pk(K00001),1)"), ("l:pk(K00001)", "or_i(0,pk(K00001))"), ("u:pk(K00001)", "or_i(pk(K00001),0)"),
         ("and_n(pk(K00001),pk(K00002))", "andor(pk(K00001),pk(K00002),0)"),
         ("tvc:pk_k(K00001)", "and_v(vc:pk_k(K00001),1)"), ("lu:pk(K00001)", "or_i(0,or_i(pk(K00001),0))"),
         ("thresh(1,pk(K00001),s:pk(K00002))", "thresh(1,c:pk_k(K00001),sc:pk_k(K00002))")]
}
fn sugar_obs<Ctx: ScriptContext>(s1: &str, s2: &str) -> Option<(String, String, Obs)> {
    let a = guarded(|| SMs::<Ctx>::from_str_insane(s1))?.ok()?;
    let b = guarded(|| SMs::<Ctx>::from_str_insane(s2))?.ok()?;
    Some((unbuild::<Ctx>(&a).wire(), unbuild::<Ctx>(&b).wire(), if s1.len() % 2 == 0 { observe(&a, &b) } else { observe(&b, &a) }))
}

/// `Tr<Pk>` objects in three states (fresh, USED = spend info computed, clone of a used one) over
/// trees that share derived data (output key, leaf scripts) without sharing structure: mirrored
/// at depth 1..3, multi_a / sortedmulti_a over sorted keys, duplicate leaves, different internal key
fn tr_state_items<Pk: crate::c20::KeyId + miniscript::ToPublicKey>(base: u32) -> Vec<(String, Tr<Pk>)> {
    use Node::*;
    let bx = |n: Node| Box::new(n);
    let leaf_nodes: Vec<Node> = vec![
        Check(bx(PkK(base + 1))), Check(bx(PkK(base + 2))), Check(bx(PkK(base + 3))), Check(bx(PkK(base + 4))),
        MultiA(1, vec![base + 1, base + 2]), SortedMultiA(1, vec![base + 1, base + 2]), SortedMultiA(1, vec![base + 2, base + 1]),
        Hash(HK::Sha256, 0),
    ];
    let leaves: Vec<Option<Arc<Miniscript<Pk, Tap>>>> = leaf_nodes.iter().map(|n| ast::to_ms::<Pk, Tap>(n).ok().map(Arc::new)).collect();
    let l = |i: usize| Sh::L(i);
    let n = |a: Sh, b: Sh| Sh::N(Box::new(a), Box::new(b));
    let shapes: Vec<Sh> = vec![
        l(0), l(1), l(4), l(5), l(6), l(7),
        n(l(0), l(1)), n(l(1), l(0)), n(l(0), l(0)),
        n(n(l(0), l(1)), l(2)), n(n(l(1), l(0)), l(2)), n(l(2), n(l(0), l(1))), n(l(2), n(l(1), l(0))),
        n(n(n(l(0), l(1)), l(2)), l(3)), n(n(n(l(1), l(0)), l(2)), l(3)), n(l(3), n(l(2), n(l(0), l(1)))), n(n(l(2), n(l(0), l(1))), l(3)),
        n(n(l(0), l(1)), n(l(2), l(3))), n(n(l(2), l(3)), n(l(0), l(1))), n(n(l(1), l(0)), n(l(3), l(2))),
        n(l(4), l(7)), n(l(5), l(7)), n(l(7), l(4)),
    ];
    fn tree<Pk: crate::c20::KeyId>(s: &Sh, leaves: &[Option<Arc<Miniscript<Pk, Tap>>>]) -> Option<TapTree<Pk>> {
        match s {
            Sh::L(i) => Some(TapTree::leaf(leaves[*i].clone()?)),
            Sh::N(a, b) => TapTree::combine(tree(a, leaves)?, tree(b, leaves)?).ok(),
        }
    }
    let mut out = vec![];
    for ik in [base + 5, base + 6] {
        let mut objs: Vec<(String, Tr<Pk>)> = vec![];
        if let Ok(t) = Tr::new(Pk::of(ik), None) { objs.push((format!("tr({})", ik), t)); }
        for s in &shapes {
            if let Some(t) = tree(s, &leaves) { if let Ok(t) = Tr::new(Pk::of(ik), Some(t)) { objs.push((format!("tr({};{})", ik, s.tok()), t)); } }
        }
        for (tok, t) in objs {
            let used = t.clone();
            let _ = guarded(|| used.spend_info());
            let used_clone = used.clone();
            if ik == base + 5 { out.push((tok.clone(), t)); }
            out.push((tok.clone(), used));
            if ik == base + 5 { out.push((tok, used_clone)); }
        }
    }
    out
}

pub fn run(e: &mut Emit, thorough: bool, rng: &mut Rng) {
    // (R1) sugar spellings through from_str in every context
    for ctx in CtxK::ALL {
        for (s1, s2) in sugar_pairs() {
            let r = match ctx {
                CtxK::Bare => sugar_obs::<miniscript::BareCtx>(s1, s2), CtxK::Legacy => sugar_obs::<miniscript::Legacy>(s1, s2),
                CtxK::Segwitv0 => sugar_obs::<miniscript::Segwitv0>(s1, s2), CtxK::Tap => sugar_obs::<Tap>(s1, s2),
            };
            match r {
                Some((wa, wb, o)) => {
                    e.out.count("pair sugar-spelling");
                    e.out.line(&format!("J eqstruct {} {} {} {} {} {} {} {}", ctx.name(), wa, wb, o.eq, o.cmp, o.hash, o.disp, o.pc), "ok");
                }
                None => e.out.count(&format!("sugar-spelling unparsed {} {}", ctx.name(), s1)),
            }
        }
    }
    // (R4) Tr in three states, full keys and x-only keys
    let tf = tr_state_items::<miniscript::bitcoin::PublicKey>(0);
    e.out.note("tr-states-full items", tf.len().to_string());
    emit_tok_family(e, "tr-states-full", &tf, rng, 6, 12, if thorough { 3000 } else { 500 }, &|a, b| hash_same(a, b));
    let tx = tr_state_items::<miniscript::bitcoin::secp256k1::XOnlyPublicKey>(200);
    e.out.note("tr-states-xonly items", tx.len().to_string());
    emit_tok_family(e, "tr-states-xonly", &tx, rng, 6, 12, if thorough { 3000 } else { 500 }, &|a, b| hash_same(a, b));

    // (4) tap trees and Tr
    let shapes_v = tree_items(thorough);
    let trees: Vec<(String, TapTree<String>)> = shapes_v.iter().filter_map(|s| build_tree(s).map(|t| (s.tok(), t))).collect();
    e.out.note("taptree items", trees.len().to_string());
    emit_tok_family(e, "taptree", &trees, rng, 4, 10, if thorough { 4000 } else { 600 }, &|a, b| hash_same(a, b));
    let mut trs: Vec<(String, Tr<String>)> = vec![];
    for ik in ["I", "J"] {
        if let Ok(t) = Tr::new(ik.to_string(), None) { trs.push((format!("tr({})", ik), t)); }
        for (tok, tree) in trees.iter().filter(|(t, _)| t.len() <= 9).take(14) {
            if let Ok(t) = Tr::new(ik.to_string(), Some(tree.clone())) { trs.push((format!("tr({};{})", ik, tok), t)); }
        }
    }
    e.out.note("tr items", trs.len().to_string());
    emit_tok_family(e, "tr", &trs, rng, 4, 10, if thorough { 2000 } else { 400 }, &|a, b| hash_same(a, b));

    // (5) policies through the public enums
    let mut ps = pol_items();
    for _ in 0..(if thorough { 600 } else { 120 }) { let d = 1 + rng.below(3); ps.push(random_p(rng, d, false)); }
    let mut seen = BTreeSet::new();
    ps.retain(|p| seen.insert(p.wire()));
    let cs: Vec<(String, Concrete<String>)> = ps.iter().filter_map(|p| to_concrete::<String>(p).map(|c| (p.wire(), c))).collect();
    e.out.note("concrete-enum items", cs.len().to_string());
    emit_tok_family(e, "concrete-enum", &cs, rng, 6, 8, if thorough { 6000 } else { 1200 }, &|a, b| hash_same(a, b));
    emit_pcmp(e, "concrete", &cs, rng, if thorough { 12000 } else { 2500 });
    let mut sp: Vec<P> = pol_items().into_iter().filter(|p| to_semantic::<String>(p).is_some()).collect();
    for _ in 0..(if thorough { 400 } else { 80 }) { let d = 1 + rng.below(3); sp.push(random_p(rng, d, true)); }
    let mut seen = BTreeSet::new();
    sp.retain(|p| seen.insert(p.wire()));
    let ss: Vec<(String, Semantic<String>)> = sp.iter().filter_map(|p| to_semantic::<String>(p).map(|c| (p.wire(), c))).collect();
    e.out.note("semantic-enum items", ss.len().to_string());
    emit_tok_family(e, "semantic-enum", &ss, rng, 6, 8, if thorough { 4000 } else { 800 }, &|a, b| a == b);
    emit_pcmp(e, "semantic", &ss, rng, if thorough { 8000 } else { 1500 });

    // (6) descriptors over real keys
    let dp = str_items::<Descriptor<miniscript::bitcoin::PublicKey>>(&real_desc_strings(), e.out, "descriptor-pk");
    e.out.note("descriptor-pk items", dp.len().to_string());
    emit_str_family(e, "descriptor-pk", &dp, rng, if thorough { 3000 } else { 500 }, &|a, b| hash_same(a, b));
    let dd = str_items::<Descriptor<DescriptorPublicKey>>(&dpk_desc_strings(), e.out, "descriptor-dpk");
    e.out.note("descriptor-dpk items", dd.len().to_string());
    emit_str_family(e, "descriptor-dpk", &dd, rng, if thorough { 3000 } else { 500 }, &|a, b| hash_same(a, b));
    let df = str_items::<Descriptor<miniscript::DefiniteDescriptorKey>>(&definite_desc_strings(), e.out, "descriptor-definite");
    e.out.note("descriptor-definite items", df.len().to_string());
    emit_str_family(e, "descriptor-definite", &df, rng, if thorough { 2000 } else { 300 }, &|a, b| hash_same(a, b));
    // (R1/R4) derived descriptors: `at_derivation_index` results against the same definite key
    // parsed from its string, and against keys that derive the same public key through another
    // structure; then everything in the USED state (script_pubkey computed)
    {
        type DD = Descriptor<miniscript::DefiniteDescriptorKey>;
        let mut items: Vec<(String, DD)> = vec![];
        for (_, d) in dd.iter() {
            if !d.has_wildcard() || d.is_multipath() { continue; }
            for i in [0u32, 1, 5] {
                if let Some(Ok(x)) = guarded(|| d.at_derivation_index(i)) { items.push((x.to_string(), x)); }
            }
        }
        let derived_tokens: Vec<String> = items.iter().map(|(t, _)| t.split('#').next().unwrap_or("").to_string()).collect();
        for t in derived_tokens { if let Some(Ok(x)) = guarded(|| DD::from_str(&t)) { items.push((x.to_string(), x)); } }
        for (t, x) in df.iter() { items.push((t.clone(), x.clone())); }
        let used: Vec<(String, DD)> = items.iter().map(|(t, x)| { let u = x.clone(); let _ = guarded(|| u.script_pubkey()); (t.clone(), u) }).collect();
        items.extend(used);
        e.out.note("descriptor-derived items", items.len().to_string());
        emit_tok_family(e, "descriptor-derived", &items, rng, 4, 10, if thorough { 3000 } else { 500 }, &|a, b| hash_same(a, b));
    }
    for (s1, s2) in alias_pairs() {
        match (guarded(|| Descriptor::<DescriptorPublicKey>::from_str(&s1)), guarded(|| Descriptor::<DescriptorPublicKey>::from_str(&s2))) {
            (Some(Ok(a)), Some(Ok(b))) => {
                let tok = a.to_string();
                let o = if s1.len() % 2 == 0 { observe(&a, &b) } else { observe(&b, &a) };
                e.out.count("pair dpk-alias");
                e.out.line(&format!("J eqstruct descriptor-dpk-alias {} {} {} {} {} {} {}", tok, tok, o.eq, o.cmp, o.hash, o.disp, o.pc), "ok");
            }
            _ => e.out.count("dpk-alias unparsed"),
        }
    }
}

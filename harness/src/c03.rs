//! C03: a satisfaction produced in NON-malleable mode for a sane script is the only witness a
//! third party can get accepted.
//!
//! Judge (`J nonmall`; `J nonmall2e` = the same judge for scripts holding one curve point in two
//! key encodings, see `two_encodings`): the library's script bytes and the library's witness go to the Lean
//! driver, which searches ALL stacks (every length) over the adversary alphabet with the Lean
//! Script semantics under the context's standardness flags (`Driver/OpsMalle.lean`).
//! The harness only chooses the inputs, builds the alphabet extras (every preimage and every
//! public key of the script) and lists what the caller holds.
//!
//! Positive control (`C advfinds`): on known-malleable inputs (two different satisfactions of
//! the same script that the adversary can assemble) the same search MUST find an alternative.
//! Generator control (`J advcovers`): for EVERY control script the search must report every
//! satisfaction the specification table generates (and the Script semantics accepts).
//! Descriptor level (`J dnonmall`, `J dnoalt`, …): see `c03desc.rs`.
//!
//! The DOMAIN ("sane") is decided by the library on every run (`classify` = `validate(&Ctx::SANE)`):
//! the designated corpus therefore also holds scripts REFUSED TODAY for exactly one sanity rule
//! each (`repeated_key_corpus`, `refused_today_corpus`, `control_corpus`, the Unknown twins of
//! `dissat_class_corpus` / `tower_parent_corpus`); they are judged the day a rule lets them through.
//! Self-check (`C advbrute`): pruned search == brute-force enumeration on the small cases.
//! Correspondence (`C satisfy … nonmall`): the satisfier model of `Thm/C03.lean`'s theorems.
use std::collections::BTreeSet;

#[path = "c03desc.rs"]
mod dlevel;

use crate::ast::{self, hex, CtxK, Node, HK};
use crate::common::{Out, Rng};
use crate::msops::{self, rel_canon, wit_wire, Assets};
use crate::with_ctx;
use miniscript::miniscript::types::Base;
use miniscript::{Miniscript, ScriptContext};

/* ------------------------------------------------------------------ helpers */

fn after_ok(lt: u32, n: u32) -> bool { (lt < 500_000_000) == (n < 500_000_000) && n <= lt }
fn older_ok(sq: u32, n: u32) -> bool {
    sq & (1 << 31) == 0 && (sq & (1 << 22)) == (n & (1 << 22)) && (n & 0xffff) <= (sq & 0xffff)
}

/// (nLockTime, nSequence) values on both sides of every lock of the script
fn tx_values(node: &Node) -> Vec<(u32, u32)> {
    let (mut af, mut ol) = (vec![], vec![]);
    node.locks(&mut af, &mut ol);
    let mut lts = vec![0u32];
    for n in &af { lts.push(*n); if *n > 1 { lts.push(n - 1); } }
    let mut sqs = vec![0xffff_fffeu32];
    for n in &ol { let c = rel_canon(*n); sqs.push(c); if c & 0xffff > 1 { sqs.push(c - 1); } }
    lts.sort(); lts.dedup(); sqs.sort(); sqs.dedup();
    // most permissive transaction first
    lts.reverse();
    let mut v = vec![];
    for l in &lts { for s in &sqs { v.push((*l, *s)); } }
    v
}

/// assets of a caller whose transaction has (lt, sq) and who holds the masked keys/preimages
fn assets_for(node: &Node, lt: u32, sq: u32, keymask: u32, premask: u32) -> Assets {
    let full = Assets::full(node);
    let mut a = Assets::default();
    for (i, k) in full.ecdsa.iter().enumerate() { if keymask >> i & 1 == 1 { a.ecdsa.insert(*k); } }
    for (i, (k, _)) in full.schnorr.iter().filter(|(k, _)| !full.rawsig.contains(k)).enumerate() {
        if keymask >> i & 1 == 1 { a.schnorr.insert(*k, if k % 2 == 0 { 64 } else { 65 }); }
    }
    for (i, p) in full.pre.iter().enumerate() { if premask >> i & 1 == 1 { a.pre.insert(*p); } }
    // raw key-hash atoms: the public key is known unless the top mask bit is clear; the
    // signature follows the key mask (bits after the ordinary keys)
    let nkeys = full.ecdsa.len() + full.schnorr.iter().filter(|(k, _)| !full.rawsig.contains(k)).count();
    for (i, h) in full.rawsig.iter().enumerate() {
        if keymask >> 31 & 1 == 1 || keymask >> (nkeys + i) & 1 == 1 { a.rawpk.insert(*h); }
        if keymask >> (nkeys + i) & 1 == 1 { a.rawsig.insert(*h); if *h >= 200 { a.schnorr.insert(*h, 64); } }
    }
    let (mut af, mut ol) = (vec![], vec![]);
    node.locks(&mut af, &mut ol);
    for n in af { if after_ok(lt, n) { a.after.insert(n); } }
    for n in ol { if older_ok(sq, n) { a.older.insert(rel_canon(n)); } }
    a
}

/// rename keys (pre-order) to pairwise distinct ids of the context; `None` if more than 8
fn distinct_keys(node: &Node, ctx: CtxK, next: &mut u32) -> Option<Node> {
    use Node::*;
    let base = if ctx == CtxK::Tap { 200 } else { 0 };
    let mut fresh = |next: &mut u32| -> Option<u32> {
        if *next >= 8 { return None; }
        *next += 1;
        Some(base + *next - 1)
    };
    let bx = |n: Node| Box::new(n);
    Some(match node {
        // uncompressed keys (ids 100..199, Legacy/Bare only) keep their id: their 65-byte encoding
        // is the point of having them; NOTE id 100+i is the same curve point as id i
        PkK(k) if (100..200).contains(k) => PkK(*k),
        PkH(k) if (100..200).contains(k) => PkH(*k),
        PkK(_) => PkK(fresh(next)?),
        PkH(_) => PkH(fresh(next)?),
        Multi(k, v) => Multi(*k, v.iter().map(|_| fresh(next)).collect::<Option<Vec<_>>>()?),
        SortedMulti(k, v) => SortedMulti(*k, v.iter().map(|_| fresh(next)).collect::<Option<Vec<_>>>()?),
        MultiA(k, v) => MultiA(*k, v.iter().map(|_| fresh(next)).collect::<Option<Vec<_>>>()?),
        SortedMultiA(k, v) => SortedMultiA(*k, v.iter().map(|_| fresh(next)).collect::<Option<Vec<_>>>()?),
        Alt(x) => Alt(bx(distinct_keys(x, ctx, next)?)),
        Swap(x) => Swap(bx(distinct_keys(x, ctx, next)?)),
        Check(x) => Check(bx(distinct_keys(x, ctx, next)?)),
        DupIf(x) => DupIf(bx(distinct_keys(x, ctx, next)?)),
        Verify(x) => Verify(bx(distinct_keys(x, ctx, next)?)),
        NonZero(x) => NonZero(bx(distinct_keys(x, ctx, next)?)),
        ZeroNotEqual(x) => ZeroNotEqual(bx(distinct_keys(x, ctx, next)?)),
        AndV(a, b) => { let a = distinct_keys(a, ctx, next)?; AndV(bx(a), bx(distinct_keys(b, ctx, next)?)) }
        AndB(a, b) => { let a = distinct_keys(a, ctx, next)?; AndB(bx(a), bx(distinct_keys(b, ctx, next)?)) }
        OrB(a, b) => { let a = distinct_keys(a, ctx, next)?; OrB(bx(a), bx(distinct_keys(b, ctx, next)?)) }
        OrD(a, b) => { let a = distinct_keys(a, ctx, next)?; OrD(bx(a), bx(distinct_keys(b, ctx, next)?)) }
        OrC(a, b) => { let a = distinct_keys(a, ctx, next)?; OrC(bx(a), bx(distinct_keys(b, ctx, next)?)) }
        OrI(a, b) => { let a = distinct_keys(a, ctx, next)?; OrI(bx(a), bx(distinct_keys(b, ctx, next)?)) }
        AndOr(a, b, c) => {
            let a = distinct_keys(a, ctx, next)?; let b = distinct_keys(b, ctx, next)?;
            AndOr(bx(a), bx(b), bx(distinct_keys(c, ctx, next)?))
        }
        Thresh(k, xs) => {
            let mut v = vec![];
            for x in xs { v.push(distinct_keys(x, ctx, next)?); }
            Thresh(*k, v)
        }
        other => other.clone(),
    })
}

fn pk(id: u32) -> Node { Node::Check(Box::new(Node::PkK(id))) }
fn bx(n: Node) -> Box<Node> { Box::new(n) }

/// wrappers that turn a fragment into (probably) sane scripts by adding fresh signatures
fn sane_wrappings(x: &Node, base: Base, f: u32, g: u32) -> Vec<Node> {
    match base {
        Base::B => vec![
            x.clone(),
            Node::AndV(bx(Node::Verify(bx(pk(f)))), bx(x.clone())),
            Node::AndB(bx(pk(f)), bx(Node::Alt(bx(x.clone())))),
            Node::OrD(bx(pk(f)), bx(x.clone())),
            Node::AndOr(bx(pk(f)), bx(x.clone()), bx(pk(g))),
            Node::AndOr(bx(x.clone()), bx(pk(f)), bx(pk(g))),
            Node::OrB(bx(pk(f)), bx(Node::Alt(bx(x.clone())))),
            Node::Thresh(1, vec![pk(f), Node::Alt(bx(x.clone()))]),
            Node::Thresh(2, vec![pk(f), Node::Swap(bx(pk(g))), Node::Alt(bx(x.clone()))]),
            Node::AndV(bx(Node::Verify(bx(pk(f)))), bx(Node::Thresh(1, vec![pk(g), Node::Alt(bx(x.clone()))]))),
            Node::AndV(bx(Node::Verify(bx(pk(f)))), bx(Node::OrD(bx(pk(g)), bx(x.clone())))),
            Node::AndV(bx(Node::Verify(bx(pk(f)))), bx(Node::OrI(bx(x.clone()), bx(pk(g))))),
        ],
        Base::V => vec![
            Node::AndV(bx(x.clone()), bx(pk(f))),
            Node::OrC(bx(pk(f)), bx(x.clone())),
            Node::AndV(bx(Node::OrC(bx(pk(f)), bx(x.clone()))), bx(pk(g))),
        ],
        Base::K => vec![Node::Check(bx(x.clone()))],
        Base::W => vec![Node::AndB(bx(pk(f)), bx(x.clone())), Node::OrB(bx(pk(f)), bx(x.clone()))],
    }
}

fn is_b<Pk: msops::HKey, Ctx: ScriptContext>(node: &Node) -> Option<(bool, bool)> {
    let ms: Miniscript<Pk, Ctx> = ast::to_ms(node).ok()?;
    if ms.ty.corr.base != Base::B { return None; }
    // raw_pkh is refused by SANE by itself; scripts that are sane EXCEPT for containing raw_pkh
    // are judged as an extension of the domain (same script bytes and typing as pk_h)
    let mut rp = vec![]; node.rawpkhs(&mut rp);
    let mut params = Ctx::SANE;
    if !rp.is_empty() { params.allow_raw_pkh = true; }
    Some((ms.validate(&params).is_ok(), ms.ty.mall.non_malleable))
}

fn base_of_ms<Pk: msops::HKey, Ctx: ScriptContext>(node: &Node) -> Option<Base> {
    ast::to_ms::<Pk, Ctx>(node).ok().map(|m| m.ty.corr.base)
}

/// (sane, non-malleable by type) of a B-typed fragment, `None` if ill-typed / not B
fn classify(ctx: CtxK, node: &Node) -> Option<(bool, bool)> { with_ctx!(ctx, is_b(node)) }

fn key_bytes(ctx: CtxK, id: u32) -> Vec<u8> {
    if ctx == CtxK::Tap { ast::xonly_key(id).serialize().to_vec() } else { ast::full_key(id).to_bytes() }
}

/// what the adversary additionally knows: every preimage and every public key of the script
fn extras(ctx: CtxK, node: &Node) -> Vec<Vec<u8>> {
    let mut v: Vec<Vec<u8>> = vec![];
    let mut hs = vec![]; node.hashes(&mut hs);
    for (_, h) in hs { let p = ast::preimage(h).to_vec(); if !v.contains(&p) { v.push(p); } }
    let mut ks = vec![]; node.keys(&mut ks);
    node.rawpkhs(&mut ks);
    for k in ks { let b = key_bytes(ctx, k); if !v.contains(&b) { v.push(b); } }
    v
}

/// upper bound of the alphabet the driver builds (7 fixed items: empty, 01, 02, 80, 32 zero bytes,
/// 32 / 33 junk bytes)
fn alpha_size(w: &[Vec<u8>], ex: &[Vec<u8>]) -> usize {
    let mut s: BTreeSet<&[u8]> = BTreeSet::new();
    for e in w { s.insert(e); }
    for e in ex { s.insert(e); }
    s.len() + 7
}

fn script_hex<Pk: msops::HKey, Ctx: ScriptContext>(node: &Node) -> Option<String> {
    let ms: Miniscript<Pk, Ctx> = ast::to_ms(node).ok()?;
    Some(hex(ms.encode().as_bytes()))
}

fn sat_nonmall<Pk: msops::HKey, Ctx: ScriptContext>(out: &mut Out, ctx: CtxK, node: &Node, a: &Assets) -> Option<Vec<Vec<u8>>>
where Assets: miniscript::Satisfier<Pk>
{
    // emits the `C satisfy <ctx> nonmall …` correspondence line and returns the library's witness
    msops::emit_satisfy::<Pk, Ctx>(out, ctx, node, a, false, false)
}

fn sat_mall<Pk: msops::HKey, Ctx: ScriptContext>(node: &Node, a: &Assets) -> Option<Vec<Vec<u8>>>
where Assets: miniscript::Satisfier<Pk>
{
    let ms: Miniscript<Pk, Ctx> = ast::to_ms(node).ok()?;
    std::panic::catch_unwind(std::panic::AssertUnwindSafe(|| ms.satisfy_malleable(a).ok())).ok().flatten()
}

/// is this byte string one of the signatures the harness can issue?
fn is_signature(e: &[u8]) -> bool {
    static T: std::sync::OnceLock<BTreeSet<Vec<u8>>> = std::sync::OnceLock::new();
    T.get_or_init(|| {
        let mut s = BTreeSet::new();
        for id in (0..10).chain(100..104) { s.insert(msops::ecdsa_sig(id).to_vec()); }
        for id in 200..210 { for sz in [64usize, 65] { s.insert(msops::schnorr_sig(id, sz).to_vec()); } }
        s
    }).contains(e)
}

/// one curve point in two key encodings (ids k and k+100, as keys or raw key hashes): the library's
/// repeated-key check compares `Pk` values, so such scripts pass `SANE`; they are judged under their
/// own op name (`J nonmall2e`, same judge)
pub fn two_encodings(node: &Node) -> bool {
    let mut ks = vec![]; node.keys(&mut ks); node.rawpkhs(&mut ks);
    ks.iter().any(|k| *k < 100 && ks.contains(&(k + 100)))
}

struct Limits { _unused: () }
const MAXLEN: usize = 100;

/// one judged case (nothing is skipped: CHECKMULTISIG blocks are pruned by the driver)
fn judge(out: &mut Out, lim: &Limits, ctx: CtxK, node: &Node, script: &str, w: &[Vec<u8>], lt: u32, sq: u32,
         slack: usize, info: &str) -> bool {
    let ex = extras(ctx, node);
    let alpha = alpha_size(w, &ex);
    let _ = lim;
    // the pruned search only descends while the script still consumes elements, so the bound
    // is just a safety net: 100 = the P2WSH standardness limit on witness items
    let args = format!("{} {} {} {} {} {} {}", ctx.name(), lt, sq, MAXLEN, script, wit_wire(w), wit_wire(&ex));
    out.line(&format!("J {} {} | {} {}", if two_encodings(node) { "nonmall2e" } else { "nonmall" }, args, node.wire(), info), "ok");
    let maxlen = w.len() + slack;
    let args = format!("{} {} {} {} {} {} {}", ctx.name(), lt, sq, maxlen, script, wit_wire(w), wit_wire(&ex));
    out.count(&format!("judged witness length {}", w.len()));
    out.count(&format!("judged alphabet size {}", alpha));
    // self-check of the pruned search on cases where brute force is affordable
    let brute: f64 = (0..=maxlen).map(|n| (alpha as f64).powi(n as i32)).sum();
    if brute <= 15_000.0 {
        out.line(&format!("C advbrute {}", args), "same");
    }
    true
}

/* ------------------------------------------------------------------ hand-written corpus */

fn hand_corpus(ctx: CtxK) -> Vec<Node> {
    let k = |i: u32| if ctx == CtxK::Tap { 200 + i } else { i };
    let sha = |h: u32| Node::Hash(HK::Sha256, h);
    let v = |n: Node| Node::Verify(bx(n));
    let mut c = vec![];
    // sig-less branch preferred over a signed one ((true,false)/(false,true) arms of `minimum`)
    c.push(Node::AndV(bx(v(pk(k(0)))), bx(Node::OrD(bx(pk(k(1))), bx(sha(0))))));
    c.push(Node::AndV(bx(v(pk(k(0)))), bx(Node::OrD(bx(pk(k(1))), bx(Node::Older(10))))));
    c.push(Node::AndV(bx(Node::OrC(bx(pk(k(1))), bx(v(sha(0))))), bx(pk(k(0)))));
    c.push(Node::AndV(bx(v(pk(k(0)))), bx(Node::AndOr(bx(pk(k(1))), bx(pk(k(2))), bx(sha(1))))));
    if !matches!(ctx, CtxK::Legacy | CtxK::Bare) {
        c.push(Node::AndV(bx(v(pk(k(0)))), bx(Node::OrI(bx(pk(k(1))), bx(sha(0))))));
        c.push(Node::AndV(bx(v(pk(k(0)))), bx(Node::OrI(bx(Node::After(100)), bx(pk(k(1)))))));
        // an unsigned child with a UNIQUE dissatisfaction and an expensive satisfaction:
        // or_i(and_v(v:h1,and_v(v:h2,and_v(v:h3,1))),0)
        let h3 = Node::OrI(
            bx(Node::AndV(bx(v(sha(0))), bx(Node::AndV(bx(v(sha(1))), bx(Node::AndV(bx(v(sha(2))), bx(Node::True))))))),
            bx(Node::False));
        let h1 = Node::OrI(bx(Node::AndV(bx(v(sha(0))), bx(Node::True))), bx(Node::False));
        c.push(Node::AndV(bx(v(pk(k(0)))), bx(Node::OrB(bx(pk(k(1))), bx(Node::Alt(bx(h1)))))));
        // an expensive signature-less alternative must still beat a cheaper signed one
        c.push(Node::AndV(bx(v(pk(k(0)))), bx(Node::OrD(bx(pk(k(1))), bx(h3.clone())))));
        let h3v = Node::AndV(bx(v(sha(0))), bx(Node::AndV(bx(v(sha(1))), bx(Node::AndV(bx(v(sha(2))), bx(Node::True))))));
        c.push(Node::AndV(bx(v(pk(k(0)))), bx(Node::OrI(bx(pk(k(1))), bx(h3v.clone())))));
        c.push(Node::AndV(bx(v(pk(k(0)))), bx(Node::AndOr(bx(pk(k(1))), bx(pk(k(2))), bx(h3v)))));
        // thresh: sig-less candidates must be taken first (sort key `has_sig`)
        c.push(Node::AndV(bx(v(pk(k(0)))), bx(Node::Thresh(1, vec![pk(k(1)), Node::Swap(bx(pk(k(2)))), Node::Alt(bx(h3.clone()))]))));
        c.push(Node::AndV(bx(v(pk(k(0)))), bx(Node::Thresh(2, vec![pk(k(1)), Node::Swap(bx(pk(k(2)))), Node::Swap(bx(pk(k(3)))), Node::Alt(bx(h3.clone()))]))));
        c.push(Node::Thresh(2, vec![pk(k(1)), Node::Swap(bx(pk(k(2)))), Node::Alt(bx(h3))]));
    }
    c.push(Node::Thresh(2, vec![pk(k(0)), Node::Swap(bx(pk(k(1)))), Node::Swap(bx(pk(k(2))))]));
    // every hash kind, sig-less branch vs signed branch
    for (i, kind) in [HK::Hash256, HK::Ripemd160, HK::Hash160].into_iter().enumerate() {
        c.push(Node::AndV(bx(v(pk(k(0)))), bx(Node::OrD(bx(pk(k(1))), bx(Node::Hash(kind, i as u32 + 1))))));
        c.push(Node::AndOr(bx(pk(k(0))), bx(Node::AndV(bx(v(Node::Hash(kind, i as u32 + 1))), bx(pk(k(1))))), bx(pk(k(2)))));
    }
    // raw key hashes (refused by SANE as such; judged as an extension, see `is_b`): atom 3 is
    // the hash of key 3, which is used nowhere else in these scripts
    let rp = Node::Check(bx(Node::RawPkH(k(3))));
    c.push(rp.clone());
    c.push(Node::AndV(bx(v(pk(k(0)))), bx(rp.clone())));
    c.push(Node::OrD(bx(rp.clone()), bx(Node::AndV(bx(v(pk(k(0)))), bx(sha(0))))));
    c.push(Node::OrD(bx(pk(k(0))), bx(Node::AndV(bx(v(rp.clone())), bx(Node::Older(10))))));
    c.push(Node::AndOr(bx(rp.clone()), bx(sha(0)), bx(pk(k(1)))));
    c.push(Node::Thresh(2, vec![pk(k(0)), Node::Swap(bx(rp.clone())), Node::Swap(bx(pk(k(1))))]));
    c.push(Node::AndV(bx(v(pk(k(0)))), bx(Node::OrD(bx(rp), bx(sha(0))))));
    // NOT sane in the unchanged library (hash dissatisfactions are not unique): they are judged
    // only if a changed type rule lets them pass `SANE`
    let ab = Node::AndB(bx(pk(k(1))), bx(Node::Swap(bx(sha(0)))));
    c.push(Node::OrB(bx(pk(k(0))), bx(Node::Alt(bx(ab.clone())))));
    c.push(Node::OrB(bx(ab), bx(Node::Alt(bx(pk(k(0)))))));
    c.push(Node::AndV(bx(v(pk(k(0)))), bx(Node::OrB(bx(Node::NonZero(bx(pk(k(1))))), bx(Node::Alt(bx(sha(0))))))));
    c.push(Node::AndOr(bx(sha(0)), bx(pk(k(0))), bx(pk(k(1)))));
    c.push(Node::Thresh(1, vec![pk(k(0)), Node::Alt(bx(sha(0)))]));
    c.push(Node::OrD(bx(pk(k(0))), bx(Node::AndV(bx(v(pk(k(1)))), bx(Node::Older(10))))));
    c.push(Node::AndOr(bx(pk(k(0))), bx(Node::Older(10)), bx(pk(k(1)))));
    c.push(Node::AndOr(bx(pk(k(0))), bx(Node::After(100)), bx(Node::AndV(bx(v(pk(k(1)))), bx(Node::After(500_000_001))))));
    // multisig with n = 3..5, k < n (alone, under a wrapper, and next to a sig-less branch)
    for (kk, n) in [(2usize, 3u32), (3, 4), (2, 4), (3, 5), (4, 5), (1, 3)] {
        let ks: Vec<u32> = (0..n).map(k).collect();
        let m = |ks: Vec<u32>| if ctx == CtxK::Tap { Node::MultiA(kk, ks) } else { Node::Multi(kk, ks) };
        let sm = |ks: Vec<u32>| if ctx == CtxK::Tap { Node::SortedMultiA(kk, ks) } else { Node::SortedMulti(kk, ks) };
        c.push(m(ks.clone()));
        c.push(sm(ks.iter().rev().cloned().collect()));
        c.push(Node::AndV(bx(v(m(ks.clone()))), bx(Node::OrD(bx(pk(k(n))), bx(sha(0))))));
        c.push(Node::OrD(bx(m(ks.clone())), bx(Node::AndV(bx(v(pk(k(n)))), bx(Node::Older(10))))));
        c.push(Node::AndOr(bx(m(ks.clone())), bx(Node::After(100)), bx(pk(k(n)))));
        c.push(Node::Thresh(2, vec![m(ks.clone()), Node::Alt(bx(pk(k(n)))), Node::Alt(bx(pk(k(n + 1))))]));
    }
    if ctx == CtxK::Tap {
        c.push(Node::MultiA(2, vec![k(0), k(1), k(2)]));
        c.push(Node::AndV(bx(v(Node::MultiA(1, vec![k(0), k(1)]))), bx(Node::OrD(bx(pk(k(2))), bx(sha(0))))));
    } else {
        c.push(Node::Multi(2, vec![k(0), k(1), k(2)]));
        c.push(Node::AndV(bx(v(Node::Multi(1, vec![k(0), k(1)]))), bx(Node::OrD(bx(pk(k(2))), bx(sha(0))))));
        c.push(Node::Check(bx(Node::PkH(k(0)))));
        c.push(Node::OrD(bx(Node::Check(bx(Node::PkH(k(0))))), bx(Node::AndV(bx(v(pk(k(1)))), bx(sha(0))))));
    }
    c
}

/// the dissatisfaction-class rules of malleability.rs (`and_b`, `andor`, `or_i`: Unique vs
/// Unknown) matter only under a parent that demands a unique dissatisfaction: each rule's
/// Unique fragment AND its Unknown twin under or_d / or_b / thresh / andor.  The Unknown twins are
/// not sane today (they feed the controls); a rule that wrongly says Unique makes them sane and
/// judged.
fn dissat_class_corpus(ctx: CtxK) -> Vec<Node> {
    let k = |i: u32| if ctx == CtxK::Tap { 200 + i } else { i };
    let sha = |h: u32| Node::Hash(HK::Sha256, h);
    let v = |n: Node| Node::Verify(bx(n));
    let mut fs: Vec<Node> = vec![
        // and_b: (Unique, Unique) both signed -> Unique | right side unsigned -> Unknown
        Node::AndB(bx(pk(k(1))), bx(Node::Swap(bx(pk(k(2)))))),
        Node::AndB(bx(pk(k(1))), bx(Node::Swap(bx(sha(0))))),
        Node::AndB(bx(sha(0)), bx(Node::Swap(bx(pk(k(1)))))),
        // andor: c Unique and (a signed | b none) -> Unique | c Unknown -> Unknown
        Node::AndOr(bx(pk(k(1))), bx(pk(k(2))), bx(pk(k(3)))),
        Node::AndOr(bx(pk(k(1))), bx(pk(k(2))), bx(sha(0))),
        Node::AndOr(bx(pk(k(1))), bx(Node::AndV(bx(v(pk(k(2)))), bx(Node::Older(10)))), bx(pk(k(3)))),
    ];
    // an UNSIGNED fragment with a unique dissatisfaction (what makes and_b / andor Unknown)
    let mut us: Vec<Node> = vec![Node::NonZero(bx(Node::AndV(bx(v(sha(0))), bx(Node::True))))];
    if !matches!(ctx, CtxK::Legacy | CtxK::Bare) {
        us.push(Node::OrI(bx(Node::False), bx(Node::ZeroNotEqual(bx(Node::After(100))))));
    }
    for u in us {
        // and_b: (Unique, Unique) but one side unsigned -> Unknown
        fs.push(Node::AndB(bx(pk(k(1))), bx(Node::Alt(bx(u.clone())))));
        fs.push(Node::AndB(bx(u.clone()), bx(Node::Swap(bx(pk(k(1)))))));
        // andor: a unsigned and b dissatisfiable -> Unknown
        fs.push(Node::AndOr(bx(u), bx(pk(k(2))), bx(pk(k(3)))));
    }
    if !matches!(ctx, CtxK::Legacy | CtxK::Bare) {
        // or_i: (none, Unique) -> Unique | (Unique, Unique) -> Unknown
        fs.push(Node::OrI(bx(Node::AndV(bx(v(pk(k(1)))), bx(pk(k(2))))), bx(pk(k(3)))));
        fs.push(Node::OrI(bx(pk(k(1))), bx(pk(k(2)))));
        fs.push(Node::OrI(bx(pk(k(1))), bx(Node::False)));
        fs.push(Node::OrI(bx(Node::AndV(bx(v(pk(k(1)))), bx(Node::After(100)))), bx(Node::False)));
    }
    let mut c = vec![];
    for f in fs {
        c.push(Node::OrD(bx(f.clone()), bx(pk(k(9)))));
        c.push(Node::OrB(bx(f.clone()), bx(Node::Alt(bx(pk(k(9)))))));
        c.push(Node::OrB(bx(pk(k(9))), bx(Node::Alt(bx(f.clone())))));
        c.push(Node::Thresh(1, vec![f.clone(), Node::Alt(bx(pk(k(9))))]));
        c.push(Node::Thresh(2, vec![f.clone(), Node::Alt(bx(pk(k(8)))), Node::Alt(bx(pk(k(9))))]));
        c.push(Node::AndOr(bx(f.clone()), bx(pk(k(8))), bx(pk(k(9)))));
        c.push(Node::AndV(bx(v(pk(k(7)))), bx(Node::OrD(bx(f), bx(sha(1))))));
    }
    c
}

/// ONE key used twice, for every pair of occurrence kinds (checked key, checked key hash, multisig
/// member) and every two-path shape in which the second path can reuse the signature shown by the
/// first.  The unchanged library refuses all of them (`DuplicateKeys`), so they only feed the
/// candidate counters; a repeated-key rule that lets a pair through makes it sane and judged.
fn repeated_key_corpus(ctx: CtxK) -> Vec<Node> {
    let k = |i: u32| if ctx == CtxK::Tap { 200 + i } else { i };
    let sha = |h: u32| Node::Hash(HK::Sha256, h);
    let v = |n: Node| Node::Verify(bx(n));
    let occ = |kind: usize, key: u32| -> Node {
        match kind {
            0 => pk(key),
            1 => Node::Check(bx(Node::PkH(key))),
            _ => if ctx == CtxK::Tap { Node::MultiA(1, vec![key]) } else { Node::Multi(1, vec![key]) },
        }
    };
    let mut c = vec![];
    for kx in 0..3usize {
        for ky in 0..3usize {
            let (x, y) = (occ(kx, k(0)), occ(ky, k(0)));
            c.push(Node::OrD(bx(x.clone()), bx(Node::AndV(bx(v(y.clone())), bx(Node::Older(10))))));
            c.push(Node::OrD(bx(x.clone()), bx(Node::AndV(bx(v(y.clone())), bx(sha(0))))));
            c.push(Node::AndOr(bx(x.clone()), bx(Node::Older(10)), bx(y.clone())));
            c.push(Node::AndOr(bx(x.clone()), bx(pk(k(1))), bx(y.clone())));
            c.push(Node::OrB(bx(x.clone()), bx(Node::Alt(bx(y.clone())))));
            c.push(Node::Thresh(1, vec![x.clone(), Node::Alt(bx(y.clone()))]));
            c.push(Node::Thresh(2, vec![x.clone(), Node::Alt(bx(y.clone())), Node::Alt(bx(pk(k(1))))]));
            c.push(Node::AndV(bx(v(pk(k(1)))), bx(Node::OrD(bx(x.clone()), bx(Node::AndV(bx(v(y.clone())), bx(Node::After(100))))))));
            if !matches!(ctx, CtxK::Legacy | CtxK::Bare) {
                c.push(Node::OrI(bx(Node::AndV(bx(v(y.clone())), bx(Node::Older(10)))), bx(x.clone())));
                c.push(Node::OrI(bx(x.clone()), bx(Node::AndV(bx(v(y.clone())), bx(sha(0))))));
            }
            // the repeated key as a member of a larger multisig next to a lone occurrence
            let m2 = if ctx == CtxK::Tap { Node::MultiA(1, vec![k(1), k(0)]) } else { Node::Multi(1, vec![k(1), k(0)]) };
            if kx == 0 { c.push(Node::OrD(bx(y.clone()), bx(Node::AndV(bx(v(m2)), bx(Node::Older(10)))))); }
        }
    }
    c
}

/// REFUSED TODAY, one sanity rule each (`validate(&Ctx::SANE)` is the library's decision, not the
/// harness's): every script here goes through `classify` on every run and is JUDGED the day a rule
/// lets it through.  (Repeated keys: `repeated_key_corpus`; malleable by type: `control_corpus` and
/// the Unknown twins of `dissat_class_corpus` / `tower_parent_corpus`; raw key hashes are judged
/// today as an extension.)
fn refused_today_corpus(ctx: CtxK) -> Vec<Node> {
    let k = |i: u32| if ctx == CtxK::Tap { 200 + i } else { i };
    let sha = |h: u32| Node::Hash(HK::Sha256, h);
    let v = |n: Node| Node::Verify(bx(n));
    let and_v = |a: Node, b: Node| Node::AndV(bx(a), bx(b));
    let sln = |n: Node| Node::Swap(bx(Node::OrI(bx(Node::False), bx(Node::ZeroNotEqual(bx(n))))));
    let legacy = matches!(ctx, CtxK::Legacy | CtxK::Bare);
    let mut c = vec![];
    // ---- mixed lock units: every ordered unit pair (height/time of after, blocks/time of older)
    //      in every combinator that puts both locks on ONE path
    type Mk = fn(u32) -> Node;
    let pairs: [(Mk, u32, u32); 4] = [
        (Node::After, 100, 500_000_001), (Node::After, 500_000_001, 100),
        (Node::Older, 10, 4_194_305), (Node::Older, 4_194_305, 10),
    ];
    for (mk, x, y) in pairs {
        c.push(and_v(v(pk(k(0))), and_v(v(mk(x)), mk(y))));
        c.push(Node::AndB(bx(and_v(v(pk(k(0))), mk(x))), bx(Node::Alt(bx(and_v(v(pk(k(1))), mk(y)))))));
        c.push(Node::OrD(bx(pk(k(0))), bx(and_v(v(pk(k(1))), and_v(v(mk(x)), mk(y))))));
        c.push(Node::AndOr(bx(pk(k(0))), bx(and_v(v(mk(x)), mk(y))), bx(pk(k(1)))));
        c.push(and_v(v(and_v(v(pk(k(0))), mk(x))), Node::OrD(bx(pk(k(1))), bx(and_v(v(pk(k(2))), mk(y))))));
        if !legacy {
            c.push(Node::Thresh(3, vec![pk(k(0)), sln(mk(x)), sln(mk(y))]));
            c.push(Node::Thresh(2, vec![pk(k(0)), sln(mk(x)), sln(mk(y))]));
            c.push(Node::AndOr(bx(Node::AndB(bx(pk(k(0))), bx(sln(mk(x))))), bx(mk(y)), bx(pk(k(1)))));
            // accepted neighbour: the two units on DIFFERENT paths
            c.push(Node::OrI(bx(and_v(v(pk(k(0))), mk(x))), bx(and_v(v(pk(k(1))), mk(y)))));
        }
    }
    // ---- a path without a signature (would be malleable: the third party knows every preimage
    //      and can wait for every lock)
    let u = Node::NonZero(bx(and_v(v(sha(0)), Node::True)));      // unsigned, unique dissatisfaction
    let u2 = Node::NonZero(bx(and_v(v(sha(1)), Node::True)));
    c.push(Node::OrD(bx(pk(k(0))), bx(sha(0))));
    c.push(Node::OrD(bx(pk(k(0))), bx(Node::Older(10))));
    c.push(Node::OrD(bx(pk(k(0))), bx(Node::After(100))));
    c.push(Node::OrD(bx(pk(k(0))), bx(and_v(v(sha(0)), Node::Older(10)))));
    c.push(Node::AndOr(bx(pk(k(0))), bx(pk(k(1))), bx(sha(0))));
    c.push(Node::AndOr(bx(pk(k(0))), bx(pk(k(1))), bx(Node::Older(10))));
    c.push(Node::AndOr(bx(u.clone()), bx(Node::Older(10)), bx(pk(k(0)))));
    c.push(Node::OrB(bx(pk(k(0))), bx(Node::Alt(bx(u.clone())))));
    c.push(Node::OrB(bx(u.clone()), bx(Node::Alt(bx(pk(k(0)))))));
    c.push(Node::Thresh(1, vec![pk(k(0)), Node::Alt(bx(u.clone()))]));
    c.push(Node::Thresh(2, vec![pk(k(0)), Node::Alt(bx(u.clone())), Node::Alt(bx(u2.clone()))]));
    c.push(Node::Thresh(1, vec![pk(k(0)), Node::Swap(bx(pk(k(1)))), Node::Alt(bx(u.clone()))]));
    c.push(and_v(v(Node::OrD(bx(pk(k(0))), bx(u.clone()))), Node::True));
    c.push(Node::OrD(bx(if ctx == CtxK::Tap { Node::MultiA(2, vec![k(0), k(1)]) } else { Node::Multi(2, vec![k(0), k(1)]) }), bx(sha(0))));
    if !legacy {
        c.push(Node::OrI(bx(pk(k(0))), bx(sha(0))));
        c.push(Node::OrI(bx(Node::Older(10)), bx(pk(k(0)))));
        c.push(Node::OrI(bx(pk(k(0))), bx(Node::OrI(bx(pk(k(1))), bx(and_v(v(sha(0)), Node::After(100)))))));
    }
    // ---- context rule of Legacy / Bare: IF-argument minimality is not enforced there, so or_i
    //      and d: are refused (allow_or_i / allow_dup_if); they WOULD be malleable (01 -> 02).
    //      The same trees are sane in segwitv0 / tap (accepted neighbours).
    c.push(and_v(v(pk(k(0))), Node::OrI(bx(pk(k(1))), bx(pk(k(2))))));
    c.push(Node::OrI(bx(pk(k(0))), bx(and_v(v(pk(k(1))), Node::Older(10)))));
    c.push(Node::OrI(bx(and_v(v(pk(k(0))), sha(0))), bx(pk(k(1)))));
    c.push(Node::AndB(bx(pk(k(0))), bx(Node::Alt(bx(Node::DupIf(bx(v(Node::Older(10)))))))));
    c.push(Node::Thresh(2, vec![pk(k(0)), Node::Swap(bx(pk(k(1)))), Node::Alt(bx(Node::DupIf(bx(v(Node::After(100))))))]));
    c.push(Node::Thresh(2, vec![pk(k(0)), Node::Swap(bx(pk(k(1)))), sln(Node::After(100))]));
    c.push(Node::OrD(bx(pk(k(0))), bx(and_v(v(pk(k(1))), Node::OrI(bx(sha(0)), bx(Node::False))))));
    // ---- resource limits, both sides: executed opcodes around 201 (segwitv0 / legacy / bare),
    //      script size around 520 (legacy).  The larger limits (3600-byte witness script, 100
    //      witness items) are not reachable with the 10 keys of the key table under 201 opcodes.
    if ctx != CtxK::Tap {
        for n in 96..=101usize {
            for two_keys in [false, true] {
                let mut t = Node::Older(1);
                for _ in 0..n { t = and_v(v(Node::Older(1)), t); }
                if two_keys { t = and_v(v(pk(k(1))), t); }
                c.push(and_v(v(pk(k(0))), t));
            }
        }
    }
    if ctx == CtxK::Legacy {
        // and_v(v:pk(0), v:sha256 x 11, fillers…, pk(1)): 35 + 11*39 + 35 = 499 bytes before fillers
        // fillers v:older(n): 3 bytes (n <= 16), 4 bytes (n <= 127), 5 bytes (n <= 32767)
        for (a, b, d) in [(1usize, 0usize, 3usize), (0, 4, 0), (0, 0, 4), (2, 0, 3), (0, 4, 1), (1, 1, 3), (0, 3, 2), (0, 2, 3), (1, 2, 2), (0, 1, 4), (2, 1, 2), (1, 3, 1)] {
            let mut t = pk(k(1));
            for _ in 0..a { t = and_v(v(Node::Older(5)), t); }
            for _ in 0..b { t = and_v(v(Node::Older(100)), t); }
            for _ in 0..d { t = and_v(v(Node::Older(1000)), t); }
            for _ in 0..11 { t = and_v(v(sha(0)), t); }
            c.push(and_v(v(pk(k(0))), t));
        }
    }
    c
}

/// R5: per-fragment malleability accounting (dissatisfaction class, signed, safe) of wrappers
/// and of the casts t: = and_v(X,1), l: = or_i(0,X), u: = or_i(X,0) depends on the child's; what it
/// computes matters only under a parent that DEMANDS a unique dissatisfaction.  Every tower of
/// 1..3 wrappers / casts over signed, unsigned and compound atoms, B- or W-typed, under every
/// such parent.  The library's type decides which are sane (judged) and which are refused today
/// (Unknown twins: judged the day a rule calls them Unique).
fn tower_parent_corpus(ctx: CtxK, full: bool) -> Vec<Node> {
    let k = |i: u32| if ctx == CtxK::Tap { 200 + i } else { i };
    let sha = |h: u32| Node::Hash(HK::Sha256, h);
    let v = |n: Node| Node::Verify(bx(n));
    let base_of = |n: &Node| -> Option<Base> { with_ctx!(ctx, base_of_ms(n)) };
    let atoms: Vec<Node> = vec![
        Node::PkK(k(0)), Node::PkH(k(0)), pk(k(0)),
        if ctx == CtxK::Tap { Node::MultiA(1, vec![k(0), k(1)]) } else { Node::Multi(1, vec![k(0), k(1)]) },
        sha(0), Node::Older(10), Node::True,
        Node::AndB(bx(sha(0)), bx(Node::Swap(bx(pk(k(0)))))),
        Node::AndB(bx(pk(k(0))), bx(Node::Swap(bx(sha(0))))),
        Node::AndV(bx(v(pk(k(0)))), bx(sha(0))),
    ];
    let wrap = |w: u8, x: Node| -> Node {
        match w {
            0 => Node::Alt(bx(x)), 1 => Node::Swap(bx(x)), 2 => Node::Check(bx(x)), 3 => Node::DupIf(bx(x)),
            4 => Node::Verify(bx(x)), 5 => Node::NonZero(bx(x)), 6 => Node::ZeroNotEqual(bx(x)),
            7 => Node::AndV(bx(x), bx(Node::True)), 8 => Node::OrI(bx(Node::False), bx(x)), _ => Node::OrI(bx(x), bx(Node::False)),
        }
    };
    // the accounting wrappers (d j n t l u) must occur at least once: plain a/s/c/v towers are in
    // ast::wrapper_towers already
    let accounting = |w: u8| matches!(w, 3 | 5 | 6 | 7 | 8 | 9);
    let mut towers: Vec<Node> = vec![];
    let mut seen = BTreeSet::new();
    for a in &atoms {
        for w1 in 0..10u8 {
            let x1 = wrap(w1, a.clone());
            if base_of(&x1).is_none() { continue; }
            if accounting(w1) && seen.insert(x1.wire()) { towers.push(x1.clone()); }
            for w2 in 0..10u8 {
                let x2 = wrap(w2, x1.clone());
                if base_of(&x2).is_none() { continue; }
                if (accounting(w1) || accounting(w2)) && seen.insert(x2.wire()) { towers.push(x2.clone()); }
                if !full && !(accounting(w1) && accounting(w2)) { continue; }
                for w3 in 0..10u8 {
                    let x3 = wrap(w3, x2.clone());
                    if base_of(&x3).is_none() { continue; }
                    let n_acc = [w1, w2, w3].iter().filter(|w| accounting(**w)).count();
                    if n_acc >= 2 && seen.insert(x3.wire()) { towers.push(x3); }
                }
            }
        }
    }
    let mut c = vec![];
    let mut seen = BTreeSet::new();
    for t in towers {
        let emb: Vec<Node> = match base_of(&t) {
            Some(Base::B) => vec![
                Node::OrD(bx(t.clone()), bx(pk(k(8)))),
                Node::AndOr(bx(t.clone()), bx(pk(k(8))), bx(pk(k(9)))),
                Node::OrB(bx(t.clone()), bx(Node::Alt(bx(pk(k(8)))))),
                Node::Thresh(2, vec![t.clone(), Node::Alt(bx(pk(k(8)))), Node::Alt(bx(pk(k(9))))]),
                Node::AndV(bx(v(pk(k(7)))), bx(Node::OrD(bx(Node::AndB(bx(t.clone()), bx(Node::Alt(bx(pk(k(8))))))), bx(pk(k(9)))))),
            ],
            Some(Base::W) => vec![
                Node::OrB(bx(pk(k(8))), bx(t.clone())),
                Node::Thresh(2, vec![pk(k(8)), t.clone(), Node::Alt(bx(pk(k(9))))]),
                Node::OrD(bx(Node::AndB(bx(pk(k(8))), bx(t.clone()))), bx(pk(k(9)))),
            ],
            _ => vec![],
        };
        for e in emb { if seen.insert(e.wire()) { c.push(e); } }
    }
    c
}

/// every designated script of a context: own corpus, the shared dimension corpus, the
/// dissatisfaction-class corpus, the repeated-key corpus, the refused-today corpus (one sanity
/// rule each), the type-malleable controls, the towers under demanding parents
fn designated(ctx: CtxK, thorough: bool) -> Vec<Node> {
    let mut c = hand_corpus(ctx);
    c.extend(ast::dimension_corpus(ctx));
    c.extend(dissat_class_corpus(ctx));
    c.extend(repeated_key_corpus(ctx));
    c.extend(refused_today_corpus(ctx));
    c.extend(control_corpus(ctx));
    c.extend(tower_parent_corpus(ctx, thorough));
    c
}

/// scripts that are malleable for a reason the TYPE SYSTEM reports; the control derives the
/// second satisfaction itself (malleable satisfier on a reduced asset set)
fn control_corpus(ctx: CtxK) -> Vec<Node> {
    let k = |i: u32| if ctx == CtxK::Tap { 200 + i } else { i };
    let sha = |h: u32| Node::Hash(HK::Sha256, h);
    let v = |n: Node| Node::Verify(bx(n));
    let mut c = vec![
        Node::OrB(bx(sha(0)), bx(Node::Alt(bx(sha(1))))),
        Node::AndV(bx(v(pk(k(0)))), bx(Node::OrB(bx(sha(0)), bx(Node::Alt(bx(sha(1))))))),
        Node::AndV(bx(v(pk(k(0)))), bx(Node::OrD(bx(sha(0)), bx(sha(1))))),
        Node::Thresh(1, vec![sha(0), Node::Alt(bx(sha(1)))]),
        Node::AndV(bx(v(pk(k(0)))), bx(Node::Thresh(1, vec![sha(0), Node::Alt(bx(sha(1))), Node::Alt(bx(sha(2)))]))),
    ];
    if !matches!(ctx, CtxK::Legacy | CtxK::Bare) {
        c.push(Node::OrI(bx(sha(0)), bx(sha(1))));
        c.push(Node::AndV(bx(v(pk(k(0)))), bx(Node::OrI(bx(sha(0)), bx(sha(1))))));
        c.push(Node::AndV(bx(v(pk(k(0)))), bx(Node::OrI(bx(Node::After(100)), bx(Node::Older(10))))));
    }
    c
}

/* ------------------------------------------------------------------ compiler-built scripts */

/// Concrete policies whose compilations carry types built by the COMPILER's casts (`t:`, `l:`,
/// `u:` via `from_components_unchecked`), which `from_ast` never uses.  `K<i>` = key atom,
/// `H<i>` = sha256 atom, written into the policy text as real keys / hashes.
#[derive(Clone)]
enum Pol { K(u32), H(u32), After(u32), Older(u32), And(Vec<Pol>), Or(Vec<(usize, Pol)>), Thr(usize, Vec<Pol>) }

fn pol_text(p: &Pol) -> String {
    match p {
        Pol::K(i) => format!("pk(K{})", i), Pol::H(i) => format!("sha256(H{})", i),
        Pol::After(n) => format!("after({})", n), Pol::Older(n) => format!("older({})", n),
        Pol::And(v) => format!("and({})", v.iter().map(pol_text).collect::<Vec<_>>().join(",")),
        Pol::Or(v) => format!("or({})", v.iter().map(|(w, x)| format!("{}@{}", w, pol_text(x))).collect::<Vec<_>>().join(",")),
        Pol::Thr(k, v) => format!("thresh({},{})", k, v.iter().map(pol_text).collect::<Vec<_>>().join(",")),
    }
}

fn pol_build<Pk: ast::KeyOf>(p: &Pol, base: u32) -> Option<miniscript::policy::Concrete<Pk>> {
    use miniscript::policy::Concrete as C;
    use miniscript::bitcoin::hashes::{sha256, Hash};
    use std::sync::Arc;
    Some(match p {
        Pol::K(i) => C::Key(Pk::of(base + i)),
        Pol::H(i) => C::Sha256(sha256::Hash::from_slice(&ast::hash_value(HK::Sha256, *i)).ok()?),
        Pol::After(n) => C::After(miniscript::AbsLockTime::from_consensus(*n).ok()?),
        Pol::Older(n) => C::Older(miniscript::RelLockTime::from_consensus(*n).ok()?),
        Pol::And(v) => C::And(v.iter().map(|x| pol_build(x, base).map(Arc::new)).collect::<Option<Vec<_>>>()?),
        Pol::Or(v) => C::Or(v.iter().map(|(w, x)| pol_build(x, base).map(|q| (*w, Arc::new(q)))).collect::<Option<Vec<_>>>()?),
        Pol::Thr(k, v) => C::Thresh(miniscript::Threshold::new(*k, v.iter().map(|x| pol_build(x, base).map(Arc::new)).collect::<Option<Vec<_>>>()?).ok()?),
    })
}

fn policies() -> Vec<Pol> {
    use Pol::*;
    let and = |a: Pol, b: Pol| And(vec![a, b]);
    let or = |wa: usize, a: Pol, wb: usize, b: Pol| Or(vec![(wa, a), (wb, b)]);
    vec![
        or(1, K(0), 1, and(K(1), H(0))),
        Thr(2, vec![K(0), K(1), Older(10)]),
        or(99, K(0), 1, and(K(1), After(100))),
        or(1, K(0), 99, and(K(1), After(100))),
        and(K(0), or(99, K(1), 1, H(0))),
        and(K(0), or(1, K(1), 99, Older(10))),
        Thr(2, vec![K(0), K(1), K(2), After(100)]),
        Thr(3, vec![K(0), K(1), Older(10), After(100)]),
        or(1, and(K(0), Older(10)), 1, and(K(1), H(0))),
        or(99, and(K(0), After(100)), 1, and(K(1), and(H(0), Older(10)))),
        and(K(0), or(1, H(0), 1, or(9, K(1), 1, Older(10)))),
        or(1, K(0), 1, or(1, and(K(1), H(0)), 1, and(K(2), H(1)))),
        Thr(2, vec![K(0), or(1, K(1), 1, and(K(2), Older(10))), and(K(3), H(0))]),
        and(or(9, K(0), 1, K(1)), or(1, and(K(2), After(100)), 9, K(3))),
        // REFUSED TODAY by Concrete::compile (one reason each): a path without a signature, no
        // non-malleable compilation, mixed lock units on one path, one key twice.  Judged by the
        // same code the day the compiler accepts them and its output passes its own SANE.
        or(1, K(0), 1, H(0)),
        or(1, K(0), 1, Older(10)),
        and(K(0), or(1, H(0), 1, H(1))),
        Thr(2, vec![K(0), H(0), H(1)]),
        and(K(0), and(After(100), After(500_000_001))),
        Thr(3, vec![K(0), Older(10), Older(4_194_305)]),
        or(1, K(0), 1, and(K(0), Older(10))),
        Thr(2, vec![K(0), K(1), K(0)]),
    ]
}

/// compile the policies in `Ctx` and judge the compiled miniscripts AS THE COMPILER TYPED THEM
/// (`ms.ty` is the compiler's: it decides `validate(SANE)` and `root_has_sig` in `satisfy`)
fn compiled_cases<Pk, Ctx>(out: &mut Out, lim: &Limits, ctx: CtxK, thorough: bool) -> u64
where
    Pk: msops::HKey + crate::c10b::Atom,
    Ctx: ScriptContext,
    Assets: miniscript::Satisfier<Pk>,
{
    let base = if ctx == CtxK::Tap { 200 } else { 0 };
    let mut n = 0u64;
    for pt in policies() {
        let text = pol_text(&pt);
        let pol: miniscript::policy::Concrete<Pk> = match pol_build(&pt, base) { Some(p) => p, None => { out.count("compiled: policy not constructible"); continue } };
        let ms: Miniscript<Pk, Ctx> = match std::panic::catch_unwind(std::panic::AssertUnwindSafe(|| pol.compile::<Ctx>())) {
            Ok(Ok(m)) => m,
            _ => { out.count(&format!("compiled: no compilation in {}", ctx.name())); continue }
        };
        let node = match crate::c10b::from_ms(&ms) { Some(x) => x, None => { out.count("compiled: atoms outside the table"); continue } };
        if ms.validate(&Ctx::SANE).is_err() {
            // the compiler promises sane output for these policies (statement of C08); here it
            // only means: nothing to judge
            out.count("observation: compiled script not SANE by its own type");
            continue;
        }
        out.count(&format!("compiled scripts {}", ctx.name()));
        let script = hex(ms.encode().as_bytes());
        let full = Assets::full(&node);
        let nk = (full.ecdsa.len() + full.schnorr.len()).min(5) as u32;
        let np = full.pre.len().min(2) as u32;
        let mut txs = tx_values(&node);
        if !thorough { txs.truncate(6); }
        let mut done: BTreeSet<(Vec<Vec<u8>>, u32, u32)> = BTreeSet::new();
        for (lt, sq) in txs {
            for km in (0..(1u32 << nk)).rev() {
                for pm in (0..(1u32 << np)).rev() {
                    let a = assets_for(&node, lt, sq, km | 1 << 31, pm);
                    // model correspondence on the COMPILER-typed object: the Lean model types the
                    // same tree with the from_ast rules, so a cast rule that disagrees shows here
                    let tmpl = std::panic::catch_unwind(std::panic::AssertUnwindSafe(|| ms.build_template(&a)));
                    match &tmpl {
                        Ok(tm) => out.line(&format!("C satisfy {} nonmall {} {}", ctx.name(), node.wire(), a.wire()), &msops::show_sat(tm)),
                        Err(_) => out.line(&format!("C satisfy {} nonmall {} {}", ctx.name(), node.wire(), a.wire()), "PANIC"),
                    }
                    let w = match std::panic::catch_unwind(std::panic::AssertUnwindSafe(|| ms.satisfy(&a))) { Ok(Ok(w)) => w, _ => continue };
                    if !done.insert((w.clone(), lt, sq)) { continue; }
                    if judge(out, lim, ctx, &node, &script, &w, lt, sq, 1, &format!("compiled:{} {}", text, a.wire())) { n += 1; }
                }
            }
        }
    }
    n
}

/* ------------------------------------------------------------------ driver */

pub fn run(out: &mut Out, thorough: bool, seed: u64) {
    let mut rng = Rng(seed ^ 0xC03);
    ast::emit_defs(out);
    msops::emit_sig_defs(out);
    let lim = Limits { _unused: () };
    let slack = 1usize;
    let mut n_sane = 0u64;
    let mut n_judged = 0u64;
    let mut n_ctl = 0u64;
    let mut pools: std::collections::BTreeMap<CtxK, (Vec<Node>, usize)> = Default::default();
    for ctx in [CtxK::Segwitv0, CtxK::Tap, CtxK::Legacy, CtxK::Bare] {
        let main_ctx = matches!(ctx, CtxK::Segwitv0 | CtxK::Tap);
        let atoms = ast::default_atoms(ctx, !thorough);
        let depth = if thorough { 3 } else if main_ctx { 3 } else { 2 };
        let quota = if thorough { 60 } else if main_ctx { 14 } else { 8 };
        let frags = ast::enumerate(ctx, &atoms, depth, quota, &mut rng);
        // ---- candidates: bias towards sane scripts (distinct keys + signed wrappers)
        let mut sane: Vec<Node> = vec![];
        let mut malleable: Vec<Node> = vec![];
        let mut seen: BTreeSet<String> = BTreeSet::new();
        let mut consider = |n: Node, sane: &mut Vec<Node>, malleable: &mut Vec<Node>, out: &mut Out| {
            if !seen.insert(n.wire()) { return; }
            match classify(ctx, &n) {
                Some((true, _)) => sane.push(n),
                Some((false, false)) => { out.count("candidate not sane: malleable by type"); malleable.push(n) }
                Some((false, true)) => out.count("candidate not sane: other reason"),
                None => out.count("candidate ill-typed or not B"),
            }
        };
        for (tag, v) in [("hand", hand_corpus(ctx)), ("dimension", ast::dimension_corpus(ctx)), ("dissat-class", dissat_class_corpus(ctx)),
            ("repeated-key", repeated_key_corpus(ctx)), ("refused-today", refused_today_corpus(ctx)), ("type-malleable", control_corpus(ctx)),
            ("tower-under-parent", tower_parent_corpus(ctx, thorough))] {
            let ns = v.iter().filter(|n| matches!(classify(ctx, n), Some((true, _)))).count();
            out.count(&format!("designated {} {}: {} sane today (judged), {} refused today", tag, ctx.name(), ns, v.len() - ns));
        }
        let mut n_all = 0usize;
        for n in designated(ctx, thorough) {
            if std::env::var("C03_DEBUG").is_ok() { eprintln!("hand {} {} -> {:?}", ctx.name(), n.wire(), classify(ctx, &n)); }
            n_all += 1;
            consider(n, &mut sane, &mut malleable, out);
        }
        let n_des = (sane.len(), n_all - sane.len());
        for t in &frags {
            let mut next = 0u32;
            let x = match distinct_keys(&t.node, ctx, &mut next) { Some(x) => x, None => continue };
            let base = if ctx == CtxK::Tap { 200 } else { 0 };
            let (f, g) = (base + next, base + next + 1);
            for cand in sane_wrappings(&x, t.base, f, g) { consider(cand, &mut sane, &mut malleable, out); }
        }
        drop(consider);
        out.count(&format!("designated scripts {}: {} sane today (judged), {} refused today", ctx.name(), n_des.0, n_des.1));
        // thin out (seeded) to the tier's budget, keeping the hand corpus (it comes first)
        let cap = if thorough { 2500 } else if main_ctx { 900 } else { 250 };
        let n_hand = { let mut seen2: BTreeSet<String> = BTreeSet::new();
            designated(ctx, thorough).into_iter().filter(|n| seen2.insert(n.wire()) && matches!(classify(ctx, n), Some((true, _)))).count().min(sane.len()) };
        if sane.len() > cap {
            let mut rest: Vec<Node> = sane.split_off(n_hand);
            for i in (1..rest.len()).rev() { let j = rng.below(i + 1); rest.swap(i, j); }
            rest.truncate(cap.saturating_sub(n_hand).max(cap * 2 / 3));
            sane.extend(rest);
        }
        {
            let no_raw = |n: &&Node| { let mut r = vec![]; n.rawpkhs(&mut r); r.is_empty() };
            let hand_no_raw = sane.iter().take(n_hand).filter(no_raw).count();
            pools.insert(ctx, (sane.iter().filter(no_raw).cloned().collect(), hand_no_raw));
        }
        for (node_ix, node) in sane.iter().enumerate() {
            n_sane += 1;
            node.count_frags(out);
            out.count(&format!("sane scripts {}", ctx.name()));
            let script = match with_ctx!(ctx, script_hex(node)) { Some(s) => s, None => continue };
            let full = Assets::full(node);
            let n_raw = full.rawsig.len();
            if n_raw > 0 { out.count("extended domain: sane except for raw_pkh"); }
            let n_plain = full.ecdsa.len() + full.schnorr.iter().filter(|(k, _)| !full.rawsig.contains(k)).count();
            let nk = (n_plain + n_raw).min(6) as u32;
            let np = full.pre.len().min(3) as u32;
            let mut txs = tx_values(node);
            if !thorough { txs.truncate(if node_ix < n_hand { 9 } else { 4 }); }
            let mut done: BTreeSet<(Vec<Vec<u8>>, u32, u32)> = BTreeSet::new();
            for (lt, sq) in txs {
                // bit 31: public keys of raw key hashes known to the caller (one extra round
                // without it when the script has raw key hashes)
                let mut kms: Vec<u32> = (0..(1u32 << nk)).rev().map(|m| m | 1 << 31).collect();
                if n_raw > 0 { kms.push((1u32 << nk) - 1 - (1 << n_plain.min(5))); }
                for km in kms {
                    for pm in (0..(1u32 << np)).rev() {
                        let a = assets_for(node, lt, sq, km, pm);
                        let w = match with_ctx!(ctx, sat_nonmall(out, ctx, node, &a)) { Some(w) => w, None => continue };
                        if !done.insert((w.clone(), lt, sq)) { out.count("same witness from another asset subset"); continue; }
                        if judge(out, &lim, ctx, node, &script, &w, lt, sq, slack, &a.wire()) { n_judged += 1; }
                    }
                }
            }
        }
        // ---- scripts built and TYPED by the policy compiler
        if ctx != CtxK::Bare {
            let nc = with_ctx!(ctx, compiled_cases(out, &lim, ctx, thorough));
            n_judged += nc;
            out.count(&format!("compiled cases judged {}: {}", ctx.name(), nc));
        }
        // ---- positive control: type-malleable scripts for which two adversary-assemblable
        // satisfactions exist (computed with the malleable satisfier from different asset sets)
        if main_ctx {
            let mut ctl: Vec<Node> = control_corpus(ctx);
            let cap = if thorough { 400 } else { 80 };
            for i in (1..malleable.len()).rev() { let j = rng.below(i + 1); malleable.swap(i, j); }
            ctl.extend(malleable.into_iter().take(cap));
            for node in &ctl {
                if classify(ctx, node).is_none() { continue; }
                let script = match with_ctx!(ctx, script_hex(node)) { Some(s) => s, None => continue };
                let (lt, sq) = tx_values(node)[0];
                let full = assets_for(node, lt, sq, u32::MAX, u32::MAX);
                let full = { let mut f = full; for (k, sz) in f.schnorr.iter_mut() { *sz = if k % 2 == 0 { 64 } else { *sz }; } f };
                // model correspondence of the NON-malleable mode on malleable scripts as well
                let _ = with_ctx!(ctx, sat_nonmall(out, ctx, node, &full));
                // every control script is JUDGED: the search must report every satisfaction the
                // specification table generates from these assets (independent generator)
                if node.size() <= 16 {
                    out.line(&format!("J advcovers {} {} {} {} {} {} {}", ctx.name(), lt, sq, script, wit_wire(&extras(ctx, node)), node.wire(), full.wire()), "ok");
                    out.count("control: search covers the specification table's satisfactions");
                } else { out.count("control: script too large for the table generator (size > 16)"); }
                let w = match with_ctx!(ctx, sat_mall(node, &full)) { Some(w) => w, None => { out.count("control: unsatisfiable"); continue } };
                // alternatives: drop one preimage / one key from what the caller holds
                let mut alt: Option<Vec<Vec<u8>>> = None;
                let mut variants: Vec<Assets> = vec![];
                for p in full.pre.iter() { let mut a = full.clone(); a.pre.remove(p); variants.push(a); }
                for k in full.ecdsa.iter() { let mut a = full.clone(); a.ecdsa.remove(k); variants.push(a); }
                for k in full.schnorr.keys() { let mut a = full.clone(); a.schnorr.remove(k); variants.push(a); }
                for a in variants {
                    if let Some(w2) = with_ctx!(ctx, sat_mall(node, &a)) {
                        // the third party can only use signatures visible in w
                        let sigs_ok = w2.iter().all(|e| !is_signature(e) || w.contains(e));
                        if w2 != w && sigs_ok { alt = Some(w2); break; }
                    }
                }
                let w2 = match alt { Some(x) => x, None => { out.count("control: no second satisfaction derivable"); continue } };
                let ex = extras(ctx, node);
                let alpha = alpha_size(&w, &ex);
                out.line(&format!("C advfinds {} {} {} {} {} {} {} | {} alt={}", ctx.name(), lt, sq, MAXLEN, script,
                    wit_wire(&w), wit_wire(&ex), node.wire(), wit_wire(&w2)), "found");
                out.count("control: known-malleable input, search must find an alternative");
                n_ctl += 1;
            }
        }
    }
    // ---- descriptor level
    {
        let e: (Vec<Node>, usize) = (vec![], 0);
        let g = |c: CtxK| pools.get(&c).unwrap_or(&e);
        // every designated script (sane or not); of the towers under parents every 4th (seeded)
        let rot = rng.below(4);
        let des = |c: CtxK| -> Vec<Node> {
            let mut seen: BTreeSet<String> = BTreeSet::new();
            let mut v: Vec<Node> = hand_corpus(c);
            v.extend(ast::dimension_corpus(c)); v.extend(dissat_class_corpus(c)); v.extend(repeated_key_corpus(c));
            v.extend(refused_today_corpus(c)); v.extend(control_corpus(c));
            v.extend(tower_parent_corpus(c, thorough).into_iter().enumerate().filter(|(i, _)| thorough || i % 4 == rot).map(|(_, n)| n));
            v.retain(|n| seen.insert(n.wire()));
            v
        };
        let (ds, dl, db, dt) = (des(CtxK::Segwitv0), des(CtxK::Legacy), des(CtxK::Bare), des(CtxK::Tap));
        let dtr: Vec<Node> = {
            let c = CtxK::Tap;
            let mut seen: BTreeSet<String> = BTreeSet::new();
            let mut v = hand_corpus(c);
            v.extend(dissat_class_corpus(c)); v.extend(repeated_key_corpus(c)); v.extend(refused_today_corpus(c)); v.extend(control_corpus(c));
            v.retain(|n| seen.insert(n.wire()));
            v
        };
        let p = dlevel::Pools { segwit: &g(CtxK::Segwitv0).0, legacy: &g(CtxK::Legacy).0, bare: &g(CtxK::Bare).0, tap: &g(CtxK::Tap).0,
            des_segwit: &ds, des_legacy: &dl, des_bare: &db, des_tap: &dt, des_tap_rules: &dtr };
        dlevel::run(out, thorough, &mut rng, &p, g(CtxK::Segwitv0).1);
    }
    out.note("sane_scripts", n_sane.to_string());
    out.note("judged_cases", n_judged.to_string());
    out.note("positive_controls", n_ctl.to_string());
    out.note("distinct_nontrivial", n_judged.to_string());
    out.note("search", "exhaustive for every judged case, nothing skipped: ALL stacks of EVERY length (bound 100 items, never reached: the search descends only while the script still consumes elements) over Adv(w) = elements of w + {empty, 01, 02, 80 (non-empty FALSE), 32 zero bytes, 32 junk bytes, 33 junk bytes} + every preimage + every public key of the script (also the keys behind raw key hashes); pruned depth-first from the stack top; inside a CHECKMULTISIG signature block only the empty string and valid signatures are tried (rule proved sound: C03.search_sigblock_pruning_sound); cross-checked against brute force up to |w|+1 on the small cases (C advbrute), against the specification table as an independent generator of satisfactions (J advcovers) and by positive controls (C advfinds, C dadvfinds, C dadvalt); a case whose search budget (3e6 script runs) runs out is reported as a failure".into());
    out.note("domain", "SANITY IS THE LIBRARY'S DECISION on every run (validate(&Ctx::SANE); descriptor level: the same for every miniscript of the descriptor + Descriptor::from_str): whatever it accepts is judged, whatever it refuses is counted - so the designated corpus holds, next to the scripts accepted today, scripts REFUSED TODAY for exactly one rule each that are judged the day the rule lets them through: one key twice (every pair of occurrence kinds pk / pkh / multisig member, every two-path shape; descriptor level also the same single key with and without origin and full keys of both parities in tap), mixed lock units (every ordered unit pair of after / older under and_v, and_b, or_d-nested, andor, thresh k=2/3, with the accepted different-path neighbour), a path without a signature (or_d / or_i / andor / or_b / thresh / multi next to a hash or lock), malleable by type (controls, Unknown twins of every dissatisfaction-class rule), the Legacy / Bare context rule (or_i, d:, s:l:n: refused there, sane in segwitv0 / tap), raw key hashes (judged today as an extension at miniscript level, refused at descriptor level), resource limits on both sides (201 / 202 executed opcodes in segwitv0, legacy, bare; 520 / 521-byte redeem script in legacy; the 3600-byte and 100-item limits are not reachable with 10 keys under 201 opcodes), policies the compiler refuses (sigless, no non-malleable compilation, mixed units, repeated key). Miniscript level: B-typed scripts: own hand corpus (multi/multi_a/sortedmulti n=3..5, all hash kinds, raw_pkh) + ast::dimension_corpus (both lock units, same-unit lock pairs, thresholds with lock children, one-child thresholds, uncompressed keys in every position incl. one point in both encodings, wrapper towers) + dissatisfaction-class corpus + repeated-key corpus + refused-today corpus + towers under demanding parents (every tower of 1-3 wrappers / casts a s c d v j n t: l: u: with at least one (quick: two at length 3) of d j n t l u over signed, unsigned and compound atoms, as the child whose UNIQUE dissatisfaction or_d / andor / or_b / thresh / and_b-under-or_d relies on) + enumerated fragments to depth 3 with keys renamed pairwise distinct (uncompressed ids kept) and wrapped with fresh signatures; segwitv0, tap, legacy, bare; x transactions on both sides of every lock (9 for designated scripts) x subsets of keys, raw key hashes and preimages for which the non-malleable satisfier succeeds. Compiler: 14 Concrete policies compiled in segwitv0 / tap / legacy, judged with the COMPILER's type (+ 8 refused today). Descriptor level, ROUTES (each ends in a judged spend; identical spends are judged once): Descriptor::get_satisfaction, Descriptor::into_plan + Plan::satisfy, deprecated Descriptor::plan, Descriptor::satisfy(&mut TxIn), the inner type's get_satisfaction (Wsh / Sh / Bare / Pkh / Wpkh / Tr), PSBT finalize_mut (input described by update_with_descriptor_unchecked, holding every signature and preimage of the caller), and object STATES: freshly parsed descriptor, used clone (after script_pubkey / address / explicit_script / spend_info), Plan reused after a failed satisfy, Psbt after a failed finalize; CORPUS: the WHOLE designated corpus of each context (towers under parents: every 4th, seeded) through wsh, sh(wsh), sh, bare and as a tr leaf with all routes on the full asset set + empty / keys-only asset sets; plus, with the full asset lattice (full, single removals, random, EMPTY, all keys without preimages) x transactions (incl. NO lock met): pool samples, mode-sensitive scripts, pkh / wpkh / sh(wpkh), sh with uncompressed keys, tr key-only, comb / balanced / right-leaning / mixed trees up to 5 leaves and depth 4, shared keys between leaves, internal key reused in a leaf, one leaf at two depths, 64- and 65-byte Schnorr signatures, key path available or not; for tr every other leaf / control block and the key path are searched as alternative envelopes".into());
}

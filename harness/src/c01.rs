//! C01: every satisfaction the library returns spends the output (miniscript level here;
//! descriptor wrappers are added in `desc.rs`).
use crate::ast::{self, CtxK};
use crate::common::{Out, Rng};
use crate::msops::{self, Assets};
use crate::desc::{self, DAssets, Wrap};
use crate::with_ctx;
use miniscript::miniscript::types::Base;

pub fn run(out: &mut Out, thorough: bool, seed: u64) {
    let mut rng = Rng(seed ^ 0xC01);
    ast::emit_defs(out);
    msops::emit_sig_defs(out);
    let mut n_frag = 0u64;
    for ctx in CtxK::ALL {
        let atoms = ast::default_atoms(ctx, !thorough);
        let frags = ast::enumerate(ctx, &atoms, if thorough { 4 } else { 3 }, if thorough { 100 } else { 30 }, &mut rng);
        for t in frags.iter().filter(|t| t.base == Base::B) {
            n_frag += 1;
            t.node.count_frags(out);
            let subsets = msops::asset_subsets(&t.node, if thorough { 64 } else { 12 });
            for a in &subsets {
                for mall in [false, true] {
                    with_ctx!(ctx, emit_sat(out, ctx, &t.node, a, mall));
                }
            }
        }
        // raw key-hash fragments (only reachable by decoding a script / from_ast): the
        // satisfier's raw_pkh arm and the lookup_raw_pkh_* hooks
        if ctx != CtxK::Bare {
            use ast::Node::*;
            let b = if ctx == CtxK::Tap { 200 } else { 0 };
            let bx = |n: ast::Node| Box::new(n);
            let rp = |h: u32| Check(bx(RawPkH(b + h)));
            let pk = |i: u32| Check(bx(PkK(b + i)));
            let corpus = vec![
                rp(0),
                OrD(bx(rp(0)), bx(pk(1))),
                OrD(bx(pk(1)), bx(rp(0))),
                AndV(bx(Verify(bx(rp(0)))), bx(pk(1))),
                AndB(bx(rp(0)), bx(Alt(bx(rp(1))))),
                OrB(bx(rp(0)), bx(Alt(bx(pk(1))))),
                OrI(bx(rp(0)), bx(rp(1))),
                AndOr(bx(rp(0)), bx(pk(1)), bx(pk(2))),
                AndOr(bx(pk(1)), bx(rp(0)), bx(rp(2))),
                Thresh(1, vec![rp(0), Alt(bx(pk(1))), Alt(bx(rp(2)))]),
                Thresh(2, vec![rp(0), Alt(bx(pk(1))), Alt(bx(rp(2)))]),
                NonZero(bx(rp(0))),
                OrD(bx(NonZero(bx(rp(0)))), bx(pk(1))),
            ];
            for node in corpus {
                n_frag += 1;
                node.count_frags(out);
                out.count("raw_pkh corpus");
                for a in msops::asset_subsets(&node, 64) {
                    for mall in [false, true] {
                        with_ctx!(ctx, emit_sat(out, ctx, &node, &a, mall));
                    }
                }
            }
        }
        // designated input classes the small-atom enumeration does not reach
        for node in ast::dimension_corpus(ctx) {
            n_frag += 1;
            node.count_frags(out);
            out.count("dimension corpus");
            for a in msops::asset_subsets(&node, if thorough { 64 } else { 24 }) {
                for mall in [false, true] {
                    with_ctx!(ctx, emit_sat(out, ctx, &node, &a, mall));
                }
            }
        }
        // random larger scripts
        let n_rand = if thorough { 400 } else { 60 };
        for _ in 0..n_rand {
            let sz = 12 + rng.below(30);
            if let Some(node) = ast::random_b(ctx, &mut rng, sz) {
                n_frag += 1;
                node.count_frags(out);
                for a in msops::asset_subsets(&node, 6) {
                    for mall in [false, true] {
                        with_ctx!(ctx, emit_sat(out, ctx, &node, &a, mall));
                    }
                }
            }
        }
    }
    // ---- descriptor level: real transactions, real sighashes, Lean `verifySpend` judge
    let mut n_desc = 0u64;
    for (ctx, wraps) in [(CtxK::Segwitv0, vec![Wrap::Wsh, Wrap::ShWsh]), (CtxK::Legacy, vec![Wrap::Sh]), (CtxK::Bare, vec![Wrap::Bare])] {
        let atoms = ast::default_atoms(ctx, !thorough);
        let frags = ast::enumerate(ctx, &atoms, if thorough { 4 } else { 3 }, if thorough { 60 } else { 14 }, &mut rng);
        for t in frags.iter().filter(|t| t.base == Base::B) {
            for w in &wraps {
                if let Some(d) = desc::build_desc(*w, &t.node, 0) {
                    n_desc += 1;
                    for a in dassets_subsets(&[&t.node], if thorough { 16 } else { 5 }) {
                        for mall in [false, true] { desc::satisfy_and_judge(out, &d, &a, mall); }
                    }
                }
            }
        }
    }
    for (ctx, wraps) in [(CtxK::Segwitv0, vec![Wrap::Wsh, Wrap::ShWsh]), (CtxK::Legacy, vec![Wrap::Sh]), (CtxK::Bare, vec![Wrap::Bare])] {
        for node in ast::dimension_corpus(ctx) {
            if node.clone().has_rawpkh() { continue; }   // TxSat has no raw-pkh lookups
            for w in &wraps {
                if let Some(d) = desc::build_desc(*w, &node, 0) {
                    n_desc += 1;
                    for a in dassets_subsets(&[&node], if thorough { 16 } else { 8 }) {
                        for mall in [false, true] { desc::satisfy_and_judge(out, &d, &a, mall); }
                    }
                }
            }
        }
    }
    for w in [Wrap::Pkh, Wrap::Wpkh, Wrap::ShWpkh] {
        // both parities, and the uncompressed encodings (legal in pkh only: the others refuse)
        for key in [0u32, 1, 8, 9, 100, 101, 103] {
            if let Some(d) = desc::build_desc(w, &ast::Node::True, key) {
                n_desc += 1;
                for has in [true, false] {
                    let mut a = DAssets::default();
                    if has { a.keys.insert(key % 100); }
                    for mall in [false, true] { desc::satisfy_and_judge(out, &d, &a, mall); }
                }
            }
        }
    }
    // taproot: key path, single leaf, small trees
    {
        let ctx = CtxK::Tap;
        let atoms = ast::default_atoms(ctx, !thorough);
        let frags: Vec<ast::Typed> = ast::enumerate(ctx, &atoms, if thorough { 3 } else { 2 }, if thorough { 30 } else { 10 }, &mut rng)
            .into_iter().filter(|t| t.base == Base::B).collect();
        for ik in [3u32, 0] { if let Some(d) = desc::build_tr(ik, &[]) {
            for tk in [true, false] {
                let mut a = DAssets::default(); a.tapkey = tk;
                for sa in [false, true] { a.schnorr_all = sa; for mall in [false, true] { desc::satisfy_and_judge(out, &d, &a, mall); } }
            }
        } }
        // tr leaves from the designated corpus too (full keys of both parities in the leaves)
        {
            let corpus: Vec<ast::Node> = ast::dimension_corpus(ctx).into_iter().filter(|n| !n.has_rawpkh()).collect();
            for (j, n) in corpus.iter().enumerate() {
                let other = corpus[(j * 7 + 3) % corpus.len()].clone();
                for (ik, leaves, shape) in [(3u32, vec![n.clone()], 0u8), (0, vec![other.clone(), n.clone()], 1), (8, vec![n.clone(), other.clone(), ast::Node::Check(Box::new(ast::Node::PkK(205)))], 2)] {
                    if let Some(d) = desc::build_tr_shaped(ik, &leaves, shape) {
                        n_desc += 1;
                        let refs: Vec<&ast::Node> = leaves.iter().collect();
                        for mut a in dassets_subsets(&refs, if thorough { 8 } else { 3 }) {
                            a.schnorr_all = j % 2 == 0;
                            for mall in [false, true] { desc::satisfy_and_judge(out, &d, &a, mall); }
                        }
                    }
                }
            }
        }
        let n_tr = if thorough { 1500 } else { 250 };
        for i in 0..n_tr {
            // up to 6 leaves; left comb / right comb / balanced; internal keys of both parities
            // (ids 3, 9 are 02-prefixed, ids 0, 8 are 03-prefixed)
            let nl = 1 + rng.below(if i % 5 == 0 { 6 } else { 4 });
            let leaves: Vec<ast::Node> = (0..nl).map(|_| frags[rng.below(frags.len())].node.clone()).collect();
            let ik = [3u32, 0, 9, 8][i % 4];
            if let Some(d) = desc::build_tr_shaped(ik, &leaves, (i % 3) as u8) {
                n_desc += 1;
                let refs: Vec<&ast::Node> = leaves.iter().collect();
                for mut a in dassets_subsets(&refs, if thorough { 8 } else { 4 }) {
                    a.tapkey = i % 7 == 0;
                    a.schnorr_all = i % 3 == 0;
                    for mall in [false, true] { desc::satisfy_and_judge(out, &d, &a, mall); }
                }
            }
        }
    }
    out.note("descriptors", n_desc.to_string());
    out.note("distinct_nontrivial", n_frag.to_string());
    out.note("domain", "all B-typed fragments to depth 2 (thinned) over small atoms in 4 contexts x asset subsets x {nonmall, mall}; random larger scripts".into());
}

fn emit_sat<Pk: msops::HKey, Ctx: miniscript::ScriptContext>(out: &mut Out, ctx: CtxK, node: &ast::Node, a: &Assets, mall: bool)
where Assets: miniscript::Satisfier<Pk>
{
    msops::emit_satisfy::<Pk, Ctx>(out, ctx, node, a, mall, true);
}

/// subsets of the descriptor-level assets (full set first, then single removals, then random)
fn dassets_subsets(nodes: &[&ast::Node], cap: usize) -> Vec<DAssets> {
    let full = DAssets::full(nodes);
    let mut v = vec![full.clone()];
    for k in full.keys.iter() { let mut a = full.clone(); a.keys.remove(k); v.push(a); }
    for p in full.pre.iter() { let mut a = full.clone(); a.pre.remove(p); v.push(a); }
    for x in full.after.iter() { let mut a = full.clone(); a.after.remove(x); v.push(a); }
    for x in full.older.iter() { let mut a = full.clone(); a.older.remove(x); v.push(a); }
    { let mut a = full.clone(); a.pre.clear(); v.push(a); }
    { let mut a = full.clone(); a.after.clear(); a.older.clear(); v.push(a); }
    v.push(DAssets::default());
    v.dedup();
    v.truncate(cap);
    v
}

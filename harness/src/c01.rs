//! C01: every satisfaction the library returns spends the output (miniscript level here;
//! descriptor wrappers are added in `desc.rs`).
use crate::ast::{self, CtxK};
use crate::common::{Out, Rng};
use crate::msops::{self, Assets};
use crate::desc::{self, DAssets, TxSat, Wrap};
use miniscript::bitcoin::{PublicKey, ScriptBuf};
use miniscript::{Descriptor, Satisfier};
use crate::with_ctx;
use miniscript::miniscript::types::Base;

pub fn run(out: &mut Out, thorough: bool, seed: u64) {
    let mut rng = Rng(seed ^ 0xC01);
    ast::emit_defs(out);
    msops::emit_sig_defs(out);
    let mut n_frag = 0u64;
    for ctx in CtxK::ALL {
        let atoms = ast::default_atoms(ctx, !thorough);
        let frags = ast::enumerate(ctx, &atoms, if thorough { 4 } else { 3 }, if thorough { 100 } else { 30 }, &mut rng);
        for t in frags.iter().filter(|t| t.base == Base::B) {
            n_frag += 1;
            t.node.count_frags(out);
            let subsets = msops::asset_subsets(&t.node, if thorough { 64 } else { 12 });
            for a in &subsets {
                for mall in [false, true] {
                    with_ctx!(ctx, emit_sat(out, ctx, &t.node, a, mall));
                }
            }
        }
        // raw key-hash fragments (only reachable by decoding a script / from_ast): the
        // satisfier's raw_pkh arm and the lookup_raw_pkh_* hooks
        if ctx != CtxK::Bare {
            use ast::Node::*;
            let b = if ctx == CtxK::Tap { 200 } else { 0 };
            let bx = |n: ast::Node| Box::new(n);
            let rp = |h: u32| Check(bx(RawPkH(b + h)));
            let pk = |i: u32| Check(bx(PkK(b + i)));
            let corpus = vec![
                rp(0),
                OrD(bx(rp(0)), bx(pk(1))),
                OrD(bx(pk(1)), bx(rp(0))),
                AndV(bx(Verify(bx(rp(0)))), bx(pk(1))),
                AndB(bx(rp(0)), bx(Alt(bx(rp(1))))),
                OrB(bx(rp(0)), bx(Alt(bx(pk(1))))),
                OrI(bx(rp(0)), bx(rp(1))),
                AndOr(bx(rp(0)), bx(pk(1)), bx(pk(2))),
                AndOr(bx(pk(1)), bx(rp(0)), bx(rp(2))),
                Thresh(1, vec![rp(0), Alt(bx(pk(1))), Alt(bx(rp(2)))]),
                Thresh(2, vec![rp(0), Alt(bx(pk(1))), Alt(bx(rp(2)))]),
                NonZero(bx(rp(0))),
                OrD(bx(NonZero(bx(rp(0)))), bx(pk(1))),
            ];
            for node in corpus {
                n_frag += 1;
                node.count_frags(out);
                out.count("raw_pkh corpus");
                for a in msops::asset_subsets(&node, 64) {
                    for mall in [false, true] {
                        with_ctx!(ctx, emit_sat(out, ctx, &node, &a, mall));
                    }
                }
            }
        }
        // designated input classes the small-atom enumeration does not reach
        for node in ast::dimension_corpus(ctx) {
            n_frag += 1;
            node.count_frags(out);
            out.count("dimension corpus");
            for a in msops::asset_subsets(&node, if thorough { 64 } else { 24 }) {
                for mall in [false, true] {
                    with_ctx!(ctx, emit_sat(out, ctx, &node, &a, mall));
                }
            }
        }
        // wrapper / cast towers in positions where the tower itself is EXECUTED DISSATISFIED
        // (or_d / or_b / andor / thresh left operand), with assets forcing both outcomes
        for node in tower_dissat_corpus(ctx) {
            if !thorough && !matches!(ctx, CtxK::Segwitv0 | CtxK::Tap) { break; }
            n_frag += 1;
            node.count_frags(out);
            out.count("tower-dissat corpus");
            for a in forced_assets(&node) {
                for mall in [false, true] {
                    with_ctx!(ctx, emit_sat(out, ctx, &node, &a, mall));
                }
            }
        }
        // random larger scripts
        let n_rand = if thorough { 400 } else { 60 };
        for _ in 0..n_rand {
            let sz = 12 + rng.below(30);
            if let Some(node) = ast::random_b(ctx, &mut rng, sz) {
                n_frag += 1;
                node.count_frags(out);
                for a in msops::asset_subsets(&node, 6) {
                    for mall in [false, true] {
                        with_ctx!(ctx, emit_sat(out, ctx, &node, &a, mall));
                    }
                }
            }
        }
    }
    // ---- descriptor level: real transactions, real sighashes, Lean `verifySpend` judge
    let mut n_desc = 0u64;
    for (ctx, wraps) in [(CtxK::Segwitv0, vec![Wrap::Wsh, Wrap::ShWsh]), (CtxK::Legacy, vec![Wrap::Sh]), (CtxK::Bare, vec![Wrap::Bare])] {
        let atoms = ast::default_atoms(ctx, !thorough);
        let frags = ast::enumerate(ctx, &atoms, if thorough { 4 } else { 3 }, if thorough { 60 } else { 14 }, &mut rng);
        for t in frags.iter().filter(|t| t.base == Base::B) {
            for w in &wraps {
                let mk = || desc::build_desc(*w, &t.node, 0);
                if mk().is_some() {
                    n_desc += 1;
                    for a in dassets_subsets(&[&t.node], if thorough { 16 } else { 5 }) {
                        for mall in [false, true] { routes_and_judge(out, &mk, &a, mall); }
                    }
                }
            }
        }
    }
    for (ctx, wraps) in [(CtxK::Segwitv0, vec![Wrap::Wsh, Wrap::ShWsh]), (CtxK::Legacy, vec![Wrap::Sh]), (CtxK::Bare, vec![Wrap::Bare])] {
        // the tower-dissat corpus through one wrapper per context with the forcing asset sets
        for node in tower_dissat_corpus(ctx) {
            if ctx == CtxK::Bare && !thorough { break; }
            let w = wraps[0];
            let mk = || desc::build_desc(w, &node, 0);
            if mk().is_some() {
                n_desc += 1;
                out.count("descriptor routes: tower-dissat corpus");
                for a in designated_dassets(&[&node], 3) {
                    for mall in [false, true] { routes_and_judge(out, &mk, &a, mall); }
                }
            }
        }
        let corpus = ast::dimension_corpus(ctx);
        for node in corpus {
            for w in &wraps {
                let mk = || desc::build_desc(*w, &node, 0);
                if mk().is_some() {
                    n_desc += 1;
                    out.count("descriptor routes: designated corpus");
                    for a in designated_dassets(&[&node], if thorough { 16 } else { 8 }) {
                        for mall in [false, true] { routes_and_judge(out, &mk, &a, mall); }
                    }
                }
            }
        }
    }
    for w in [Wrap::Pkh, Wrap::Wpkh, Wrap::ShWpkh] {
        // both parities, and the uncompressed encodings (legal in pkh only: the others refuse)
        for key in [0u32, 1, 8, 9, 100, 101, 103] {
            let mk = || desc::build_desc(w, &ast::Node::True, key);
            if mk().is_some() {
                n_desc += 1;
                for has in [true, false] {
                    let mut a = DAssets::default();
                    if has { a.keys.insert(key % 100); }
                    for mall in [false, true] { routes_and_judge(out, &mk, &a, mall); }
                }
            }
        }
    }
    // taproot: key path, single leaf, small trees
    {
        let ctx = CtxK::Tap;
        let atoms = ast::default_atoms(ctx, !thorough);
        let frags: Vec<ast::Typed> = ast::enumerate(ctx, &atoms, if thorough { 3 } else { 2 }, if thorough { 30 } else { 10 }, &mut rng)
            .into_iter().filter(|t| t.base == Base::B).collect();
        for ik in [3u32, 0] { let mk = || desc::build_tr(ik, &[]); if mk().is_some() {
            for tk in [true, false] {
                let mut a = DAssets::default(); a.tapkey = tk;
                for sa in [false, true] { a.schnorr_all = sa; for mall in [false, true] { routes_and_judge(out, &mk, &a, mall); } }
            }
        } }
        // tr leaves from the designated corpus too (full keys of both parities in the leaves)
        {
            let corpus: Vec<ast::Node> = ast::dimension_corpus(ctx);
            for n in tower_dissat_corpus(ctx) {
                let leaves = vec![n.clone()];
                let mk = || desc::build_tr_shaped(3, &leaves, 0);
                if mk().is_some() {
                    n_desc += 1;
                    out.count("descriptor routes: tower-dissat corpus in tr");
                    for a in designated_dassets(&[&n], 3) { for mall in [false, true] { routes_and_judge(out, &mk, &a, mall); } }
                }
            }
            let filler = ast::Node::Check(Box::new(ast::Node::PkK(205)));
            for (j, n) in corpus.iter().enumerate() {
                // the designated leaf at depth 0 (only leaf), 1 (right comb of two) and 2 (balanced
                // tree of three, last position); the other leaves need key 205, which the assets never hold,
                // so the designated leaf is the one that gets spent
                for (ik, leaves, shape) in [(3u32, vec![n.clone()], 0u8), (0, vec![filler.clone(), n.clone()], 1), (8, vec![filler.clone(), filler.clone(), n.clone()], 2)] {
                    let mk = || desc::build_tr_shaped(ik, &leaves, shape);
                    if mk().is_some() {
                        n_desc += 1;
                        out.count(&format!("descriptor routes: designated corpus in tr at depth {}", shape));
                        for mut a in designated_dassets(&[n], if thorough { 8 } else { 3 }) {
                            a.schnorr_all = j % 2 == 0;
                            for mall in [false, true] { routes_and_judge(out, &mk, &a, mall); }
                        }
                    }
                }
            }
        }
        let n_tr = if thorough { 1500 } else { 250 };
        for i in 0..n_tr {
            // up to 6 leaves; left comb / right comb / balanced; internal keys of both parities
            // (ids 3, 9 are 02-prefixed, ids 0, 8 are 03-prefixed)
            let nl = 1 + rng.below(if i % 5 == 0 { 6 } else { 4 });
            let leaves: Vec<ast::Node> = (0..nl).map(|_| frags[rng.below(frags.len())].node.clone()).collect();
            let ik = [3u32, 0, 9, 8][i % 4];
            let mk = || desc::build_tr_shaped(ik, &leaves, (i % 3) as u8);
            if mk().is_some() {
                n_desc += 1;
                let refs: Vec<&ast::Node> = leaves.iter().collect();
                for mut a in dassets_subsets(&refs, if thorough { 8 } else { 4 }) {
                    a.tapkey = i % 7 == 0;
                    a.schnorr_all = i % 3 == 0;
                    for mall in [false, true] { routes_and_judge(out, &mk, &a, mall); }
                }
            }
        }
    }
    n_desc += refused_today_corpus(out);
    PSBT_NONE.with(|c| for (i, x) in c.borrow().iter().enumerate() { out.note(&format!("observation psbt-route-none sample {}", i), x.clone()); });
    raw_preimage_channel(out);
    out.note("descriptors", n_desc.to_string());
    out.note("distinct_nontrivial", n_frag.to_string());
    out.note("domain", "miniscript level: all B-typed fragments to depth 2 (thinned) over small atoms in 4 contexts, the designated corpus (ast::dimension_corpus incl. wrapper towers and raw key hashes) and the tower-dissat corpus (towers of wrappers and t:/l:/u: casts as the EXECUTED-DISSATISFIED operand of or_d/or_b/andor/thresh, with assets forcing the tower satisfied and dissatisfied) x asset subsets x {nonmall, mall}; random larger scripts. Descriptor level: every designated script x {wsh, sh(wsh), sh, bare, tr leaf at depth 0/1/2} and pkh/wpkh/sh(wpkh)/tr key path x ROUTES {Descriptor::get_satisfaction{,_mall} on a used, a fresh, an after-failed-call and a cloned object; the inner type's own Bare/Pkh/Wpkh/Wsh/Sh/Tr::get_satisfaction{,_mall}; Descriptor::satisfy(&mut TxIn); into_plan / into_plan_mall -> Plan::satisfy; stock tuple satisfier; PSBT update_input_with_descriptor + finalize_mut / finalize_mall_mut}: every distinct (scriptSig, witness) any route returns is judged by J spend; refused-today corpus (each refused by exactly one rule; judged if ever accepted; the accepted +/-1 neighbours are judged); script-false / number-like 32-byte preimages through sh and bare scriptSigs".into());
}

fn emit_sat<Pk: msops::HKey, Ctx: miniscript::ScriptContext>(out: &mut Out, ctx: CtxK, node: &ast::Node, a: &Assets, mall: bool)
where Assets: miniscript::Satisfier<Pk>
{
    msops::emit_satisfy::<Pk, Ctx>(out, ctx, node, a, mall, true);
}

/// subsets of the descriptor-level assets (full set first, then single removals, then random)
fn dassets_subsets(nodes: &[&ast::Node], cap: usize) -> Vec<DAssets> {
    let full = DAssets::full(nodes);
    let mut v = vec![full.clone()];
    for k in full.keys.iter() { let mut a = full.clone(); a.keys.remove(k); v.push(a); }
    for p in full.pre.iter() { let mut a = full.clone(); a.pre.remove(p); v.push(a); }
    for x in full.after.iter() { let mut a = full.clone(); a.after.remove(x); v.push(a); }
    for x in full.older.iter() { let mut a = full.clone(); a.older.remove(x); v.push(a); }
    { let mut a = full.clone(); a.pre.clear(); v.push(a); }
    { let mut a = full.clone(); a.after.clear(); a.older.clear(); v.push(a); }
    v.push(DAssets::default());
    v.dedup();
    v.truncate(cap);
    v
}


/* ------------------------------------------------------------------ routes (R1, R4) */

type Spend = (Vec<Vec<u8>>, ScriptBuf);

thread_local! { static PSBT_NONE: std::cell::RefCell<Vec<String>> = std::cell::RefCell::new(vec![]); }

fn guard<T>(out: &mut Out, route: &str, info: &str, f: impl FnOnce() -> T) -> Option<T> {
    match std::panic::catch_unwind(std::panic::AssertUnwindSafe(f)) {
        Ok(v) => Some(v),
        Err(_) => { out.line(&format!("J nopanic {} {} PANIC", route, info), "ok"); None }
    }
}

fn direct(d: &Descriptor<PublicKey>, sat: &TxSat, mall: bool) -> Option<Spend> {
    if mall { d.get_satisfaction_mall(sat).ok() } else { d.get_satisfaction(sat).ok() }
}

/// the inner type's own method (what `Descriptor::get_satisfaction*` dispatches to)
fn inner_direct(d: &Descriptor<PublicKey>, sat: &TxSat, mall: bool) -> Option<Spend> {
    match (d, mall) {
        (Descriptor::Bare(x), false) => x.get_satisfaction(sat).ok(),
        (Descriptor::Bare(x), true) => x.get_satisfaction_mall(sat).ok(),
        (Descriptor::Pkh(x), false) => x.get_satisfaction(sat).ok(),
        (Descriptor::Pkh(x), true) => x.get_satisfaction_mall(sat).ok(),
        (Descriptor::Wpkh(x), false) => x.get_satisfaction(sat).ok(),
        (Descriptor::Wpkh(x), true) => x.get_satisfaction_mall(sat).ok(),
        (Descriptor::Wsh(x), false) => x.get_satisfaction(sat).ok(),
        (Descriptor::Wsh(x), true) => x.get_satisfaction_mall(sat).ok(),
        (Descriptor::Sh(x), false) => x.get_satisfaction(sat).ok(),
        (Descriptor::Sh(x), true) => x.get_satisfaction_mall(sat).ok(),
        (Descriptor::Tr(x), false) => x.get_satisfaction(sat).ok(),
        (Descriptor::Tr(x), true) => x.get_satisfaction_mall(sat).ok(),
    }
}

/// Every public route that returns a (witness, scriptSig) for the descriptor built by `mk`
/// (a FRESH object per call), with the same assets and mode; every DISTINCT result of any
/// route is judged by `J spend`.  Returns whether the reference route produced a spend.
pub fn routes_and_judge(out: &mut Out, mk: &dyn Fn() -> Option<Descriptor<PublicKey>>, assets: &DAssets, mall: bool) -> bool {
    let desc = match mk() { Some(d) => d, None => return false };
    let mode = if mall { "mall" } else { "nonmall" };
    let info = format!("{} {} {}", desc, mode, assets.wire());
    // one transaction for every route (its input spends output 1 of a real previous transaction,
    // which the PSBT route needs); `tx_sat_psbt` calls script_pubkey() / spend_info(): from here
    // on `desc` is a USED object
    let (sat, prev) = desc::tx_sat_psbt(&desc, assets);
    let mut results: Vec<(&'static str, Option<Spend>)> = vec![];
    // reference: Descriptor::get_satisfaction{,_mall} on the used object
    let base = match guard(out, "get_satisfaction", &info, || direct(&desc, &sat, mall)) { Some(r) => r, None => return false };
    results.push(("get_satisfaction[used]", base.clone()));
    // R4: the same call as the FIRST thing that happens to a fresh object ...
    if let Some(f) = mk() {
        if let Some(r) = guard(out, "get_satisfaction[fresh]", &info, || direct(&f, &sat, mall)) { results.push(("get_satisfaction[fresh]", r)); }
    }
    // ... after a call that failed (no assets) on a fresh object, and on a clone of the used one
    if let Some(f) = mk() {
        let (empty, _) = desc::tx_sat_psbt(&desc, &DAssets::default());
        let _ = guard(out, "get_satisfaction[no-assets]", &info, || direct(&f, &empty, mall));
        if let Some(r) = guard(out, "get_satisfaction[after-failed-call]", &info, || direct(&f, &sat, mall)) { results.push(("get_satisfaction[after-failed-call]", r)); }
    }
    { let c = desc.clone(); if let Some(r) = guard(out, "get_satisfaction[clone]", &info, || direct(&c, &sat, mall)) { results.push(("get_satisfaction[clone]", r)); } }
    // the inner type's own method, on a fresh object
    if let Some(f) = mk() {
        if let Some(r) = guard(out, "inner-get_satisfaction", &info, || inner_direct(&f, &sat, mall)) { results.push(("inner-type get_satisfaction", r)); }
    }
    // Descriptor::satisfy writes into a TxIn (non-malleable mode only)
    if !mall {
        let mut txin = sat.tx.input[0].clone();
        if let Some(ok) = guard(out, "Descriptor::satisfy", &info, || desc.satisfy(&mut txin, &sat).is_ok()) {
            results.push(("Descriptor::satisfy", if ok { Some((txin.witness.to_vec(), txin.script_sig.clone())) } else { None }));
        }
    }
    // the plan route: into_plan{,_mall} then Plan::satisfy with the same satisfier
    {
        let d2 = desc.clone();
        if let Some(r) = guard(out, "into_plan->Plan::satisfy", &info, || {
            let plan = if mall { d2.into_plan_mall(&sat) } else { d2.into_plan(&sat) };
            match plan { Ok(p) => p.satisfy(&sat).ok(), Err(_) => None }
        }) { results.push(("into_plan->Plan::satisfy", r)); }
    }
    // the library's stock Satisfier impls: (key -> signature map, nSequence, nLockTime) tuple
    if !matches!(desc, Descriptor::Tr(_)) {
        let mut m: std::collections::HashMap<PublicKey, miniscript::bitcoin::ecdsa::Signature> = std::collections::HashMap::new();
        for (id, sig) in &sat.ecdsa {
            for kid in [*id, *id + 100] {
                let pk = ast::full_key(kid);
                sat.issued.borrow_mut().push((pk.to_bytes(), sig.to_vec()));
                m.insert(pk, *sig);
            }
        }
        let stock = (&m, sat.tx.input[0].sequence, sat.tx.lock_time);
        if let Some(r) = guard(out, "get_satisfaction(stock satisfier)", &info, || {
            if mall { desc.get_satisfaction_mall(&stock).ok() } else { desc.get_satisfaction(&stock).ok() }
        }) {
            // the stock satisfier holds no preimages: a `None` here says nothing
            if r.is_some() { results.push(("stock tuple satisfier", r)); }
        }
    }
    // the PSBT route: update_input_with_descriptor + signature / preimage fields + finalize
    if let Some(f) = mk() {
        if let Some(r) = guard(out, "psbt-finalize", &info, || desc::psbt_finalize_route(&f, &sat, &prev, mall)) {
            if r.is_none() && base.is_some() { PSBT_NONE.with(|c| { let mut c = c.borrow_mut(); let d = desc.to_string(); if c.len() < 6 && !c.iter().any(|x| x.starts_with(&d)) { c.push(info.clone()); } }); }
            results.push(("psbt finalize", r));
        }
    }
    // judge every distinct spend once; record how the routes relate to the reference
    let mut judged: Vec<Spend> = vec![];
    for (name, r) in &results {
        match (r, &base) {
            (Some(x), Some(b)) if x == b => out.count(&format!("route {}: same as reference", name)),
            (Some(_), Some(_)) => out.count(&format!("route {}: differs from reference (judged)", name)),
            (Some(_), None) => out.count(&format!("route {}: spend although reference has none (judged)", name)),
            (None, Some(_)) => out.count(&format!("observation: route {} has no spend although reference has one", name)),
            (None, None) => out.count(&format!("route {}: none", name)),
        }
        if let Some(x) = r {
            if !judged.contains(x) {
                judged.push(x.clone());
                let via = if Some(x) == base.as_ref() { info.clone() } else { format!("{} via={}", info, name.replace(' ', "_")) };
                desc::judge_spend(out, &via, &sat, &x.1, &x.0);
            }
        }
    }
    match &base { Some(_) => out.count(&format!("desc sat: {:?}", desc.desc_type())), None => out.count("desc sat: none") }
    base.is_some()
}

/* ------------------------------------------------------------------ assets that force outcomes (R5) */

fn raw_ids(nodes: &[&ast::Node]) -> Vec<u32> { let mut v = vec![]; for n in nodes { n.rawpkhs(&mut v); } v.sort(); v.dedup(); v }

/// `dassets_subsets` plus: raw key hashes known; the two forcing sets "everything except the
/// guard key 7" (the tower must be satisfied) and "only the guard keys 7 / 8" (it must be
/// dissatisfied) FIRST, so that the quick-tier cap cannot cut them
fn designated_dassets(nodes: &[&ast::Node], cap: usize) -> Vec<DAssets> {
    let raws = raw_ids(nodes);
    let mut full = DAssets::full(nodes);
    for h in &raws { full.rawpk.insert(*h); full.keys.insert(*h % 100); }
    let mut v = vec![full.clone()];
    if full.keys.contains(&7) {
        let mut a = full.clone(); a.keys.remove(&7); v.push(a);
        let mut b = DAssets::default(); b.keys.insert(7); if full.keys.contains(&8) { b.keys.insert(8); } b.rawpk = full.rawpk.clone(); v.push(b);
    }
    if !raws.is_empty() {
        // key behind the hash unknown; key known but no signature for it
        let mut a = full.clone(); a.rawpk.clear(); v.push(a);
        let mut b = full.clone(); for h in &raws { b.keys.remove(&(*h % 100)); } v.push(b);
    }
    for a in dassets_subsets(nodes, cap) {
        let mut a = a; a.rawpk = full.rawpk.clone();
        if !v.contains(&a) { v.push(a); }
    }
    v.truncate(cap);
    v
}

/// miniscript-level forcing sets for a tower-dissat script: everything; everything but the
/// guard key; only the guard keys
fn forced_assets(node: &ast::Node) -> Vec<Assets> {
    let full = Assets::full(node);
    let guard = |k: &u32| *k % 100 == 7 || *k % 100 == 8;
    let mut no7 = full.clone();
    no7.ecdsa.retain(|k| *k % 100 != 7); no7.schnorr.retain(|k, _| *k % 100 != 7);
    let mut only = Assets::default();
    only.ecdsa = full.ecdsa.iter().cloned().filter(|k| guard(k)).collect();
    only.schnorr = full.schnorr.iter().filter(|(k, _)| guard(k)).map(|(k, v)| (*k, *v)).collect();
    only.rawpk = full.rawpk.clone();
    let mut v = vec![full, no7, only];
    v.dedup();
    v
}

/// Towers of one or two wrappers / casts (`a: s: c: d: v: j: n:` and `t:X = and_v(X,1)`,
/// `l:X = or_i(0,X)`, `u:X = or_i(X,0)`) over every atom kind, embedded where the tower is
/// EXECUTED and DISSATISFIED when the guard key 7 signs: left operand of or_d / or_b / andor /
/// thresh (B towers), right operand of or_b / thresh (W towers).  `ast::wrapper_towers` embeds
/// B towers only as `T`, `and_v(v:pk,T)` and `or_d(pk,T)`, where a B tower is never executed
/// dissatisfied.
pub fn tower_dissat_corpus(ctx: CtxK) -> Vec<ast::Node> {
    use ast::Node::*;
    use ast::HK;
    let tap = ctx == CtxK::Tap;
    let b = if tap { 200 } else { 0 };
    let bx = |n: ast::Node| Box::new(n);
    let pk = |i: u32| Check(bx(PkK(b + i)));
    let atoms: Vec<ast::Node> = vec![
        PkK(b), PkH(b), pk(0), Check(bx(PkH(b))),
        if tap { MultiA(1, vec![b, b + 1]) } else { Multi(1, vec![b, b + 1]) },
        Hash(HK::Sha256, 0), Older(10), After(100), True, False,
        Thresh(1, vec![pk(0), Swap(bx(pk(1)))]),
        AndV(bx(Verify(bx(pk(0)))), bx(pk(1))),
    ];
    let wrap = |w: u8, x: ast::Node| -> ast::Node {
        match w {
            0 => Alt(bx(x)), 1 => Swap(bx(x)), 2 => Check(bx(x)), 3 => DupIf(bx(x)), 4 => Verify(bx(x)),
            5 => NonZero(bx(x)), 6 => ZeroNotEqual(bx(x)),
            7 => AndV(bx(x), bx(True)),            // t:
            8 => OrI(bx(False), bx(x)),            // l:
            _ => OrI(bx(x), bx(False)),            // u:
        }
    };
    let ok = |n: &ast::Node| -> Option<Base> { with_ctx!(ctx, base_of(n)) };
    let mut out: Vec<ast::Node> = vec![];
    let mut seen = std::collections::BTreeSet::new();
    let mut rot = 0usize;
    for a in &atoms {
        for w1 in 0..10u8 {
            let x1 = wrap(w1, a.clone());
            if ok(&x1).is_none() { continue; }
            let mut tops = vec![x1.clone()];
            for w2 in 0..10u8 { let x2 = wrap(w2, x1.clone()); if ok(&x2).is_some() { tops.push(x2); } }
            for t in tops {
                let emb: Vec<ast::Node> = match ok(&t) {
                    Some(Base::B) => vec![
                        OrD(bx(t.clone()), bx(pk(7))),
                        OrB(bx(t.clone()), bx(Alt(bx(pk(7))))),
                        AndOr(bx(t.clone()), bx(pk(8)), bx(pk(7))),
                        Thresh(1, vec![t.clone(), Swap(bx(pk(7)))]),
                        OrC(bx(t.clone()), bx(Verify(bx(pk(7))))),
                    ],
                    Some(Base::W) => vec![OrB(bx(pk(7)), bx(t.clone())), Thresh(1, vec![pk(7), t.clone()]), Thresh(2, vec![pk(7), t.clone(), Swap(bx(pk(8)))])],
                    _ => vec![],
                };
                // one embedding per tower, rotating through the embeddings that type-check
                let cands: Vec<ast::Node> = emb.into_iter()
                    .map(|e| if ok(&e) == Some(Base::V) { AndV(bx(e), bx(True)) } else { e })   // or_c yields V: close it with `1`
                    .filter(|e| ok(e) == Some(Base::B)).collect();
                if !cands.is_empty() {
                    let e = cands[rot % cands.len()].clone();
                    rot += 1;
                    if seen.insert(e.wire()) { out.push(e); }
                }
            }
        }
    }
    out
}

fn base_of<Pk: ast::KeyOf, Ctx: miniscript::ScriptContext>(n: &ast::Node) -> Option<Base> {
    ast::to_ms::<Pk, Ctx>(n).ok().map(|m| m.ty.corr.base)
}

/* ------------------------------------------------------------------ refused today (R2) */

/// Descriptors that the constructors refuse TODAY for exactly one reason each, next to their
/// accepted neighbours.  Whatever is accepted goes through all routes and `J spend` with full
/// assets: a rule that starts letting one of the refused ones through produces judged spends.
fn refused_today_corpus(out: &mut Out) -> u64 {
    use ast::Node::*;
    let bx = |n: ast::Node| Box::new(n);
    let pk = |i: u32| Check(bx(PkK(i)));
    let v = |n: ast::Node| Verify(bx(n));
    // and_v(v:pk(0),and_v(v:pk(1), ... pk(m-1))): m CHECKSIG(VERIFY) opcodes, 35 bytes each
    let chain = |m: u32| -> ast::Node {
        let mut n = pk((m - 1) % 10);
        for i in (0..m - 1).rev() { n = AndV(bx(v(pk(i % 10))), bx(n)); }
        n
    };
    // and_v(v:after(1), ... and_v(v:after(1), tail)): `1 CLTV VERIFY` = 2 counted opcodes and no
    // witness item per link
    let ops = |t: u32, tail: ast::Node| -> ast::Node {
        let mut n = tail;
        for _ in 0..t { n = AndV(bx(v(After(1))), bx(n)); }
        n
    };
    let cases: Vec<(&str, bool, Wrap, ast::Node)> = vec![
        // (class, expected accepted today, wrapper, script)
        ("wsh: 201 opcodes (limit)", true, Wrap::Wsh, ops(100, pk(0))),
        ("wsh: 202 opcodes (limit+1)", false, Wrap::Wsh, ops(100, ZeroNotEqual(bx(pk(0))))),
        ("sh-wsh: 201 opcodes (limit)", true, Wrap::ShWsh, ops(100, pk(0))),
        ("sh-wsh: 202 opcodes (limit+1)", false, Wrap::ShWsh, ops(100, ZeroNotEqual(bx(pk(0))))),
        ("sh: 201 opcodes (limit)", true, Wrap::Sh, ops(100, pk(0))),
        ("sh: 202 opcodes (limit+1)", false, Wrap::Sh, ops(100, ZeroNotEqual(bx(pk(0))))),
        ("bare: 202 opcodes", false, Wrap::Bare, ops(100, ZeroNotEqual(bx(pk(0))))),
        ("sh: redeem script 490 bytes (<= 520)", true, Wrap::Sh, chain(14)),
        ("sh: redeem script 525 bytes (> 520)", false, Wrap::Sh, chain(15)),
        ("wsh: 100 stack items + script (Core's P2WSH standardness limit)", true, Wrap::Wsh, chain(100)),
        // Wsh::new enforces the consensus limits only; the 100-item limit is `sanity_check` / policy.
        // verifySpend does not model that policy limit either: recorded as an observation
        ("wsh: 101 stack items + script (over the standardness limit, accepted by the constructor)", true, Wrap::Wsh, chain(101)),
        ("wsh: uncompressed key", false, Wrap::Wsh, pk(100)),
        ("sh-wsh: uncompressed key", false, Wrap::ShWsh, AndV(bx(v(pk(0))), bx(pk(101)))),
        ("wsh: uncompressed key in pk_h", false, Wrap::Wsh, Check(bx(PkH(100)))),
        ("wsh: uncompressed key in multi", false, Wrap::Wsh, Multi(1, vec![0, 100])),
        ("wsh: multi_a outside tapscript", false, Wrap::Wsh, MultiA(1, vec![0, 1])),
        ("sh: multi_a outside tapscript", false, Wrap::Sh, MultiA(1, vec![0, 1])),
        ("wsh: multi with 20 keys (limit)", true, Wrap::Wsh, Multi(2, (0..20).map(|i| i % 10).collect())),
        ("wsh: multi with 21 keys (limit+1)", false, Wrap::Wsh, Multi(2, (0..21).map(|i| i % 10).collect())),
        ("wsh: top level K", false, Wrap::Wsh, PkK(0)),
        ("wsh: top level V", false, Wrap::Wsh, v(pk(0))),
        ("wsh: top level W", false, Wrap::Wsh, Alt(bx(pk(0)))),
        ("sh: top level V", false, Wrap::Sh, v(pk(0))),
        ("bare: top level K", false, Wrap::Bare, PkK(0)),
        ("wsh: after(0)", false, Wrap::Wsh, AndV(bx(v(pk(0))), bx(After(0)))),
        ("wsh: after(2^31)", false, Wrap::Wsh, AndV(bx(v(pk(0))), bx(After(0x8000_0000)))),
        ("wsh: after(2^31-1) (limit)", true, Wrap::Wsh, AndV(bx(v(pk(0))), bx(After(0x7fff_ffff)))),
        ("wsh: older(0)", false, Wrap::Wsh, AndV(bx(v(pk(0))), bx(Older(0)))),
        ("wsh: older(2^31)", false, Wrap::Wsh, AndV(bx(v(pk(0))), bx(Older(0x8000_0000)))),
        ("wsh: thresh k=0", false, Wrap::Wsh, Thresh(0, vec![pk(0), Swap(bx(pk(1)))])),
        ("wsh: thresh k>n", false, Wrap::Wsh, Thresh(3, vec![pk(0), Swap(bx(pk(1)))])),
        ("wsh: multi k=0", false, Wrap::Wsh, Multi(0, vec![0, 1])),
        ("wsh: multi k>n", false, Wrap::Wsh, Multi(3, vec![0, 1])),
        ("wsh: thresh child not d", false, Wrap::Wsh, Thresh(1, vec![pk(0), Swap(bx(AndV(bx(v(pk(1))), bx(True))))])),
        ("wsh: or_d left not u (d:v:1 outside tapscript)", false, Wrap::Wsh, OrD(bx(DupIf(bx(v(True)))), bx(pk(0)))),
        // accepted although insane: judged like everything else
        ("wsh: repeated key (insane, accepted)", true, Wrap::Wsh, OrD(bx(pk(0)), bx(AndV(bx(v(Check(bx(PkH(0))))), bx(Older(10)))))),
        ("wsh: mixed lock units (insane, accepted)", true, Wrap::Wsh, AndV(bx(v(pk(0))), bx(AndV(bx(v(After(100))), bx(After(500_000_001)))))),
        ("wsh: mixed relative lock units (insane, accepted)", true, Wrap::Wsh, AndV(bx(v(pk(0))), bx(AndV(bx(v(Older(10))), bx(Older(4_194_305)))))),
        ("wsh: sigless branch (insane, accepted)", true, Wrap::Wsh, OrI(bx(pk(0)), bx(Older(10)))),
    ];
    let mut n = 0u64;
    for (class, expect, w, node) in cases {
        let mk = || desc::build_desc(w, &node, 0);
        match mk() {
            None => {
                out.count(&format!("refused-today corpus: refused: {}", class));
                if expect { out.count(&format!("observation: refused-today corpus: expected-accepted neighbour is refused: {}", class)); }
            }
            Some(_) => {
                n += 1;
                out.count(&format!("refused-today corpus: {}: {}", if expect { "accepted neighbour (judged)" } else { "ACCEPTED although refused at design time (judged)" }, class));
                let full = designated_dassets(&[&node], 3);
                for a in full.iter().take(2) { for mall in [false, true] { routes_and_judge(out, &mk, a, mall); } }
            }
        }
    }
    // key-only wrappers and taproot
    for (class, expect, w, key) in [("wpkh: uncompressed key", false, Wrap::Wpkh, 100u32), ("sh-wpkh: uncompressed key", false, Wrap::ShWpkh, 101), ("pkh: uncompressed key (legal)", true, Wrap::Pkh, 100)] {
        let mk = || desc::build_desc(w, &ast::Node::True, key);
        match mk() {
            None => out.count(&format!("refused-today corpus: refused: {}", class)),
            Some(_) => {
                n += 1;
                out.count(&format!("refused-today corpus: {}: {}", if expect { "accepted neighbour (judged)" } else { "ACCEPTED although refused at design time (judged)" }, class));
                let mut a = DAssets::default(); a.keys.insert(key % 100);
                for mall in [false, true] { routes_and_judge(out, &mk, &a, mall); }
            }
        }
    }
    let tleaf = |i: u32| Check(bx(PkK(200 + i)));
    for (class, expect, leaves) in [
        ("tr: multi in a leaf", false, vec![Multi(1, vec![200, 201])]),
        ("tr: leaf of type V", false, vec![v(tleaf(0))]),
        ("tr: leaf at depth 128 (limit)", true, { let mut l: Vec<ast::Node> = (0..128).map(|i| tleaf(5 + (i % 2))).collect(); l.push(tleaf(0)); l.reverse(); l }),
        ("tr: leaf at depth 129 (limit+1)", false, { let mut l: Vec<ast::Node> = (0..129).map(|i| tleaf(5 + (i % 2))).collect(); l.push(tleaf(0)); l.reverse(); l }),
    ] {
        // left comb: the FIRST leaf ends up deepest
        let mk = || desc::build_tr(3, &leaves);
        match mk() {
            None => { out.count(&format!("refused-today corpus: refused: {}", class)); if expect { out.count(&format!("observation: refused-today corpus: expected-accepted neighbour is refused: {}", class)); } }
            Some(_) => {
                n += 1;
                out.count(&format!("refused-today corpus: {}: {}", if expect { "accepted neighbour (judged)" } else { "ACCEPTED although refused at design time (judged)" }, class));
                let mut a = DAssets::default(); a.keys.insert(0);   // only the deepest leaf's key: that leaf is spent
                for mall in [false, true] { routes_and_judge(out, &mk, &a, mall); }
            }
        }
    }
    n
}

/* ------------------------------------------------------------------ raw channel (R3) */

struct OnePreimage(miniscript::bitcoin::hashes::sha256::Hash, [u8; 32]);
impl Satisfier<PublicKey> for OnePreimage {
    fn lookup_sha256(&self, h: &miniscript::bitcoin::hashes::sha256::Hash) -> Option<[u8; 32]> { if *h == self.0 { Some(self.1) } else { None } }
}

/// `util::witness_to_scriptsig` is only reachable through typed satisfier data (DER signatures
/// >= 9 bytes, 33/65-byte keys, 32-byte preimages, `[]`, `[1]`): elements of 1..4 bytes other than
/// `[1]` cannot be produced through the public API.  What CAN be chosen freely is the content of
/// a 32-byte preimage: script-false and number-like ones (all zero, negative zero at either end,
/// a leading 0x01 / 0x81, all 0xff) go through sh / bare scriptSigs and wsh witnesses here.
fn raw_preimage_channel(out: &mut Out) {
    use miniscript::bitcoin::hashes::{sha256, Hash};
    use std::str::FromStr;
    let mut pres: Vec<[u8; 32]> = vec![[0u8; 32], [0xff; 32]];
    for (pos, val) in [(31usize, 0x80u8), (0, 0x80), (0, 0x01), (0, 0x81), (31, 0x01)] { let mut p = [0u8; 32]; p[pos] = val; pres.push(p); }
    let k0 = ast::full_key(0);
    let k1 = ast::full_key(1);
    for p in pres {
        let h = sha256::Hash::hash(&p);
        for tmpl in ["sh(and_v(v:pk(K0),sha256(H)))", "wsh(and_v(v:pk(K0),sha256(H)))", "sh(wsh(and_v(v:pk(K0),sha256(H))))",
                     "sh(or_d(pk(K1),and_v(v:pk(K0),sha256(H))))", "sh(thresh(2,pk(K0),s:pk(K1),a:sha256(H)))"] {
            let text = tmpl.replace("K0", &k0.to_string()).replace("K1", &k1.to_string()).replace("H", &h.to_string());
            let d = match Descriptor::<PublicKey>::from_str(&text) { Ok(d) => d, Err(_) => { out.count("raw preimage channel: descriptor refused"); continue; } };
            let mut a = DAssets::default(); a.keys.insert(0);
            let sat = desc::tx_sat_for(&d, &a);
            let hm = OnePreimage(h, p);
            for mall in [false, true] {
                let both = (&sat, &hm);
                let info = format!("{} {} preimage={}", d, if mall { "mall" } else { "nonmall" }, ast::hex(&p));
                let r = guard(out, "get_satisfaction(raw preimage)", &info, || if mall { d.get_satisfaction_mall(&both).ok() } else { d.get_satisfaction(&both).ok() });
                match r {
                    Some(Some((w, ss))) => { out.count("raw preimage channel: spend (judged)"); desc::judge_spend(out, &info, &sat, &ss, &w); }
                    Some(None) => out.count("observation: raw preimage channel: no spend"),
                    None => {}
                }
            }
        }
    }
}

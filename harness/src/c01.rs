//! C01: every satisfaction the library returns spends the output (miniscript level here;
//! descriptor wrappers are added in `desc.rs`).
use crate::ast::{self, CtxK};
use crate::common::{Out, Rng};
use crate::msops::{self, Assets};
use crate::with_ctx;
use miniscript::miniscript::types::Base;

pub fn run(out: &mut Out, thorough: bool, seed: u64) {
    let mut rng = Rng(seed ^ 0xC01);
    ast::emit_defs(out);
    msops::emit_sig_defs(out);
    let mut n_frag = 0u64;
    for ctx in CtxK::ALL {
        let atoms = ast::default_atoms(ctx, !thorough);
        let frags = ast::enumerate(ctx, &atoms, if thorough { 4 } else { 3 }, if thorough { 100 } else { 30 }, &mut rng);
        for t in frags.iter().filter(|t| t.base == Base::B) {
            n_frag += 1;
            t.node.count_frags(out);
            let subsets = msops::asset_subsets(&t.node, if thorough { 64 } else { 12 });
            for a in &subsets {
                for mall in [false, true] {
                    with_ctx!(ctx, emit_sat(out, ctx, &t.node, a, mall));
                }
            }
        }
        // random larger scripts
        let n_rand = if thorough { 400 } else { 60 };
        for _ in 0..n_rand {
            let sz = 12 + rng.below(30);
            if let Some(node) = ast::random_b(ctx, &mut rng, sz) {
                n_frag += 1;
                node.count_frags(out);
                for a in msops::asset_subsets(&node, 6) {
                    for mall in [false, true] {
                        with_ctx!(ctx, emit_sat(out, ctx, &node, &a, mall));
                    }
                }
            }
        }
    }
    out.note("distinct_nontrivial", n_frag.to_string());
    out.note("domain", "all B-typed fragments to depth 2 (thinned) over small atoms in 4 contexts x asset subsets x {nonmall, mall}; random larger scripts".into());
}

fn emit_sat<Pk: msops::HKey, Ctx: miniscript::ScriptContext>(out: &mut Out, ctx: CtxK, node: &ast::Node, a: &Assets, mall: bool)
where Assets: miniscript::Satisfier<Pk>
{
    msops::emit_satisfy::<Pk, Ctx>(out, ctx, node, a, mall, true);
}

//! C15: taproot outputs commit to exactly the described script tree.
//!
//! For every generated tree SHAPE (all shapes with few leaves, left/right combs and random
//! caterpillars up to depth 128, random bushy trees, too-deep trees) real `Tr`/`TapTree`
//! objects are built through BOTH public constructors (`TapTree::combine` bottom-up, and
//! `Tr::from_str`, which drives the private `TapTreeBuilder`), then
//!   C tapcombine / tapbuild / tapfmt / taproot   the Lean model answers the same question;
//!   J depthspec / fmtspec / merklespec           the Lean SPECIFICATION judges the library's output;
//!   J rustoracle <name>                          oracles inside rust-bitcoin (not code under test):
//!        ControlBlock::verify_taproot_commitment, tap_tweak of an independently computed root,
//!        bitcoin::taproot::TaprootBuilder, plus structural round trips.
//!   J trcommit / trwitness / traddr / trleafpk / trdepthlimit   byte-level judges: the Lean BIP341
//!        specification over real SHA-256 (Spec/Bip341.lean) recomputes root and sibling paths and checks
//!        every serialized control block, the pair chosen by `get_satisfaction`, scriptPubKey and Bech32m
//!        address on every network (Spec/Bech32m.lean), the x-only conversion of full keys in leaves,
//!        and the depth limit.
//! Input classes besides shapes: trees with REPEATED leaf scripts (labels; `taprootl`/`merklespecl`),
//! x-only keys, full 33-byte keys of both parities (shared table `ast::full_key`), xpub-derived
//! wildcard keys (through `derived_descriptor` and through `at_derivation_index`).
//! Hashes: the harness hashes every subtree of the SHAPE itself with rust-bitcoin
//! (`TapLeafHash::from_script`, `TapNodeHash::from_node_hashes`) and prints the library's merkle
//! root / control-block entries as TERMS by reverse lookup in that table; an entry that is not the
//! hash of a subtree prints as `?`.  Leaves are pairwise distinct, so the lookup is unambiguous.
use std::collections::HashMap;
use std::panic::{catch_unwind, AssertUnwindSafe};
use std::str::FromStr;
use std::sync::Arc;

use miniscript::bitcoin::key::TapTweak;
use miniscript::bitcoin::secp256k1::{Keypair, Secp256k1, SecretKey, XOnlyPublicKey};
use miniscript::bitcoin::taproot::{LeafVersion, TapLeafHash, TapNodeHash, TaprootBuilder};
use miniscript::bitcoin::{Network, ScriptBuf};
use miniscript::descriptor::{TapTree, Tr};
use miniscript::{translate_hash_clone, translate_hash_fail, Descriptor, Miniscript, Tap, Translator};

use crate::common::{Out, Rng};

type Pk = XOnlyPublicKey;
type Ms = Miniscript<Pk, Tap>;

#[derive(Clone, Debug)]
pub enum Shape {
    Leaf,
    Node(Box<Shape>, Box<Shape>),
}
use Shape::{Leaf, Node};

fn node(l: Shape, r: Shape) -> Shape { Node(Box::new(l), Box::new(r)) }

impl Shape {
    fn n_leaves(&self) -> usize {
        match self { Leaf => 1, Node(l, r) => l.n_leaves() + r.n_leaves() }
    }
    fn height(&self) -> usize {
        match self { Leaf => 0, Node(l, r) => 1 + l.height().max(r.height()) }
    }
    /// `{{0,1},2}`: the canonical text of the shape with leaf ids in pre-order
    fn text(&self, next: &mut usize, out: &mut String) {
        match self {
            Leaf => { out.push_str(&next.to_string()); *next += 1; }
            Node(l, r) => {
                out.push('{'); l.text(next, out); out.push(','); r.text(next, out); out.push('}');
            }
        }
    }
    fn to_text(&self) -> String { let mut s = String::new(); self.text(&mut 0, &mut s); s }
    /// the same with the leaf at position i printed as labels[i]
    fn text_labels(&self, labels: &[usize], next: &mut usize, out: &mut String) {
        match self {
            Leaf => { out.push_str(&labels[*next].to_string()); *next += 1; }
            Node(l, r) => {
                out.push('{'); l.text_labels(labels, next, out); out.push(','); r.text_labels(labels, next, out); out.push('}');
            }
        }
    }
    /// pre-order walk as the parser sees it: I = `{`-node, L = leaf
    fn ops(&self, out: &mut String) {
        match self {
            Leaf => out.push('L'),
            Node(l, r) => { out.push('I'); l.ops(out); r.ops(out); }
        }
    }
    /// depth list computed by the harness itself (for rust-bitcoin's TaprootBuilder)
    fn depths(&self, d: usize, out: &mut Vec<usize>) {
        match self { Leaf => out.push(d), Node(l, r) => { l.depths(d + 1, out); r.depths(d + 1, out); } }
    }
}

/// all shapes with exactly n leaves
fn all_shapes(n: usize, memo: &mut Vec<Vec<Shape>>) -> Vec<Shape> {
    while memo.len() <= n {
        let k = memo.len();
        let mut v = vec![];
        if k == 1 { v.push(Leaf); }
        for i in 1..k {
            for l in memo[i].clone() {
                for r in memo[k - i].iter() { v.push(node(l.clone(), r.clone())); }
            }
        }
        memo.push(v);
    }
    memo[n].clone()
}
fn right_comb(d: usize) -> Shape { let mut s = Leaf; for _ in 0..d { s = node(Leaf, s); } s }
fn left_comb(d: usize) -> Shape { let mut s = Leaf; for _ in 0..d { s = node(s, Leaf); } s }
/// caterpillar of depth d: at each level the spine goes left or right at random; the other
/// child is a small random subtree (height limited so that the total stays <= limit)
fn caterpillar(d: usize, rng: &mut Rng, bushy: bool, limit: usize) -> Shape {
    // build bottom-up: the bottom node sits at depth d-1 and has two leaves at depth d
    let mut s = Leaf;
    for lvl in (0..d).rev() {
        // the side subtree's root is at depth lvl+1; keep lvl+1+height <= limit
        let room = limit.saturating_sub(lvl + 1);
        let side = if bushy && room > 0 && rng.below(4) == 0 {
            random_shape(1 + rng.below(4.min(room + 1)), rng)
        } else { Leaf };
        let side = if side.height() > room { Leaf } else { side };
        s = if rng.coin() { node(s, side) } else { node(side, s) };
    }
    s
}
fn random_shape(n: usize, rng: &mut Rng) -> Shape {
    if n <= 1 { return Leaf; }
    // mix of uniform splits (bushy) and lopsided splits (deep)
    let k = match rng.below(3) {
        0 => 1 + rng.below(n - 1),
        1 => if rng.coin() { 1 } else { n - 1 },
        _ => (n / 2).max(1),
    };
    node(random_shape(k, rng), random_shape(n - k, rng))
}

struct Keys { secp: Secp256k1<miniscript::bitcoin::secp256k1::All>, keys: Vec<Pk>, names: HashMap<Pk, String> }
impl Keys {
    fn new() -> Self { Keys { secp: Secp256k1::new(), keys: vec![], names: HashMap::new() } }
    /// x-only key of secret key (i+1)
    fn key(&mut self, i: usize) -> Pk {
        while self.keys.len() <= i {
            let n = (self.keys.len() + 1) as u64;
            let mut b = [0u8; 32];
            b[24..].copy_from_slice(&n.to_be_bytes());
            let sk = SecretKey::from_slice(&b).unwrap();
            let pk = Keypair::from_secret_key(&self.secp, &sk).x_only_public_key().0;
            self.names.insert(pk, format!("K{}", self.keys.len()));
            self.keys.push(pk);
        }
        self.keys[i]
    }
}

/// leaf script templates over key `k`, distinct for distinct (template, id)
impl Keys { fn get(&self, i: usize) -> Pk { self.keys[i] } }

fn leaf_text(tmpl: usize, k: &str, id: usize) -> String {
    match tmpl {
        0 => format!("pk({})", k),
        1 => format!("and_v(v:pk({}),older({}))", k, id + 1),
        2 => format!("and_v(v:pk({}),after({}))", k, id + 1),
        _ => format!("multi_a(1,{})", k),
    }
}

struct Case {
    shape: Shape,
    text: String,                   // shape with leaf LABELS (= positions unless `dup`)
    pos_text: String,               // shape with leaf positions
    n: usize,
    labels: Vec<usize>,             // position -> label (script identity)
    dup: bool,                      // some label occurs more than once
    force_commit: bool,             // emit the (large) trcommit line whatever its size
    generic_leaves: bool,           // leaves are arbitrary fragments (shared dimension corpus): no renaming oracle
    routes: bool,                   // also judge every other construction route / object state (R1, R4)
    internal_idx: usize,            // index of the internal key in `Keys`
    key_off: usize,                 // label l uses key l + key_off
    desc_reparse: bool,             // Descriptor::from_str accepts the printed descriptor (false: leaves only Tr::from_str accepts)
    leaves: Vec<Arc<Ms>>,           // by position
    tmpl: Vec<usize>,               // by label
    internal: Pk,
    by_script: HashMap<ScriptBuf, usize>,
    by_ms: HashMap<String, usize>,
}

const IK_BASE: usize = 5000; // internal keys are K5000..K5007

fn make_case(shape: Shape, keys: &mut Keys, rng: &mut Rng, vary: bool) -> Case {
    let n = shape.n_leaves();
    let mut leaves = vec![];
    let mut tmpl = vec![];
    let mut by_script = HashMap::new();
    let mut by_ms = HashMap::new();
    for id in 0..n {
        let t = if vary { rng.below(4) } else { 0 };
        let k = keys.key(id);
        let ms = Ms::from_str(&leaf_text(t, &k.to_string(), id)).expect("leaf template parses");
        by_script.insert(ms.encode(), id);
        by_ms.insert(ms.to_string(), id);
        leaves.push(Arc::new(ms));
        tmpl.push(t);
    }
    assert_eq!(by_script.len(), n, "leaf scripts must be pairwise distinct");
    let internal_idx = IK_BASE + rng.below(8);
    let internal = keys.key(internal_idx);
    let text = shape.to_text();
    Case { shape, pos_text: text.clone(), text, n, labels: (0..n).collect(), dup: false, force_commit: false, generic_leaves: false, routes: false, internal_idx, key_off: 0, desc_reparse: true, leaves, tmpl, internal, by_script, by_ms }
}

/// a tree in which the leaf at position i carries script number labels[i] (labels may repeat)
fn make_dup_case(shape: Shape, labels: Vec<usize>, keys: &mut Keys, rng: &mut Rng, vary: bool) -> Case {
    let n = shape.n_leaves();
    assert_eq!(labels.len(), n);
    let n_labels = labels.iter().max().unwrap() + 1;
    let mut scripts = vec![];
    let mut tmpl = vec![];
    let mut by_script = HashMap::new();
    let mut by_ms = HashMap::new();
    for l in 0..n_labels {
        let t = if vary { rng.below(4) } else { 0 };
        let k = keys.key(l);
        let ms = Ms::from_str(&leaf_text(t, &k.to_string(), l)).expect("leaf template parses");
        by_script.insert(ms.encode(), l);
        by_ms.insert(ms.to_string(), l);
        scripts.push(Arc::new(ms));
        tmpl.push(t);
    }
    let leaves = labels.iter().map(|l| scripts[*l].clone()).collect();
    let mut seen = std::collections::HashSet::new();
    let dup = labels.iter().any(|l| !seen.insert(*l));
    let internal_idx = IK_BASE + rng.below(8);
    let internal = keys.key(internal_idx);
    let mut text = String::new();
    shape.text_labels(&labels, &mut 0, &mut text);
    let pos_text = shape.to_text();
    Case { shape, text, pos_text, n, labels, dup, force_commit: false, generic_leaves: false, routes: false, internal_idx, key_off: 0, desc_reparse: true, leaves, tmpl, internal, by_script, by_ms }
}

/// the general constructor: leaf at position i carries label labels[i]; label l uses template
/// tmpl[l] over key number l + key_off; internal key number internal_idx
fn make_case_full(shape: Shape, labels: Vec<usize>, tmpl: Vec<usize>, key_off: usize, internal_idx: usize, keys: &Keys) -> Case {
    let n = shape.n_leaves();
    assert_eq!(labels.len(), n);
    let n_labels = labels.iter().max().unwrap() + 1;
    assert!(tmpl.len() >= n_labels);
    let mut scripts = vec![];
    let mut by_script = HashMap::new();
    let mut by_ms = HashMap::new();
    for l in 0..n_labels {
        let k = keys.get(l + key_off);
        let ms = Ms::from_str(&leaf_text(tmpl[l], &k.to_string(), l)).expect("leaf template parses");
        by_script.insert(ms.encode(), l);
        by_ms.insert(ms.to_string(), l);
        scripts.push(Arc::new(ms));
    }
    let leaves = labels.iter().map(|l| scripts[*l].clone()).collect();
    let mut seen = std::collections::HashSet::new();
    let dup = labels.iter().any(|l| !seen.insert(*l));
    let internal = keys.get(internal_idx);
    let mut text = String::new();
    shape.text_labels(&labels, &mut 0, &mut text);
    let pos_text = shape.to_text();
    Case { shape, text, pos_text, n, labels, dup, force_commit: false, generic_leaves: false, routes: false, internal_idx, key_off,
           desc_reparse: true, leaves, tmpl, internal, by_script, by_ms }
}

/// a tree over arbitrary, pairwise distinct tapscript fragments (by position)
fn make_case_leaves(shape: Shape, leaves: Vec<Arc<Ms>>, keys: &mut Keys, rng: &mut Rng) -> Case {
    let n = shape.n_leaves();
    assert_eq!(leaves.len(), n);
    let mut by_script = HashMap::new();
    let mut by_ms = HashMap::new();
    for (id, ms) in leaves.iter().enumerate() {
        by_script.insert(ms.encode(), id);
        by_ms.insert(ms.to_string(), id);
    }
    assert_eq!(by_script.len(), n, "leaf scripts must be pairwise distinct");
    let internal_idx = IK_BASE + rng.below(8);
    let internal = keys.key(internal_idx);
    let text = shape.to_text();
    Case { shape, pos_text: text.clone(), text, n, labels: (0..n).collect(), dup: false, force_commit: false, generic_leaves: true, routes: false, internal_idx, key_off: 0, desc_reparse: true,
           leaves, tmpl: vec![0; n], internal, by_script, by_ms }
}

/// bottom-up construction through the public `TapTree::combine`
fn build_combine(s: &Shape, c: &Case, next: &mut usize) -> Result<TapTree<Pk>, ()> {
    match s {
        Leaf => { let t = TapTree::leaf(c.leaves[*next].clone()); *next += 1; Ok(t) }
        Node(l, r) => {
            let lt = build_combine(l, c, next)?;
            let rt = build_combine(r, c, next)?;
            TapTree::combine(lt, rt).map_err(|_| ())
        }
    }
}
/// descriptor text `tr(IK,{…})`
fn desc_text(c: &Case) -> String {
    fn go(s: &Shape, c: &Case, next: &mut usize, out: &mut String) {
        match s {
            Leaf => { out.push_str(&c.leaves[*next].to_string()); *next += 1; }
            Node(l, r) => { out.push('{'); go(l, c, next, out); out.push(','); go(r, c, next, out); out.push('}'); }
        }
    }
    let mut s = format!("tr({},", c.internal);
    go(&c.shape, c, &mut 0, &mut s);
    s.push(')');
    s
}

fn depth_ids(t: &TapTree<Pk>, c: &Case) -> String {
    t.leaves()
        .map(|l| format!("{}:{}", l.depth(),
            c.by_ms.get(&l.miniscript().to_string()).map(|i| i.to_string()).unwrap_or("?".into())))
        .collect::<Vec<_>>().join(",")
}
fn depth_only(t: &TapTree<Pk>) -> String {
    t.leaves().map(|l| l.depth().to_string()).collect::<Vec<_>>().join(",")
}

/// hash every subtree of the SHAPE with rust-bitcoin; table hash -> term text
fn hash_shape(s: &Shape, c: &Case, next: &mut usize, table: &mut HashMap<TapNodeHash, String>) -> (TapNodeHash, String) {
    match s {
        Leaf => {
            let script = c.leaves[*next].encode();
            let h = TapNodeHash::from(TapLeafHash::from_script(&script, LeafVersion::TapScript));
            let t = c.labels[*next].to_string();
            *next += 1;
            table.insert(h, t.clone());
            (h, t)
        }
        Node(l, r) => {
            let (hl, tl) = hash_shape(l, c, next, table);
            let (hr, tr) = hash_shape(r, c, next, table);
            let h = TapNodeHash::from_node_hashes(hl, hr);
            // with repeated leaves equal subtrees (up to swapping children) share a hash: print
            // the textually smaller child first, as the driver does for labelled trees
            let t = if c.dup && tr < tl { format!("{{{},{}}}", tr, tl) } else { format!("{{{},{}}}", tl, tr) };
            table.insert(h, t.clone());
            (h, t)
        }
    }
}

fn guard<F: FnOnce() -> String>(f: F) -> String {
    match catch_unwind(AssertUnwindSafe(f)) { Ok(s) => s, Err(_) => "PANIC".into() }
}
fn verdict<F: FnOnce() -> Result<(), String>>(f: F) -> String {
    match catch_unwind(AssertUnwindSafe(f)) {
        Ok(Ok(())) => "pass".into(),
        Ok(Err(e)) => format!("fail:{}", e.replace(' ', "_")),
        Err(_) => "fail:PANIC".into(),
    }
}

struct ToName<'a>(&'a HashMap<Pk, String>);
impl<'a> Translator<Pk> for ToName<'a> {
    type TargetPk = String;
    type Error = ();
    fn pk(&mut self, pk: &Pk) -> Result<String, ()> { self.0.get(pk).cloned().ok_or(()) }
    translate_hash_fail!(Pk);
}
struct FromName<'a>(&'a HashMap<String, Pk>);
impl<'a> Translator<String> for FromName<'a> {
    type TargetPk = Pk;
    type Error = ();
    fn pk(&mut self, pk: &String) -> Result<Pk, ()> { self.0.get(pk).cloned().ok_or(()) }
    translate_hash_fail!(String);
}

/// rust-bitcoin's own TaprootBuilder fed with the harness's depth list: output key, root, every
/// control block, and the library's to_tap_tree conversion
fn btc_builder_verdict(c: &Case, tr: &Tr<Pk>, secp: &Secp256k1<miniscript::bitcoin::secp256k1::All>) -> String {
    verdict(|| {
        let mut ds = vec![];
        c.shape.depths(0, &mut ds);
        let mut b = TaprootBuilder::new();
        for (id, d) in ds.iter().enumerate() {
            b = b.add_leaf(*d as u8, c.leaves[id].encode()).map_err(|e| format!("oracle add_leaf {}", e))?;
        }
        let osi = b.finalize(secp, c.internal).map_err(|_| "oracle finalize".to_string())?;
        let si = tr.spend_info();
        if osi.output_key() != si.output_key() { return Err("output_key differs from TaprootBuilder".into()); }
        if osi.merkle_root() != si.merkle_root() { return Err("merkle_root differs from TaprootBuilder".into()); }
        for (k, leaf) in si.leaves().enumerate() {
            // rust-bitcoin keeps a SET of merkle branches per (script, version): a script that
            // occurs several times has several; the leaf's own branch must be one of them
            let key = (ScriptBuf::from(leaf.script()), LeafVersion::TapScript);
            let set = osi.script_map().get(&key).ok_or(format!("leaf {} unknown to TaprootBuilder", k))?;
            if !set.contains(&leaf.control_block().merkle_branch) { return Err(format!("leaf {} branch not among TaprootBuilder's", k)); }
            if !c.dup {
                let ocb = osi.control_block(&key).ok_or(format!("leaf {} unknown to TaprootBuilder", k))?;
                if &ocb != leaf.control_block() { return Err(format!("leaf {} control block differs", k)); }
            }
        }
        // and the library's own conversion agrees
        let tt = si.to_tap_tree().ok_or("to_tap_tree none".to_string())?;
        // (rust-bitcoin orders the leaves of a combined node by child hash, not left-to-right:
        // compare as sets)
        let mut got: Vec<(u8, ScriptBuf)> = tt.script_leaves().map(|l| (l.merkle_branch().len() as u8, l.script().to_owned())).collect();
        let mut want: Vec<(u8, ScriptBuf)> = ds.iter().enumerate().map(|(id, d)| (*d as u8, c.leaves[id].encode())).collect();
        got.sort(); want.sort();
        if got != want { return Err("to_tap_tree leaves".into()); }
        Ok(())
    })
}

/// everything for one shape of height <= 128
fn run_case(out: &mut Out, c: &Case, keys: &Keys, class: &str) {
    let secp = &keys.secp;
    out.count(&format!("shapes:{}", class));
    out.count(&format!("height:{}", match c.shape.height() { 0..=3 => "0-3", 4..=15 => "4-15", 16..=63 => "16-63", 64..=127 => "64-127", _ => "128" }));
    let shape = &c.text;

    // ---- construction 1: TapTree::combine --------------------------------------------------
    if let (Node(l, r), false) = (&c.shape, c.dup) {
        let mut next = 0;
        let lt = build_combine(l, c, &mut next);
        let rt = build_combine(r, c, &mut next);
        if let (Ok(lt), Ok(rt)) = (lt, rt) {
            let line = format!("C tapcombine {} {}", depth_only(&lt), depth_only(&rt));
            let ans = guard(|| match TapTree::combine(lt.clone(), rt.clone()) {
                Ok(t) => depth_ids(&t, c),
                Err(_) => "ERR".into(),
            });
            out.line(&line, &ans);
        }
    }
    let by_combine = catch_unwind(AssertUnwindSafe(|| build_combine(&c.shape, c, &mut 0))).unwrap_or(Err(()));
    // ---- construction 2: Tr::from_str -> TapTreeBuilder ---------------------------------------
    let dtext = desc_text(c);
    let mut ops = String::new();
    c.shape.ops(&mut ops);
    let parsed = catch_unwind(AssertUnwindSafe(|| Tr::<Pk>::from_str(&dtext)));
    let ans = match &parsed {
        Ok(Ok(tr)) => match tr.tap_tree() { Some(t) => depth_ids(t, c), None => "NOTREE".into() },
        Ok(Err(miniscript::Error::TapTreeDepthError(_))) => "ERR".into(),
        Ok(Err(e)) => format!("ERR:other:{}", e.to_string().replace(' ', "_")),
        Err(_) => "PANIC".into(),
    };
    if !c.dup { out.line(&format!("C tapbuild {}", ops), &ans); }
    // the depth limit, judged by the specification (accept iff height <= 128; never a panic)
    let lim = |s: &str| -> String { if s == "PANIC" { "PANIC".into() } else if s == "ERR" { "ERR".into() } else if s.starts_with("ERR:") { "other".into() } else { "accept".into() } };
    out.line(&format!("J trdepthlimit {} {} {}", c.pos_text, if by_combine.is_ok() { "accept" } else { "ERR" }, lim(&ans)), "ok");

    let tree = match by_combine {
        Ok(t) => t,
        Err(()) => { out.line(&format!("J rustoracle combine-accepts {} fail:combine_rejected_height_{}", shape, c.shape.height()), "ok"); return; }
    };
    // the two constructions must give the same value, and it must be the spec's depth list
    out.line(&format!("J depthspec {} {}", shape, depth_ids(&tree, c)), "ok");
    let tr_parsed = match parsed {
        Ok(Ok(tr)) => tr,
        _ => { out.line(&format!("J rustoracle parse-accepts {} fail:{}", shape, ans.replace(' ', "_")), "ok"); return; }
    };
    if let Some(t) = tr_parsed.tap_tree() {
        out.line(&format!("J depthspec {} {}", shape, depth_ids(t, c)), "ok");
    }
    let tr = match Tr::new(c.internal, Some(tree.clone())) {
        Ok(t) => t,
        Err(e) => { out.line(&format!("J rustoracle tr-new {} fail:{}", shape, e.to_string().replace(' ', "_")), "ok"); return; }
    };
    out.line(&format!("J rustoracle parse-eq-combine {} {}", shape,
        verdict(|| if tr == tr_parsed { Ok(()) } else { Err("Tr::from_str != Tr::new(combine)".into()) })), "ok");

    // ---- Display ---------------------------------------------------------------------------------
    let disp = guard(|| {
        let mut s = tree.to_string();
        // replace each leaf's text by its id (leaf texts are distinct and not substrings of each
        // other because every one contains its own 64-hex key)
        let mut ids: Vec<(&String, &usize)> = c.by_ms.iter().collect();
        ids.sort_by_key(|(m, _)| std::cmp::Reverse(m.len()));
        for (m, id) in ids { s = s.replace(m.as_str(), &id.to_string()); }
        s
    });
    if !c.dup { out.line(&format!("C tapfmt {}", depth_only(&tree)), &disp); }
    out.line(&format!("J fmtspec {} {}", shape, disp), "ok");

    // ---- spend info: merkle root + control blocks as terms ----------------------------------
    let mut table = HashMap::new();
    let (root_hash, _root_term) = hash_shape(&c.shape, c, &mut 0, &mut table);
    let term = |h: &TapNodeHash| table.get(h).cloned().unwrap_or_else(|| "?".into());
    let spend = guard(|| {
        let si = tr.spend_info();
        let mut s = match si.merkle_root() { Some(h) => term(&h), None => "NOROOT".into() };
        for leaf in si.leaves() {
            let id = c.by_script.get(leaf.script()).map(|i| i.to_string()).unwrap_or("?".into());
            let br: Vec<String> = leaf.control_block().merkle_branch.iter().map(|h| term(h)).collect();
            s.push_str(&format!("|{}:{}:{}", leaf.depth(), id, if br.is_empty() { "-".into() } else { br.join("/") }));
        }
        s
    });
    if c.dup {
        let labels = c.labels.iter().map(|l| l.to_string()).collect::<Vec<_>>().join(",");
        out.line(&format!("C taprootl {} {}", depth_only(&tree), labels), &spend);
        out.line(&format!("J merklespecl {} {}", shape, spend), "ok");
    } else {
        out.line(&format!("C taproot {}", depth_only(&tree)), &spend);
        out.line(&format!("J merklespec {} {}", shape, spend), "ok");
    }

    // ---- oracles inside rust-bitcoin -----------------------------------------------------------
    // (1) every control block proves its leaf against the descriptor's real output key
    let v = verdict(|| {
        let si = tr.spend_info();
        let okey = si.output_key().to_inner();
        let mut k = 0;
        for leaf in si.leaves() {
            let cb = leaf.control_block();
            if !cb.verify_taproot_commitment(secp, okey, leaf.script()) {
                return Err(format!("leaf {} control block does not verify", k));
            }
            if cb.internal_key != c.internal { return Err(format!("leaf {} internal key", k)); }
            if cb.output_key_parity != si.output_key_parity() { return Err(format!("leaf {} parity", k)); }
            // the serialized control block parses back
            let ser = cb.serialize();
            if ser.len() != 33 + 32 * leaf.depth() as usize { return Err(format!("leaf {} cb size", k)); }
            k += 1;
        }
        if k != c.n { return Err(format!("{} leaves yielded, {} expected", k, c.n)); }
        Ok(())
    });
    out.line(&format!("J rustoracle cb-verify {} {}", shape, v), "ok");
    // (2) output key = internal key tweaked with the independently computed root
    let v = verdict(|| {
        let si = tr.spend_info();
        let (ok, par) = c.internal.tap_tweak(secp, Some(root_hash));
        if si.merkle_root() != Some(root_hash) { return Err("merkle_root".into()); }
        if si.output_key() != ok { return Err("output_key".into()); }
        if si.output_key_parity() != par { return Err("parity".into()); }
        if si.internal_key() != c.internal { return Err("internal_key".into()); }
        let d = Descriptor::Tr(tr.clone());
        if d.script_pubkey() != ScriptBuf::new_p2tr_tweaked(ok) { return Err("script_pubkey".into()); }
        if tr.address(Network::Bitcoin).script_pubkey() != ScriptBuf::new_p2tr_tweaked(ok) { return Err("address".into()); }
        Ok(())
    });
    out.line(&format!("J rustoracle outkey-tweak {} {}", shape, v), "ok");
    // (3) rust-bitcoin's own TaprootBuilder fed with the harness's depth list
    let v = btc_builder_verdict(c, &tr, secp);
    out.line(&format!("J rustoracle btc-builder {} {}", shape, v), "ok");
    // (4) Tr::leaves / TapTree::leaves / TrSpendInfo::leaves agree (order, depth, script, hash)
    let v = verdict(|| {
        let mut ds = vec![];
        c.shape.depths(0, &mut ds);
        let si = tr.spend_info();
        let a: Vec<_> = tr.leaves().collect();
        let b: Vec<_> = tr.tap_tree().unwrap().leaves().collect();
        let s: Vec<_> = si.leaves().collect();
        if tr.leaves().len() != c.n { return Err("ExactSizeIterator::len".into()); }
        if a.len() != c.n || b.len() != c.n || s.len() != c.n { return Err("leaf count".into()); }
        for i in 0..c.n {
            if a[i].depth() as usize != ds[i] || b[i].depth() as usize != ds[i] || s[i].depth() as usize != ds[i] { return Err(format!("depth of leaf {}", i)); }
            if a[i].miniscript() != &c.leaves[i] || b[i].miniscript() != &c.leaves[i] || s[i].miniscript() != &c.leaves[i] { return Err(format!("miniscript of leaf {}", i)); }
            let script = c.leaves[i].encode();
            if s[i].script() != script.as_script() || a[i].compute_script() != script { return Err(format!("script of leaf {}", i)); }
            let lh = TapLeafHash::from_script(&script, LeafVersion::TapScript);
            if s[i].leaf_hash() != lh || a[i].compute_tap_leaf_hash() != lh { return Err(format!("leaf hash {}", i)); }
        }
        let rev: Vec<_> = tr.leaves().rev().map(|l| l.depth()).collect();
        let mut fwd: Vec<_> = a.iter().map(|l| l.depth()).collect();
        fwd.reverse();
        if rev != fwd { return Err("next_back".into()); }
        Ok(())
    });
    out.line(&format!("J rustoracle leaf-iters {} {}", shape, v), "ok");
    // (5) to_string -> from_str
    let v = verdict(|| {
        let s = tr.to_string();
        let back = Tr::<Pk>::from_str(&s).map_err(|e| format!("reparse {}", e))?;
        if back != tr { return Err("Tr differs after to_string/from_str".into()); }
        let a: Vec<_> = back.leaves().map(|l| (l.depth(), l.miniscript().clone())).collect();
        let b: Vec<_> = tr.leaves().map(|l| (l.depth(), l.miniscript().clone())).collect();
        if a != b { return Err("leaves differ after round trip".into()); }
        if c.desc_reparse {
            let d = Descriptor::<Pk>::from_str(&s).map_err(|e| format!("reparse desc {}", e))?;
            if d != Descriptor::Tr(tr.clone()) { return Err("Descriptor differs after round trip".into()); }
        }
        if back.spend_info().output_key() != tr.spend_info().output_key() { return Err("output key differs after round trip".into()); }
        Ok(())
    });
    out.line(&format!("J rustoracle string-roundtrip {} {}", shape, v), "ok");
    // (6) translate_pk with a renaming, and back
    let v = if c.generic_leaves { "pass".to_string() } else { verdict(|| {
        let named = tr.translate_pk(&mut ToName(&keys.names)).map_err(|_| "translate failed".to_string())?;
        let want_ik = keys.names.get(&c.internal).unwrap();
        if named.internal_key() != want_ik { return Err("internal key name".into()); }
        let mut ds = vec![];
        c.shape.depths(0, &mut ds);
        let got: Vec<(usize, String)> = named.leaves().map(|l| (l.depth() as usize, l.miniscript().to_string())).collect();
        let want: Vec<(usize, String)> = (0..c.n).map(|i| { let l = c.labels[i]; (ds[i], leaf_text(c.tmpl[l], &format!("K{}", l + c.key_off), l)) }).collect();
        if got != want { return Err("leaves after renaming".into()); }
        let inv: HashMap<String, Pk> = keys.names.iter().map(|(k, v)| (v.clone(), *k)).collect();
        let back = named.translate_pk(&mut FromName(&inv)).map_err(|_| "translate back failed".to_string())?;
        if back != tr { return Err("translate there and back".into()); }
        Ok(())
    }) };
    out.line(&format!("J rustoracle translate {} {}", shape, v), "ok");
    // (7) error propagation of translate_pk: a translator whose j-th call keeps the key (k), fails (f)
    // or hands back an uncompressed key, which Tapscript refuses (u); slots: the leaves left to right,
    // then the internal key.  The model (Tap.trTranslate) answers the same question.
    if !c.dup && !c.generic_leaves && c.n <= 6 {
        let mut act_sets: Vec<Vec<u8>> = vec![vec![b'k'; c.n + 1]];
        for j in 0..=c.n { for a in [b'f', b'u'] { let mut v = vec![b'k'; c.n + 1]; v[j] = a; act_sets.push(v); } }
        // two failures of different kinds: the FIRST one in translation order decides
        if c.n >= 1 { for (i, j) in [(0, c.n), (c.n - 1, c.n), (0, c.n - 1)] { if i != j {
            let mut v = vec![b'k'; c.n + 1]; v[i] = b'u'; v[j] = b'f'; act_sets.push(v.clone());
            v[i] = b'f'; v[j] = b'u'; act_sets.push(v);
        } } }
        for acts in act_sets {
            let ans = guard(|| {
                let mut t = ActTranslator { acts: acts.clone(), idx: 0 };
                match tr.translate_pk(&mut t) {
                    Ok(tr2) => {
                        let ds: Vec<String> = tr2.leaves().map(|l| {
                            let id = l.miniscript().iter_pk().next().and_then(|k| keys.names.get(&XOnlyPublicKey::from(k.inner)).cloned()).map(|n| n[1..].to_string()).unwrap_or("?".into());
                            format!("{}:{}", l.depth(), id)
                        }).collect();
                        format!("ok:{}", if ds.is_empty() { "-".to_string() } else { ds.join(",") })
                    }
                    Err(miniscript::TranslateErr::TranslatorErr(())) => "translator-err".into(),
                    Err(miniscript::TranslateErr::OuterError(_)) => "outer-err".into(),
                }
            });
            out.line(&format!("C trtranslate {} {}", depth_only(&tree), String::from_utf8(acts).unwrap()), &ans);
        }
    }

    // ---- byte-level judges: BIP341 commitment, scriptPubKey, addresses ------------------------
    emit_byte_judges(out, secp, &tr, Some(&c.shape), &c.pos_text, c.internal, c.dup || c.force_commit, &AllSigsX, c.generic_leaves);
    if c.routes { run_routes(out, keys, c, &tree, &tr, &dtext); }
}

/// a satisfier that has a (dummy) signature for every key in every leaf and satisfies every
/// timelock, but has no key-spend signature: `get_satisfaction` must take a script path
struct AllSigs;
impl<K: miniscript::MiniscriptKey + miniscript::ToPublicKey> miniscript::Satisfier<K> for AllSigs {
    fn lookup_tap_leaf_script_sig(&self, _: &K, _: &TapLeafHash) -> Option<miniscript::bitcoin::taproot::Signature> {
        Some(miniscript::bitcoin::taproot::Signature {
            signature: miniscript::bitcoin::secp256k1::schnorr::Signature::from_slice(&[0x11; 64]).unwrap(),
            sighash_type: miniscript::bitcoin::TapSighashType::Default,
        })
    }
    fn check_older(&self, _: miniscript::bitcoin::relative::LockTime) -> bool { true }
    fn check_after(&self, _: miniscript::bitcoin::absolute::LockTime) -> bool { true }
}

/// a translator XOnly -> bitcoin::PublicKey scripted per call: keep / fail / uncompressed
struct ActTranslator { acts: Vec<u8>, idx: usize }
impl Translator<Pk> for ActTranslator {
    type TargetPk = miniscript::bitcoin::PublicKey;
    type Error = ();
    fn pk(&mut self, pk: &Pk) -> Result<miniscript::bitcoin::PublicKey, ()> {
        let a = self.acts.get(self.idx).copied().unwrap_or(b'k');
        self.idx += 1;
        let inner = pk.public_key(miniscript::bitcoin::secp256k1::Parity::Even);
        match a {
            b'f' => Err(()),
            b'u' => Ok(miniscript::bitcoin::PublicKey { inner, compressed: false }),
            _ => Ok(miniscript::bitcoin::PublicKey::new(inner)),
        }
    }
    translate_hash_fail!(Pk);
}

/// `AllSigs` for x-only keys, which also knows the shared tables' preimages and raw key hashes
struct AllSigsX;
fn dummy_sig() -> miniscript::bitcoin::taproot::Signature {
    miniscript::bitcoin::taproot::Signature {
        signature: miniscript::bitcoin::secp256k1::schnorr::Signature::from_slice(&[0x11; 64]).unwrap(),
        sighash_type: miniscript::bitcoin::TapSighashType::Default,
    }
}
fn preimage_of(kind: crate::ast::HK, h: &[u8]) -> Option<[u8; 32]> {
    (0..8u32).find(|i| crate::ast::hash_value(kind, *i) == h).map(crate::ast::preimage)
}
impl miniscript::Satisfier<Pk> for AllSigsX {
    fn lookup_tap_leaf_script_sig(&self, _: &Pk, _: &TapLeafHash) -> Option<miniscript::bitcoin::taproot::Signature> { Some(dummy_sig()) }
    fn lookup_raw_pkh_x_only_pk(&self, h: &miniscript::bitcoin::hashes::hash160::Hash) -> Option<XOnlyPublicKey> {
        (200..210u32).find(|i| crate::ast::raw_pkh(*i) == *h).map(crate::ast::xonly_key)
    }
    fn lookup_raw_pkh_tap_leaf_script_sig(&self, h: &(miniscript::bitcoin::hashes::hash160::Hash, TapLeafHash)) -> Option<(XOnlyPublicKey, miniscript::bitcoin::taproot::Signature)> {
        (200..210u32).find(|i| crate::ast::raw_pkh(*i) == h.0).map(|i| (crate::ast::xonly_key(i), dummy_sig()))
    }
    fn lookup_sha256(&self, h: &miniscript::bitcoin::hashes::sha256::Hash) -> Option<[u8; 32]> { use miniscript::bitcoin::hashes::Hash; preimage_of(crate::ast::HK::Sha256, h.as_byte_array()) }
    fn lookup_hash256(&self, h: &miniscript::hash256::Hash) -> Option<[u8; 32]> { use miniscript::bitcoin::hashes::Hash; preimage_of(crate::ast::HK::Hash256, h.as_byte_array()) }
    fn lookup_ripemd160(&self, h: &miniscript::bitcoin::hashes::ripemd160::Hash) -> Option<[u8; 32]> { use miniscript::bitcoin::hashes::Hash; preimage_of(crate::ast::HK::Ripemd160, h.as_byte_array()) }
    fn lookup_hash160(&self, h: &miniscript::bitcoin::hashes::hash160::Hash) -> Option<[u8; 32]> { use miniscript::bitcoin::hashes::Hash; preimage_of(crate::ast::HK::Hash160, h.as_byte_array()) }
    fn check_older(&self, _: miniscript::bitcoin::relative::LockTime) -> bool { true }
    fn check_after(&self, _: miniscript::bitcoin::absolute::LockTime) -> bool { true }
}

const NETWORKS: [(Network, &str); 5] = [(Network::Bitcoin, "bitcoin"), (Network::Testnet, "testnet"),
    (Network::Testnet4, "testnet4"), (Network::Signet, "signet"), (Network::Regtest, "regtest")];
/// control blocks of one `trcommit` line are limited to this many bytes unless forced
const COMMIT_BYTES: usize = 48 * 1024;

fn hx(b: &[u8]) -> String { if b.is_empty() { "-".into() } else { b.iter().map(|x| format!("{:02x}", x)).collect() } }

/// root of the shape over the given scripts (by position), hashed with rust-bitcoin
fn oracle_root(s: &Shape, scripts: &[ScriptBuf], next: &mut usize) -> TapNodeHash {
    match s {
        Leaf => { let h = TapNodeHash::from(TapLeafHash::from_script(&scripts[*next], LeafVersion::TapScript)); *next += 1; h }
        Node(l, r) => { let a = oracle_root(l, scripts, next); let b = oracle_root(r, scripts, next); TapNodeHash::from_node_hashes(a, b) }
    }
}

/// `J trcommit` (the Lean BIP341 byte-level specification recomputes root and sibling paths with
/// real SHA-256 and checks every control block), `J traddr` (scriptPubKey + Bech32m address on
/// every network, through Descriptor and through Tr), and libsecp's commitment check of every
/// control block against the ORACLE's output key.  `ik` is the expected x-only internal key,
/// obtained by the caller without the library.
fn emit_byte_judges<K, S>(out: &mut Out, secp: &Secp256k1<miniscript::bitcoin::secp256k1::All>, tr: &Tr<K>,
    shape: Option<&Shape>, pos_text: &str, ik: XOnlyPublicKey, force: bool, sat: &S, lenient: bool)
where K: miniscript::MiniscriptKey + miniscript::ToPublicKey, S: miniscript::Satisfier<K> {
    emit_byte_judges_opt(out, secp, tr, shape, pos_text, ik, force, sat, lenient, false)
}
/// `lite`: only the commitment line and libsecp's check (no addresses, no witness choice)
fn emit_byte_judges_opt<K, S>(out: &mut Out, secp: &Secp256k1<miniscript::bitcoin::secp256k1::All>, tr: &Tr<K>,
    shape: Option<&Shape>, pos_text: &str, ik: XOnlyPublicKey, force: bool, sat: &S, lenient: bool, lite: bool)
where K: miniscript::MiniscriptKey + miniscript::ToPublicKey, S: miniscript::Satisfier<K> {
    let got = catch_unwind(AssertUnwindSafe(|| {
        let si = tr.spend_info();
        let mut scripts = vec![];
        let mut cbs = vec![];
        for leaf in si.leaves() { scripts.push(ScriptBuf::from(leaf.script())); cbs.push(leaf.control_block().serialize()); }
        (si.merkle_root(), si.output_key().to_inner(), si.output_key_parity(), si.internal_key(), scripts, cbs)
    }));
    let (lroot, lq, lpar, lik, scripts, cbs) = match got {
        Ok(x) => x,
        Err(_) => { out.line(&format!("J rustoracle spend-info-nopanic {} fail:PANIC", pos_text), "ok"); return; }
    };
    let n = shape.map(|s| s.n_leaves()).unwrap_or(0);
    if scripts.len() != n || lik != ik {
        out.line(&format!("J rustoracle spend-info-shape {} fail:{}_leaves_yielded_{}_expected_or_internal_key", pos_text, scripts.len(), n), "ok");
        return;
    }
    let oroot = shape.map(|s| oracle_root(s, &scripts, &mut 0));
    let (oq, opar) = ik.tap_tweak(secp, oroot);
    let oq = oq.to_inner();
    let par = |p: miniscript::bitcoin::secp256k1::Parity| if p == miniscript::bitcoin::secp256k1::Parity::Odd { 1 } else { 0 };
    out.count(&format!("output-key-parity:{}", if par(opar) == 1 { "odd" } else { "even" }));
    let total: usize = cbs.iter().map(|c| c.len()).sum();
    if force || total <= COMMIT_BYTES {
        out.line(&format!("J trcommit {} {} {} {} {} {} {} {} {}", pos_text,
            if scripts.is_empty() { "-".to_string() } else { scripts.iter().map(|s| hx(s.as_bytes())).collect::<Vec<_>>().join(",") },
            hx(&ik.serialize()), hx(&oq.serialize()), par(opar),
            lroot.map(|h| h.to_string()).unwrap_or("-".into()), hx(&lq.serialize()), par(lpar),
            if cbs.is_empty() { "-".to_string() } else { cbs.iter().map(|c| hx(c)).collect::<Vec<_>>().join(",") }), "ok");
    } else {
        out.count("trcommit-skipped-large");
    }
    // scriptPubKey / address, through both entry points, on every network
    let desc = Descriptor::Tr(tr.clone());
    for (net, name) in NETWORKS {
        if lite { break; }
        let a = guard(|| match desc.address(net) { Ok(a) => format!("{} {}", hx(desc.script_pubkey().as_bytes()), a), Err(e) => format!("- ERR:{}", e.to_string().replace(' ', "_")) });
        out.line(&format!("J traddr descriptor {} {} {}", name, hx(&oq.serialize()), a), "ok");
        let a = guard(|| format!("{} {}", hx(tr.script_pubkey().as_bytes()), tr.address(net)));
        out.line(&format!("J traddr tr {} {} {}", name, hx(&oq.serialize()), a), "ok");
    }
    // the control block CHOSEN by the satisfier (all signatures available, no key-spend
    // signature): the witness ends with (script, control block); judged by the specification
    if let (Some(root), false) = (oroot, lite) {
        let w = catch_unwind(AssertUnwindSafe(|| tr.get_satisfaction(sat)));
        match w {
            Ok(Ok((wit, _))) if wit.len() >= 2 => {
                out.line(&format!("J trwitness {} {} {} {} {}", root, hx(&ik.serialize()), par(opar),
                    hx(&wit[wit.len() - 2]), hx(&wit[wit.len() - 1])), "ok");
                let v = verdict(|| {
                    let sc = ScriptBuf::from(wit[wit.len() - 2].clone());
                    if !scripts.contains(&sc) { return Err("witness script is not a leaf".into()); }
                    let cb = miniscript::bitcoin::taproot::ControlBlock::decode(&wit[wit.len() - 1]).map_err(|e| e.to_string())?;
                    if !cb.verify_taproot_commitment(secp, oq, &sc) { return Err("chosen control block does not commit".into()); }
                    // the choice is one of the leaves' own (script, control block) pairs
                    if !scripts.iter().zip(cbs.iter()).any(|(s, c)| *s == sc && *c == wit[wit.len() - 1]) { return Err("chosen pair is not a yielded leaf".into()); }
                    Ok(())
                });
                out.line(&format!("J rustoracle witness-choice {} {}", pos_text, v), "ok");
                // tie-break: among the positions carrying the chosen script the shortest control block
                if force || total <= COMMIT_BYTES {
                    out.line(&format!("J trwitnessmin {} {} {} {}", pos_text,
                        scripts.iter().map(|s| hx(s.as_bytes())).collect::<Vec<_>>().join(","),
                        hx(&wit[wit.len() - 2]), hx(&wit[wit.len() - 1])), "ok");
                }
            }
            Ok(Err(_)) if lenient => out.count("observation: no satisfaction found for a tree of corpus fragments (all leaves need assets the harness satisfier lacks)"),
            Ok(Ok(_)) => out.line(&format!("J rustoracle witness-choice {} fail:short_witness", pos_text), "ok"),
            Ok(Err(e)) => out.line(&format!("J rustoracle witness-choice {} fail:{}", pos_text, e.to_string().replace(' ', "_")), "ok"),
            Err(_) => out.line(&format!("J rustoracle witness-choice {} fail:PANIC", pos_text), "ok"),
        }
    }
    // libsecp: every control block (re-parsed by rust-bitcoin) commits its script to the oracle's key
    let v = verdict(|| {
        for (k, (cb, script)) in cbs.iter().zip(scripts.iter()).enumerate() {
            let cb = miniscript::bitcoin::taproot::ControlBlock::decode(cb).map_err(|e| format!("leaf {} control block does not parse: {}", k, e))?;
            if !cb.verify_taproot_commitment(secp, oq, script) { return Err(format!("leaf {} does not commit to the tweaked key", k)); }
        }
        Ok(())
    });
    out.line(&format!("J rustoracle cb-commit-oracle-key {} {}", pos_text, v), "ok");
}

/// shapes of height > 128 must be rejected by both constructors (and nothing may panic)
fn run_too_deep(out: &mut Out, c: &Case) {
    out.count("shapes:too-deep");
    let shape = &c.text;
    let mut ops = String::new();
    c.shape.ops(&mut ops);
    let dtext = desc_text(c);
    let ans = guard(|| match Tr::<Pk>::from_str(&dtext) {
        Ok(tr) => tr.tap_tree().map(|t| depth_ids(t, c)).unwrap_or("NOTREE".into()),
        Err(miniscript::Error::TapTreeDepthError(_)) => "ERR".into(),
        Err(e) => format!("ERR:other:{}", e.to_string().replace(' ', "_")),
    });
    out.line(&format!("C tapbuild {}", ops), &ans);
    let v = verdict(|| match build_combine(&c.shape, c, &mut 0) {
        Err(()) => Ok(()),
        Ok(t) => Err(format!("combine accepted height {} (max depth {})", c.shape.height(),
            t.leaves().map(|l| l.depth()).max().unwrap_or(0))),
    });
    out.line(&format!("J rustoracle reject-too-deep-combine {} {}", shape, v), "ok");
    let v = verdict(|| if ans == "ERR" { Ok(()) } else { Err(format!("from_str gave {}", &ans[..ans.len().min(40)])) });
    out.line(&format!("J rustoracle reject-too-deep-parse {} {}", shape, v), "ok");
    // the same, judged by the specification's height: both constructors answer ERR, neither panics
    let comb = match catch_unwind(AssertUnwindSafe(|| build_combine(&c.shape, c, &mut 0))) { Ok(Ok(_)) => "accept", Ok(Err(())) => "ERR", Err(_) => "PANIC" };
    let prs = if ans == "ERR" || ans == "PANIC" { ans.clone() } else if ans.starts_with("ERR:") { "other".into() } else { "accept".to_string() };
    out.line(&format!("J trdepthlimit {} {} {}", shape, comb, prs), "ok");
    // the last combine, as a correspondence line: find a subtree pair of height exactly 128 + 1
    fn find<'a>(s: &'a Shape) -> Option<(&'a Shape, &'a Shape)> {
        if let Node(l, r) = s {
            if s.height() == 129 { return Some((l, r)); }
            find(l).or_else(|| find(r))
        } else { None }
    }
    if let Some((l, r)) = find(&c.shape) {
        // renumber: build the two subtrees on fresh leaves 0..
        let sub = node(l.clone(), r.clone());
        let n = sub.n_leaves();
        let cc = Case { shape: sub.clone(), text: sub.to_text(), pos_text: sub.to_text(), labels: (0..n).collect(), dup: false, force_commit: false, generic_leaves: false, routes: false, internal_idx: 0, key_off: 0, desc_reparse: true, n, leaves: c.leaves[..n].to_vec(), tmpl: c.tmpl[..n].to_vec(),
            internal: c.internal, by_script: c.by_script.clone(), by_ms: c.by_ms.clone() };
        let mut next = 0;
        if let (Ok(lt), Ok(rt)) = (build_combine(l, &cc, &mut next), build_combine(r, &cc, &mut next)) {
            let ans = guard(|| match TapTree::combine(lt.clone(), rt.clone()) { Ok(t) => depth_ids(&t, &cc), Err(_) => "ERR".into() });
            out.line(&format!("C tapcombine {} {}", depth_only(&lt), depth_only(&rt)), &ans);
        }
    }
}

/* ------------------------------------------------------- construction routes and object states */

type SpendItem = (u8, ScriptBuf, Vec<TapNodeHash>);

/// the `merklespec` answer (root and control-block entries as terms) from collected items
fn terms_answer(c: &Case, root: Option<TapNodeHash>, items: &[SpendItem]) -> String {
    let mut table = HashMap::new();
    hash_shape(&c.shape, c, &mut 0, &mut table);
    let term = |h: &TapNodeHash| table.get(h).cloned().unwrap_or_else(|| "?".into());
    let mut s = match root { Some(h) => term(&h), None => "NOROOT".into() };
    for (d, script, br) in items {
        let id = c.by_script.get(script).map(|i| i.to_string()).unwrap_or("?".into());
        let br: Vec<String> = br.iter().map(|h| term(h)).collect();
        s.push_str(&format!("|{}:{}:{}", d, id, if br.is_empty() { "-".into() } else { br.join("/") }));
    }
    s
}
fn ids_of<'a>(c: &Case, items: impl Iterator<Item = miniscript::descriptor::TapTreeIterItem<'a, Pk>>) -> String {
    let v: Vec<String> = items.map(|l| format!("{}:{}", l.depth(),
        c.by_ms.get(&l.miniscript().to_string()).map(|i| i.to_string()).unwrap_or("?".into()))).collect();
    if v.is_empty() { "-".into() } else { v.join(",") }
}

/// ONE MORE `Tr` object that must describe the tree of `c` (another construction route, or the
/// same object in another state): leaves / order / depths, merkle root and every control block by
/// the Lean specification, output key + control blocks by rust-bitcoin's TaprootBuilder, and (small
/// trees) the byte-level commitment incl. output key and parity.
fn judge_obj(out: &mut Out, keys: &Keys, c: &Case, tr: &Tr<Pk>, route: &str, bytes: bool) {
    out.count(&format!("route:{}", route));
    let d = guard(|| tr.tap_tree().map(|t| depth_ids(t, c)).unwrap_or("NOTREE".into()));
    out.line(&format!("J rdepthspec {} {} {}", route, c.text, d), "ok");
    let ans = guard(|| {
        let si = tr.spend_info();
        let items: Vec<SpendItem> = si.leaves().map(|l| (l.depth(), ScriptBuf::from(l.script()), l.control_block().merkle_branch.iter().cloned().collect())).collect();
        terms_answer(c, si.merkle_root(), &items)
    });
    out.line(&format!("J {} {} {} {}", if c.dup { "rmerklespecl" } else { "rmerklespec" }, route, c.text, ans), "ok");
    out.line(&format!("J rustoracle route-{}-btc-builder {} {}", route, c.text, btc_builder_verdict(c, tr, &keys.secp)), "ok");
    if bytes { emit_byte_judges_opt(out, &keys.secp, tr, Some(&c.shape), &c.pos_text, c.internal, false, &AllSigsX, true, true); }
}

struct Ident;
impl Translator<Pk> for Ident {
    type TargetPk = Pk;
    type Error = ();
    fn pk(&mut self, pk: &Pk) -> Result<Pk, ()> { Ok(*pk) }
    translate_hash_clone!(Pk);
}
/// K_i -> K_{i+2000} for leaf keys, internal key number j -> j + 8
struct Shift<'a>(&'a Keys);
impl<'a> Translator<Pk> for Shift<'a> {
    type TargetPk = Pk;
    type Error = ();
    fn pk(&mut self, pk: &Pk) -> Result<Pk, ()> {
        let i: usize = self.0.names.get(pk).ok_or(())?[1..].parse().map_err(|_| ())?;
        Ok(self.0.get(if i >= IK_BASE { i + 8 } else { i + 2000 }))
    }
    translate_hash_fail!(Pk);
}

/// R1 (every construction route) and R4 (every object state) for one case whose two basic routes
/// (`Tr::from_str`, `Tr::new` over `TapTree::combine`) have just been judged on `tr`
fn run_routes(out: &mut Out, keys: &Keys, c: &Case, tree: &TapTree<Pk>, tr: &Tr<Pk>, dtext: &str) {
    let small = c.n <= 40;
    let fail = |out: &mut Out, what: &str, why: String| out.line(&format!("J rustoracle route-{} {} fail:{}", what, c.text, why.replace(' ', "_")), "ok");
    // ---- R1: Descriptor::new_tr, Descriptor::from_str
    match catch_unwind(AssertUnwindSafe(|| Descriptor::new_tr(c.internal, Some(tree.clone())))) {
        Ok(Ok(Descriptor::Tr(t))) => judge_obj(out, keys, c, &t, "Descriptor::new_tr", small),
        Ok(Ok(_)) => fail(out, "Descriptor::new_tr", "not a tr".into()),
        Ok(Err(e)) => fail(out, "Descriptor::new_tr", e.to_string()),
        Err(_) => fail(out, "Descriptor::new_tr", "PANIC".into()),
    }
    if c.desc_reparse {
        match catch_unwind(AssertUnwindSafe(|| Descriptor::<Pk>::from_str(dtext))) {
            Ok(Ok(Descriptor::Tr(t))) => judge_obj(out, keys, c, &t, "Descriptor::from_str", false),
            Ok(Ok(_)) => fail(out, "Descriptor::from_str", "not a tr".into()),
            Ok(Err(e)) => fail(out, "Descriptor::from_str", e.to_string()),
            Err(_) => fail(out, "Descriptor::from_str", "PANIC".into()),
        }
    }
    // ---- R4: the spend-info cache.  `tr` has been used by all the judges above.
    judge_obj(out, keys, c, tr, "used-again", false);
    judge_obj(out, keys, c, &tr.clone(), "clone-of-used", false);
    if let Ok(Ok(fresh)) = catch_unwind(AssertUnwindSafe(|| Tr::new(c.internal, Some(tree.clone())))) {
        let twin = fresh.clone();                 // cloned while the cache was empty
        let _ = guard(|| { let _ = fresh.script_pubkey(); let _ = fresh.address(Network::Regtest); fresh.spend_info().leaves().count().to_string() });
        judge_obj(out, keys, c, &twin, "clone-of-fresh", false);
        judge_obj(out, keys, c, &fresh, "after-script_pubkey-address", false);
    }
    // ---- R1/R4: translate_pk of a used object: identity, and a renaming to other keys
    match catch_unwind(AssertUnwindSafe(|| tr.translate_pk(&mut Ident))) {
        Ok(Ok(t)) => judge_obj(out, keys, c, &t, "translate_pk-identity-of-used", false),
        Ok(Err(_)) => fail(out, "translate_pk-identity", "error".into()),
        Err(_) => fail(out, "translate_pk-identity", "PANIC".into()),
    }
    if !c.generic_leaves && c.key_off == 0 {
        let cb = make_case_full(c.shape.clone(), c.labels.clone(), c.tmpl.clone(), 2000, c.internal_idx + 8, keys);
        match catch_unwind(AssertUnwindSafe(|| tr.translate_pk(&mut Shift(keys)))) {
            Ok(Ok(t)) => judge_obj(out, keys, &cb, &t, "translate_pk-other-keys", small),
            Ok(Err(_)) => fail(out, "translate_pk-other-keys", "error".into()),
            Err(_) => fail(out, "translate_pk-other-keys", "PANIC".into()),
        }
    }
    // ---- R4: iterators consumed partially / from both ends / two at once
    let v = guard(|| { let mut it = tr.leaves(); for _ in 0..c.n / 2 { it.next(); } drop(it); ids_of(c, tr.leaves()) });
    out.line(&format!("J rdepthspec Tr::leaves-restarted-after-partial-use {} {}", c.text, v), "ok");
    let v = guard(|| {
        let mut it = tr.leaves();
        let (mut front, mut back) = (vec![], vec![]);
        loop {
            match it.next() { Some(x) => front.push(x), None => break }
            match it.next_back() { Some(x) => back.push(x), None => break }
        }
        back.reverse(); front.extend(back);
        ids_of(c, front.into_iter())
    });
    out.line(&format!("J rdepthspec Tr::leaves-from-both-ends {} {}", c.text, v), "ok");
    let two = catch_unwind(AssertUnwindSafe(|| {
        let si = tr.spend_info();
        let (mut i1, mut i2, mut i3) = (si.leaves(), si.leaves(), si.leaves());
        let _ = i3.next();                         // a third, abandoned after one item
        let (mut a, mut b): (Vec<SpendItem>, Vec<SpendItem>) = (vec![], vec![]);
        let item = |l: miniscript::descriptor::TrSpendInfoIterItem<Pk>| -> SpendItem { (l.depth(), ScriptBuf::from(l.script()), l.control_block().merkle_branch.iter().cloned().collect()) };
        loop {
            let x = i1.next(); let y = if a.len() % 2 == 0 { i2.next() } else { None };
            let done = x.is_none();
            if let Some(x) = x { a.push(item(x)); }
            if let Some(y) = y { b.push(item(y)); }
            if done { break; }
        }
        for y in i2 { b.push(item(y)); }
        (terms_answer(c, si.merkle_root(), &a), terms_answer(c, si.merkle_root(), &b))
    }));
    let op = if c.dup { "rmerklespecl" } else { "rmerklespec" };
    match two {
        Ok((a, b)) => {
            out.line(&format!("J {} TrSpendInfo::leaves-interleaved-first {} {}", op, c.text, a), "ok");
            out.line(&format!("J {} TrSpendInfo::leaves-interleaved-second {} {}", op, c.text, b), "ok");
        }
        Err(_) => fail(out, "TrSpendInfo::leaves-interleaved", "PANIC".into()),
    }
    // ---- R1: what a PSBT carries (update, serialize, deserialize)
    if small && c.desc_reparse { psbt_route(out, c, dtext); }
}

/// the tap tree through a PSBT: `update_with_descriptor_unchecked` on an input and an output, PSBT
/// bytes, back; judged by the Lean specification (J trpsbt)
fn psbt_route(out: &mut Out, c: &Case, dtext: &str) {
    use miniscript::bitcoin::{absolute, psbt, transaction, Amount, Psbt, Transaction, TxIn, TxOut};
    use miniscript::psbt::{PsbtInputExt, PsbtOutputExt};
    use miniscript::DefiniteDescriptorKey;
    let r = catch_unwind(AssertUnwindSafe(|| -> Result<String, String> {
        let desc = Descriptor::<DefiniteDescriptorKey>::from_str(dtext).map_err(|e| format!("parse {}", e))?;
        let mut inp = psbt::Input::default();
        inp.update_with_descriptor_unchecked(&desc).map_err(|e| format!("input update {}", e))?;
        let mut outp = psbt::Output::default();
        outp.update_with_descriptor_unchecked(&desc).map_err(|e| format!("output update {}", e))?;
        let tx = Transaction { version: transaction::Version::TWO, lock_time: absolute::LockTime::ZERO, input: vec![TxIn::default()],
            output: vec![TxOut { value: Amount::from_sat(1000), script_pubkey: desc.script_pubkey() }] };
        let mut p = Psbt::from_unsigned_tx(tx).map_err(|e| e.to_string())?;
        p.inputs[0] = inp; p.outputs[0] = outp;
        let q = Psbt::deserialize(&p.serialize()).map_err(|e| format!("psbt bytes {}", e))?;
        let tt = q.outputs[0].tap_tree.as_ref().ok_or("no tap_tree in the output")?;
        let outl: Vec<String> = tt.script_leaves().map(|l| format!("{}:{}", l.merkle_branch().len(), hx(l.script().as_bytes()))).collect();
        let inl: Vec<String> = q.inputs[0].tap_scripts.iter().map(|(cb, (sc, _))| format!("{}:{}", hx(&cb.serialize()), hx(sc.as_bytes()))).collect();
        let ik = q.inputs[0].tap_internal_key.ok_or("no tap_internal_key")?;
        if q.outputs[0].tap_internal_key != Some(ik) { return Err("output tap_internal_key".into()); }
        let root = q.inputs[0].tap_merkle_root.ok_or("no tap_merkle_root")?;
        let scripts: Vec<String> = c.leaves.iter().map(|m| hx(m.encode().as_bytes())).collect();
        Ok(format!("{} {} {} {} {} {}", c.pos_text, scripts.join(","), hx(&ik.serialize()), root, outl.join(","), inl.join(",")))
    }));
    match r {
        Ok(Ok(args)) => { out.count("route:psbt"); out.line(&format!("J trpsbt {}", args), "ok") }
        Ok(Err(e)) => out.line(&format!("J rustoracle route-psbt {} fail:{}", c.text, e.replace(' ', "_")), "ok"),
        Err(_) => out.line(&format!("J rustoracle route-psbt {} fail:PANIC", c.text), "ok"),
    }
}

/// the shape a pre-order depth list describes
fn shape_of_depths(ds: &[usize]) -> Option<Shape> {
    fn go(ds: &[usize], pos: &mut usize, d: usize) -> Option<Shape> {
        let k = *ds.get(*pos)?;
        if k == d { *pos += 1; Some(Leaf) } else if k < d || d > 200 { None } else { let l = go(ds, pos, d + 1)?; let r = go(ds, pos, d + 1)?; Some(node(l, r)) }
    }
    let mut pos = 0;
    let s = go(ds, &mut pos, 0)?;
    if pos == ds.len() { Some(s) } else { None }
}

/// R1: the policy compiler's route.  The policy mirrors the shape with equal odds at every `or`, so
/// leaf i has probability 2^-depth(i) and every Huffman tree puts it at exactly that depth (siblings
/// in whatever order).  Leaves are and(pk(K_i),older(i+1)) so that no key is pulled out as internal key.
fn run_compile_route(out: &mut Out, keys: &Keys, shape: &Shape) {
    fn pol(s: &Shape, keys: &Keys, next: &mut usize, o: &mut String) {
        match s {
            Leaf => { o.push_str(&format!("and(pk({}),older({}))", keys.get(*next), *next + 1)); *next += 1; }
            Node(l, r) => { o.push_str("or(1@"); pol(l, keys, next, o); o.push_str(",1@"); pol(r, keys, next, o); o.push(')'); }
        }
    }
    let n = shape.n_leaves();
    let text = shape.to_text();
    let mut ptext = String::new();
    pol(shape, keys, &mut 0, &mut ptext);
    let by_ms: HashMap<String, usize> = (0..n).map(|i| (leaf_text(1, &keys.get(i).to_string(), i), i)).collect();
    let res = catch_unwind(AssertUnwindSafe(|| -> Result<Descriptor<Pk>, String> {
        let p = miniscript::policy::Concrete::<Pk>::from_str(&ptext).map_err(|e| format!("policy parse {}", e))?;
        p.compile_tr(Some(keys.get(IK_BASE))).map_err(|e| format!("{}", e))
    }));
    let deep = shape.height() > 128;
    match res {
        Ok(Ok(Descriptor::Tr(tr))) => {
            let listed: Vec<(usize, Option<usize>)> = tr.leaves().map(|l| (l.depth() as usize, by_ms.get(&l.miniscript().to_string()).copied())).collect();
            out.line(&format!("J trdepthset compile_tr {} {}", text,
                listed.iter().map(|(d, i)| format!("{}:{}", d, i.map(|x| x.to_string()).unwrap_or("?".into()))).collect::<Vec<_>>().join(",")), "ok");
            let ds: Vec<usize> = listed.iter().map(|x| x.0).collect();
            match (shape_of_depths(&ds), listed.iter().all(|x| x.1.is_some())) {
                (Some(s2), true) => {
                    let c2 = make_case_full(s2, listed.iter().map(|x| x.1.unwrap()).collect(), vec![1; n], 0, IK_BASE, keys);
                    judge_obj(out, keys, &c2, &tr, "compile_tr", n <= 40);
                }
                _ => out.line(&format!("J rustoracle route-compile_tr {} fail:depth_list_is_not_a_tree_of_the_policy's_leaves", text), "ok"),
            }
        }
        Ok(Ok(_)) => out.line(&format!("J rustoracle route-compile_tr {} fail:not_a_tr", text), "ok"),
        Ok(Err(_)) if deep => out.line(&format!("J trrefused compile_tr-depth-{} {} ERR", shape.height(), text), "ok"),
        Ok(Err(e)) => out.line(&format!("J rustoracle route-compile_tr {} fail:{}", text, e.replace(' ', "_")), "ok"),
        // a policy whose Huffman tree is deeper than 128 makes `with_huffman_tree` panic on its
        // `expect`: a constructor panic is outside this property's statement (observation)
        Err(_) if deep => out.count("observation: compile_tr panics on a policy whose Huffman tree is deeper than 128"),
        Err(_) => out.line(&format!("J rustoracle route-compile_tr {} fail:PANIC", text), "ok"),
    }
}

/// R2/R3: inputs that are refused TODAY for exactly one reason each; an accepting library gives a
/// judged failure (J trrefused answers ok only for ERR)
fn refused_today(out: &mut Out, keys: &Keys) {
    use miniscript::bitcoin::PublicKey;
    let k = |i: usize| keys.get(i).to_string();
    let ik = k(IK_BASE);
    let unc = crate::ast::full_key(100).to_string();         // uncompressed
    let full = |i: u32| crate::ast::full_key(i).to_string();
    let mut v: Vec<(&str, String)> = vec![
        ("brace-one-child", format!("tr({},{{pk({})}})", ik, k(0))),
        ("brace-three-children", format!("tr({},{{pk({}),pk({}),pk({})}})", ik, k(0), k(1), k(2))),
        ("brace-three-children-nested", format!("tr({},{{pk({}),{{pk({}),pk({}),pk({})}}}})", ik, k(0), k(1), k(2), k(3))),
        ("brace-empty", format!("tr({},{{}})", ik)),
        ("brace-empty-right", format!("tr({},{{pk({}),}})", ik, k(0))),
        ("brace-empty-left", format!("tr({},{{,pk({})}})", ik, k(0))),
        ("brace-single-nested", format!("tr({},{{{{pk({}),pk({})}}}})", ik, k(0), k(1))),
        ("brace-named", format!("tr({},x{{pk({}),pk({})}})", ik, k(0), k(1))),
        ("brace-unbalanced", format!("tr({},{{pk({}),pk({})}}}})", ik, k(0), k(1))),
        ("paren-for-brace", format!("tr({},(pk({}),pk({})))", ik, k(0), k(1))),
        ("three-arguments", format!("tr({},pk({}),pk({}))", ik, k(0), k(1))),
        ("empty-tree-argument", format!("tr({},)", ik)),
        ("no-arguments", "tr()".to_string()),
        ("leaf-multi-not-in-tapscript", format!("tr({},multi(1,{}))", ik, k(0))),
        ("leaf-not-type-B", format!("tr({},v:pk({}))", ik, k(0))),
        ("leaf-type-K", format!("tr({},pk_k({}))", ik, k(0))),
    ];
    for (cls, text) in v.drain(..) {
        let r = match catch_unwind(AssertUnwindSafe(|| Tr::<Pk>::from_str(&text))) { Ok(Ok(_)) => "accepted", Ok(Err(_)) => "ERR", Err(_) => "PANIC" };
        out.line(&format!("J trrefused {} {} {}", cls, text, r), "ok");
        let r = match catch_unwind(AssertUnwindSafe(|| Descriptor::<Pk>::from_str(&text))) { Ok(Ok(_)) => "accepted", Ok(Err(_)) => "ERR", Err(_) => "PANIC" };
        out.line(&format!("J trrefused descriptor-{} {} {}", cls, text, r), "ok");
    }
    // uncompressed keys, through every constructor that takes a full key
    let texts = [("uncompressed-internal-key", format!("tr({})", unc)),
                 ("uncompressed-internal-key-with-tree", format!("tr({},pk({}))", unc, full(1))),
                 ("uncompressed-leaf-key", format!("tr({},pk({}))", full(0), unc)),
                 ("uncompressed-leaf-key-in-multi_a", format!("tr({},multi_a(1,{},{}))", full(0), full(1), unc))];
    for (cls, text) in texts {
        let r = match catch_unwind(AssertUnwindSafe(|| Tr::<PublicKey>::from_str(&text))) { Ok(Ok(_)) => "accepted", Ok(Err(_)) => "ERR", Err(_) => "PANIC" };
        out.line(&format!("J trrefused {} {} {}", cls, text, r), "ok");
        let r = match catch_unwind(AssertUnwindSafe(|| Descriptor::<PublicKey>::from_str(&text))) { Ok(Ok(_)) => "accepted", Ok(Err(_)) => "ERR", Err(_) => "PANIC" };
        out.line(&format!("J trrefused descriptor-{} {} {}", cls, text, r), "ok");
    }
    let u = crate::ast::full_key(100);
    let r = match catch_unwind(AssertUnwindSafe(|| Tr::<PublicKey>::new(u, None))) { Ok(Ok(_)) => "accepted", Ok(Err(_)) => "ERR", Err(_) => "PANIC" };
    out.line(&format!("J trrefused Tr::new-uncompressed-internal-key {} {}", unc, r), "ok");
    let r = match catch_unwind(AssertUnwindSafe(|| Descriptor::<PublicKey>::new_tr(u, None))) { Ok(Ok(_)) => "accepted", Ok(Err(_)) => "ERR", Err(_) => "PANIC" };
    out.line(&format!("J trrefused Descriptor::new_tr-uncompressed-internal-key {} {}", unc, r), "ok");
    let r = match catch_unwind(AssertUnwindSafe(|| Miniscript::<PublicKey, Tap>::from_str(&format!("pk({})", unc)))) { Ok(Ok(_)) => "accepted", Ok(Err(_)) => "ERR", Err(_) => "PANIC" };
    out.line(&format!("J trrefused tap-leaf-uncompressed-key pk({}) {}", unc, r), "ok");
}

/* ---------------------------------------------------------------- full keys, derived keys */

fn keyed_tree<K: miniscript::MiniscriptKey>(s: &Shape, leaves: &[Arc<Miniscript<K, Tap>>], next: &mut usize) -> Result<TapTree<K>, ()> {
    match s {
        Leaf => { let t = TapTree::leaf(leaves[*next].clone()); *next += 1; Ok(t) }
        Node(l, r) => { let a = keyed_tree(l, leaves, next)?; let b = keyed_tree(r, leaves, next)?; TapTree::combine(a, b).map_err(|_| ()) }
    }
}
/// a keyed leaf: template name as the Lean specification knows it (Spec/TapTemplates.lean), the
/// key expressions as they appear in the descriptor text, and the key BYTES (33 or 32) they must
/// denote, obtained without the library
#[derive(Clone)]
struct KLeaf { tmpl: &'static str, key_texts: Vec<String>, keys: Vec<Vec<u8>> }
const KTEMPLATES: [(&str, usize); 4] = [("pk", 1), ("multi_a:2", 2), ("sortedmulti_a:1", 2), ("pkh_older:1", 1)];
impl KLeaf {
    fn text(&self) -> String {
        let k = &self.key_texts;
        match self.tmpl {
            "pk" => format!("pk({})", k[0]),
            "multi_a:2" => format!("multi_a(2,{},{})", k[0], k[1]),
            "sortedmulti_a:1" => format!("sortedmulti_a(1,{},{})", k[0], k[1]),
            _ => format!("and_v(v:pkh({}),older(1))", k[0]),
        }
    }
}
fn keyed_text(s: &Shape, leaf_keys: &[String], next: &mut usize, out: &mut String) {
    match s {
        Leaf => { out.push_str(&leaf_keys[*next]); *next += 1; }
        Node(l, r) => { out.push('{'); keyed_text(l, leaf_keys, next, out); out.push(','); keyed_text(r, leaf_keys, next, out); out.push('}'); }
    }
}
fn xonly_of(full: &[u8]) -> XOnlyPublicKey { XOnlyPublicKey::from_slice(&full[full.len() - 32..]).unwrap() }

/// judge one `Tr<K>` whose internal key and `pk(K_i)` leaf keys the CALLER knows as bytes
/// (33-byte compressed or 32-byte x-only), obtained without the library
fn run_keyed<K>(out: &mut Out, keys: &Keys, class: &str, tr: &Tr<K>, shape: Option<&Shape>, ik_full: &[u8], leaf_full: &[KLeaf])
where K: miniscript::MiniscriptKey + miniscript::ToPublicKey + miniscript::FromStrKey {
    out.count(&format!("keyed:{}", class));
    out.count(&format!("internal-key-prefix:{}", match ik_full.len() { 33 => format!("{:02x}", ik_full[0]), _ => "x-only".into() }));
    let pos_text = shape.map(|s| s.to_text()).unwrap_or("-".into());
    // leaf scripts: `<x-only K_i> OP_CHECKSIG`, judged by the specification
    let scripts = catch_unwind(AssertUnwindSafe(|| tr.spend_info().leaves().map(|l| ScriptBuf::from(l.script())).collect::<Vec<_>>()));
    match scripts {
        Ok(scripts) if scripts.len() == leaf_full.len() => {
            for (k, sc) in leaf_full.iter().zip(scripts.iter()) {
                out.count(&format!("keyed-leaf-template:{}", k.tmpl));
                if k.tmpl == "pk" { out.line(&format!("J trleafpk {} {}", hx(&k.keys[0]), hx(sc.as_bytes())), "ok"); }
                out.line(&format!("J trleafscript {} {} {}", k.tmpl, k.keys.iter().map(|x| hx(x)).collect::<Vec<_>>().join(","), hx(sc.as_bytes())), "ok");
            }
            // Tr::leaves (no spend info) computes the same scripts
            let v = verdict(|| {
                for (i, l) in tr.leaves().enumerate() { if l.compute_script() != scripts[i] { return Err(format!("compute_script of leaf {}", i)); } }
                Ok(())
            });
            out.line(&format!("J rustoracle keyed-compute-script {}:{} {}", class, pos_text, v), "ok");
        }
        Ok(scripts) => { out.line(&format!("J rustoracle keyed-leaf-count {}:{} fail:{}_of_{}", class, pos_text, scripts.len(), leaf_full.len()), "ok"); return; }
        Err(_) => { out.line(&format!("J rustoracle keyed-nopanic {}:{} fail:PANIC", class, pos_text), "ok"); return; }
    }
    emit_byte_judges(out, &keys.secp, tr, shape, &pos_text, xonly_of(ik_full), true, &AllSigs, false);
    let v = verdict(|| {
        let s = tr.to_string();
        let back = Tr::<K>::from_str(&s).map_err(|e| format!("reparse {}", e))?;
        if &back != tr { return Err("Tr differs after to_string/from_str".into()); }
        if back.spend_info().output_key() != tr.spend_info().output_key() { return Err("output key differs after round trip".into()); }
        Ok(())
    });
    out.line(&format!("J rustoracle keyed-roundtrip {}:{} {}", class, pos_text, v), "ok");
}

/// `Tr<bitcoin::PublicKey>` with the shared key table (ids 0..9 carry both parities)
/// pairs (a, b) of shared-table key ids with a = 03‖x, b = 02‖x' and x < x': sorting the X-ONLY
/// keys puts a first, sorting the 33-byte encodings puts b first
fn cross_parity_pairs() -> &'static Vec<(u32, u32)> {
    static T: std::sync::OnceLock<Vec<(u32, u32)>> = std::sync::OnceLock::new();
    T.get_or_init(|| {
        let mut v = vec![];
        for a in 0..100u32 { for b in 0..100u32 {
            let (ka, kb) = (crate::ast::full_key(a).to_bytes(), crate::ast::full_key(b).to_bytes());
            if ka[0] == 3 && kb[0] == 2 && ka[1..] < kb[1..] { v.push((a, b)); }
        } }
        v
    })
}
/// the keyed leaf for template `t` whose first key is shared-table id `id`
fn fullkey_leaf(t: usize, id: u32, salt: usize) -> KLeaf {
    let (tmpl, nk) = KTEMPLATES[t % 4];
    let ids: Vec<u32> = if tmpl == "sortedmulti_a:1" {
        let pairs = cross_parity_pairs();
        let (a, b) = pairs[(id as usize * 7 + salt) % pairs.len()];
        if salt % 2 == 0 { vec![a, b] } else { vec![b, a] }
    } else if nk == 2 { vec![id, (id + 41) % 100] } else { vec![id] };
    KLeaf { tmpl, key_texts: ids.iter().map(|i| crate::ast::full_key(*i).to_string()).collect(),
            keys: ids.iter().map(|i| crate::ast::full_key(*i).to_bytes()).collect() }
}
fn run_fullkey_case(out: &mut Out, keys: &Keys, shape: Option<&Shape>, ik: u32, leaf_ids: &[u32], tmpls: &[usize], class: &str) {
    use miniscript::bitcoin::PublicKey;
    let ikk = crate::ast::full_key(ik);
    let leaf_full: Vec<KLeaf> = leaf_ids.iter().enumerate().map(|(p, i)| fullkey_leaf(tmpls.get(p).copied().unwrap_or(0), *i, p + ik as usize)).collect();
    let label = format!("{}:ik{}:{}", class, ik, leaf_ids.iter().map(|i| i.to_string()).collect::<Vec<_>>().join("."));
    // constructor 1: text
    let mut text = format!("tr({}", ikk);
    if let Some(s) = shape {
        text.push(',');
        keyed_text(s, &leaf_full.iter().map(|k| k.text()).collect::<Vec<_>>(), &mut 0, &mut text);
    }
    text.push(')');
    let parsed = catch_unwind(AssertUnwindSafe(|| Tr::<PublicKey>::from_str(&text)));
    // constructor 2: Tr::new over TapTree::combine
    let built = catch_unwind(AssertUnwindSafe(|| -> Result<Tr<PublicKey>, String> {
        let tree = match shape {
            None => None,
            Some(s) => {
                let leaves: Vec<Arc<Miniscript<PublicKey, Tap>>> = leaf_full.iter()
                    .map(|k| Miniscript::from_str(&k.text()).map(Arc::new).map_err(|e: miniscript::Error| e.to_string()))
                    .collect::<Result<_, _>>()?;
                Some(keyed_tree(s, &leaves, &mut 0).map_err(|_| "combine".to_string())?)
            }
        };
        Tr::new(ikk, tree).map_err(|e| e.to_string())
    }));
    let pos_text = shape.map(|s| s.to_text()).unwrap_or("-".into());
    match (parsed, built) {
        (Ok(Ok(a)), Ok(Ok(b))) => {
            out.line(&format!("J rustoracle keyed-parse-eq-new {}:{} {}", label, pos_text,
                verdict(|| if a == b { Ok(()) } else { Err("Tr::from_str != Tr::new".into()) })), "ok");
            run_keyed(out, keys, class, &a, shape, &ikk.to_bytes(), &leaf_full);
            // the same through Descriptor<PublicKey>
            let v = verdict(|| {
                let d = Descriptor::<PublicKey>::from_str(&text).map_err(|e| e.to_string())?;
                if d != Descriptor::Tr(b.clone()) { return Err("Descriptor::from_str != Descriptor::Tr(Tr::new)".into()); }
                Ok(())
            });
            out.line(&format!("J rustoracle keyed-descriptor-eq {}:{} {}", label, pos_text, v), "ok");
        }
        (a, b) => {
            let why = format!("from_str_{}_new_{}", match a { Ok(Ok(_)) => "ok".to_string(), Ok(Err(e)) => e.to_string(), Err(_) => "PANIC".into() },
                match b { Ok(Ok(_)) => "ok".to_string(), Ok(Err(e)) => e, Err(_) => "PANIC".into() });
            out.line(&format!("J rustoracle keyed-accepts {}:{} fail:{}", label, pos_text, why.replace(' ', "_")), "ok");
        }
    }
}

/// `Tr<DescriptorPublicKey>` over an xpub with wildcards, derived at `index` two ways
#[allow(deprecated)]
fn run_xpub_case(out: &mut Out, keys: &Keys, shape: Option<&Shape>, seed: &[u8; 32], index: u32, origin: bool, tmpls: &[usize], class: &str) {
    use miniscript::bitcoin::bip32::{ChildNumber, Xpriv, Xpub};
    use miniscript::{DefiniteDescriptorKey, DescriptorPublicKey};
    let secp = &keys.secp;
    let master = Xpriv::new_master(Network::Bitcoin, seed).unwrap();
    let xpub = Xpub::from_priv(secp, &master);
    let n = shape.map(|s| s.n_leaves()).unwrap_or(0);
    let keyexpr = |j: usize| -> String {
        if origin { format!("[{}/86h/0h]{}/{}/*", xpub.fingerprint(), xpub, j) } else { format!("{}/{}/*", xpub, j) }
    };
    // independent derivation (rust-bitcoin bip32)
    let child = |j: usize| -> Vec<u8> {
        xpub.derive_pub(secp, &[ChildNumber::Normal { index: j as u32 }, ChildNumber::Normal { index }]).unwrap().public_key.serialize().to_vec()
    };
    let ik_full = child(0);
    let leaf_full: Vec<KLeaf> = (0..n).map(|j| {
        let (tmpl, nk) = KTEMPLATES[tmpls.get(j).copied().unwrap_or(0) % 4];
        let js: Vec<usize> = if nk == 2 { vec![j + 1, j + 51] } else { vec![j + 1] };
        KLeaf { tmpl, key_texts: js.iter().map(|x| keyexpr(*x)).collect(), keys: js.iter().map(|x| child(*x)).collect() }
    }).collect();
    let mut text = format!("tr({}", keyexpr(0));
    if let Some(s) = shape {
        text.push(',');
        keyed_text(s, &leaf_full.iter().map(|k| k.text()).collect::<Vec<_>>(), &mut 0, &mut text);
    }
    text.push(')');
    let pos_text = shape.map(|s| s.to_text()).unwrap_or("-".into());
    let label = format!("{}:idx{}", class, index);
    let desc = match catch_unwind(AssertUnwindSafe(|| Descriptor::<DescriptorPublicKey>::from_str(&text))) {
        Ok(Ok(d)) => d,
        Ok(Err(e)) => { out.line(&format!("J rustoracle keyed-accepts {}:{} fail:{}", label, pos_text, e.to_string().replace(' ', "_")), "ok"); return; }
        Err(_) => { out.line(&format!("J rustoracle keyed-accepts {}:{} fail:PANIC", label, pos_text), "ok"); return; }
    };
    // (a) Descriptor<bitcoin::PublicKey> via derived_descriptor
    match catch_unwind(AssertUnwindSafe(|| desc.derived_descriptor(secp, index))) {
        Ok(Ok(Descriptor::Tr(tr))) => run_keyed(out, keys, &format!("{}-derived", class), &tr, shape, &ik_full, &leaf_full),
        other => { out.line(&format!("J rustoracle keyed-derive {}:{} fail:{}", label, pos_text, match other { Err(_) => "PANIC".to_string(), Ok(Err(e)) => e.to_string().replace(' ', "_"), _ => "not_tr".into() }), "ok"); }
    }
    // (b) Descriptor<DefiniteDescriptorKey>: keys are derived lazily inside spend_info
    match catch_unwind(AssertUnwindSafe(|| desc.at_derivation_index(index))) {
        Ok(Ok(Descriptor::Tr(tr))) => {
            let tr: Tr<DefiniteDescriptorKey> = tr;
            run_keyed(out, keys, &format!("{}-definite", class), &tr, shape, &ik_full, &leaf_full);
        }
        other => { out.line(&format!("J rustoracle keyed-definite {}:{} fail:{}", label, pos_text, match other { Err(_) => "PANIC".to_string(), Ok(Err(e)) => e.to_string().replace(' ', "_"), _ => "not_tr".into() }), "ok"); }
    }
}

/// definite keys that do NOT come from a wildcard: a full key with origin, a bare x-only key, an
/// xpub with a fixed path — `into_definite()` — `Tr<DefiniteDescriptorKey>` (keys resolved inside
/// `spend_info` by `DefiniteDescriptorKey::derive_public_key`'s Single / non-wildcard arms)
fn run_single_definite_case(out: &mut Out, keys: &Keys, shape: &Shape, seed: &[u8; 32], variant: usize, tmpls: &[usize]) {
    use miniscript::bitcoin::bip32::{ChildNumber, Xpriv, Xpub};
    use miniscript::DescriptorPublicKey;
    let secp = &keys.secp;
    let xpub = Xpub::from_priv(secp, &Xpriv::new_master(Network::Bitcoin, seed).unwrap());
    let n = shape.n_leaves();
    // key slot j (0 = internal) cycles through the four non-wildcard key forms
    let slot = |j: usize| -> (String, Vec<u8>) {
        let id = ((variant * 13 + j * 7) % 100) as u32;
        match (j + variant) % 4 {
            0 => { let k = crate::ast::full_key(id); (format!("[{}/86h]{}", xpub.fingerprint(), k), k.to_bytes()) }
            1 => { let k = crate::ast::xonly_key(id); (k.to_string(), k.serialize().to_vec()) }
            2 => { let path = [ChildNumber::Normal { index: 3 }, ChildNumber::Normal { index: j as u32 }];
                   (format!("{}/3/{}", xpub, j), xpub.derive_pub(secp, &path).unwrap().public_key.serialize().to_vec()) }
            _ => { let k = crate::ast::full_key(id); (k.to_string(), k.to_bytes()) }
        }
    };
    let (ik_text, ik_full) = slot(0);
    let leaf_full: Vec<KLeaf> = (0..n).map(|j| {
        let (tmpl, nk) = KTEMPLATES[tmpls.get(j).copied().unwrap_or(0) % 4];
        let js: Vec<usize> = if nk == 2 { vec![2 * j + 1, 2 * j + 2] } else { vec![2 * j + 1] };
        let sl: Vec<(String, Vec<u8>)> = js.iter().map(|x| slot(*x)).collect();
        KLeaf { tmpl, key_texts: sl.iter().map(|x| x.0.clone()).collect(), keys: sl.iter().map(|x| x.1.clone()).collect() }
    }).collect();
    let mut text = format!("tr({},", ik_text);
    keyed_text(shape, &leaf_full.iter().map(|k| k.text()).collect::<Vec<_>>(), &mut 0, &mut text);
    text.push(')');
    let pos_text = shape.to_text();
    let label = format!("single-definite:v{}", variant);
    let desc = match catch_unwind(AssertUnwindSafe(|| Descriptor::<DescriptorPublicKey>::from_str(&text))) {
        Ok(Ok(d)) => d,
        Ok(Err(e)) => { out.line(&format!("J rustoracle keyed-accepts {}:{} fail:{}", label, pos_text, e.to_string().replace(' ', "_")), "ok"); return; }
        Err(_) => { out.line(&format!("J rustoracle keyed-accepts {}:{} fail:PANIC", label, pos_text), "ok"); return; }
    };
    match catch_unwind(AssertUnwindSafe(|| desc.into_definite())) {
        Ok(Ok(Descriptor::Tr(tr))) => {
            run_keyed(out, keys, "single-definite", &tr, Some(shape), &ik_full, &leaf_full);
            // and the eager conversion of the same descriptor to plain keys
            match catch_unwind(AssertUnwindSafe(|| Descriptor::Tr(tr.clone()).derived_descriptor(secp))) {
                Ok(Descriptor::Tr(tr2)) => run_keyed(out, keys, "single-definite-derived", &tr2, Some(shape), &ik_full, &leaf_full),
                _ => out.line(&format!("J rustoracle keyed-derive {}:{} fail:derived_descriptor", label, pos_text), "ok"),
            }
        }
        other => { out.line(&format!("J rustoracle keyed-definite {}:{} fail:{}", label, pos_text, match other { Err(_) => "PANIC".to_string(), Ok(Err(e)) => e.to_string().replace(' ', "_"), _ => "not_tr".into() }), "ok"); }
    }
}

/// label assignments with repetitions for a tree of n leaves
fn dup_labelings(n: usize, rng: &mut Rng, how_many: usize) -> Vec<Vec<usize>> {
    let mut v: Vec<Vec<usize>> = vec![];
    if n >= 2 {
        v.push(vec![0; n]);                                                // all the same script
        v.push((0..n).map(|i| if i == n - 1 { 0 } else { i }).collect());  // first = last
        v.push((0..n).map(|i| i / 2).collect());                           // adjacent pairs
        v.push((0..n).map(|i| i % 2).collect());                           // alternating
    }
    for _ in 0..how_many {
        let k = 1 + rng.below(n.max(2) - 1);
        let mut l: Vec<usize> = (0..n).map(|_| rng.below(k)).collect();
        // labels must be 0..max without gaps for make_dup_case's table; gaps are harmless there
        if l.iter().all(|x| *x != 0) { l[0] = 0; }
        v.push(l);
    }
    v.retain(|l| { let mut s = std::collections::HashSet::new(); l.iter().any(|x| !s.insert(*x)) });
    v.sort(); v.dedup();
    v
}

pub fn run(out: &mut Out, thorough: bool, seed: u64) {
    if std::env::var("VERIF_PANIC_VERBOSE").is_err() { std::panic::set_hook(Box::new(|_| {})); }
    let mut rng = Rng(seed ^ 0xC15);
    let mut keys = Keys::new();
    for i in 0..16 { keys.key(IK_BASE + i); }

    // 0. key-only descriptor: output key = tweak with no root
    {
        let ik = keys.key(IK_BASE);
        let v = verdict(|| {
            let tr = Tr::<Pk>::new(ik, None).map_err(|e| e.to_string())?;
            let si = tr.spend_info();
            let (ok, par) = ik.tap_tweak(&keys.secp, None);
            if si.output_key() != ok || si.output_key_parity() != par || si.merkle_root().is_some() { return Err("key-only tweak".into()); }
            if si.leaves().count() != 0 || tr.leaves().count() != 0 || si.to_tap_tree().is_some() { return Err("key-only leaves".into()); }
            let back = Tr::<Pk>::from_str(&tr.to_string()).map_err(|e| e.to_string())?;
            if back != tr { return Err("key-only roundtrip".into()); }
            Ok(())
        });
        out.line(&format!("J rustoracle key-only - {}", v), "ok");
    }

    // 1. ALL shapes with few leaves
    let max_all = if thorough { 10 } else { 8 };
    let mut memo = vec![vec![]];
    let mut n_shapes = 0;
    for n in 1..=max_all {
        for s in all_shapes(n, &mut memo) {
            let mut c = make_case(s, &mut keys, &mut rng, false);
            c.routes = n <= 6;               // every other construction route and object state (R1, R4)
            run_case(out, &c, &keys, "exhaustive");
            n_shapes += 1;
        }
    }
    // the same shapes again with varied leaf scripts (sampled in quick)
    for n in 1..=(if thorough { 7 } else { 5 }) {
        for s in all_shapes(n, &mut memo) {
            let mut c = make_case(s, &mut keys, &mut rng, true);
            c.routes = n <= 4;
            run_case(out, &c, &keys, "exhaustive-varied-leaves");
        }
    }
    // 2. combs up to depth 128 (left and right), boundary depths always
    let comb_depths: Vec<usize> = if thorough { (1..=128).collect() } else {
        vec![1, 2, 3, 4, 8, 16, 31, 32, 33, 48, 63, 64, 65, 80, 96, 100, 112, 120, 126, 127, 128]
    };
    for &d in &comb_depths {
        for s in [left_comb(d), right_comb(d)] {
            let mut c = make_case(s, &mut keys, &mut rng, false);
            c.routes = d >= 126 || d <= 3;
            run_case(out, &c, &keys, "comb");
        }
    }
    // 3. random caterpillars (spine turns left/right at random; optional bushy side trees)
    let n_cat = if thorough { 400 } else { 48 };
    for i in 0..n_cat {
        let d = match i % 4 { 0 => 128, 1 => 127, 2 => 120 + rng.below(9), _ => 2 + rng.below(126) };
        let s = caterpillar(d, &mut rng, i % 2 == 1, 128);
        if s.height() > 128 { continue; }
        let c = make_case(s, &mut keys, &mut rng, i % 3 == 0);
        run_case(out, &c, &keys, "caterpillar");
    }
    // two depth-128 pairs in one tree: both children of the root are 127-deep combs
    for (a, b) in [(left_comb(127), right_comb(127)), (right_comb(127), left_comb(127)), (left_comb(127), left_comb(127)), (right_comb(127), right_comb(126))] {
        let c = make_case(node(a, b), &mut keys, &mut rng, false);
        run_case(out, &c, &keys, "double-comb");
    }
    // 4. random shapes
    let n_rand = if thorough { 1500 } else { 150 };
    let max_leaves = if thorough { 600 } else { 300 };
    for i in 0..n_rand {
        let n = if i % 10 == 0 { 2 + rng.below(max_leaves) } else { 2 + rng.below(40) };
        let s = random_shape(n, &mut rng);
        if s.height() > 128 { out.count("random-skipped-too-deep"); continue; }
        let c = make_case(s, &mut keys, &mut rng, true);
        run_case(out, &c, &keys, "random");
    }
    // 4b. REPEATED leaf scripts (same script at several positions, same or different depths)
    {
        let max_n = if thorough { 6 } else { 5 };
        for n in 2..=max_n {
            for s in all_shapes(n, &mut memo) {
                for labels in dup_labelings(n, &mut rng, if thorough { 3 } else { 1 }) {
                    let mut c = make_dup_case(s.clone(), labels, &mut keys, &mut rng, false);
                    c.routes = true;
                    run_case(out, &c, &keys, "repeated-leaves");
                }
            }
        }
        for i in 0..(if thorough { 300 } else { 40 }) {
            let n = 2 + rng.below(if i % 5 == 0 { 60 } else { 14 });
            let s = random_shape(n, &mut rng);
            if s.height() > 128 { continue; }
            let pool = 1 + rng.below(4);
            let labels: Vec<usize> = { let mut l: Vec<usize> = (0..n).map(|_| rng.below(pool)).collect(); l[0] = 0;
                // make the label set gap-free
                let mut map = HashMap::new(); for x in l.iter_mut() { let k = map.len(); *x = *map.entry(*x).or_insert(k); } l };
            let c = make_dup_case(s, labels, &mut keys, &mut rng, i % 2 == 0);
            if c.dup { run_case(out, &c, &keys, "repeated-leaves-random"); }
        }
        // deep trees whose leaves are all the same script
        for s in [left_comb(128), right_comb(127), caterpillar(128, &mut rng, false, 128)] {
            let n = s.n_leaves();
            let c = make_dup_case(s, vec![0; n], &mut keys, &mut rng, false);
            run_case(out, &c, &keys, "repeated-leaves-deep");
            if !thorough { break; }
        }
    }
    // 4c. byte-level commitment of the deepest trees with distinct leaves (large lines: a few)
    for s in [right_comb(128), left_comb(128)] {
        let mut c = make_case(s, &mut keys, &mut rng, false);
        c.force_commit = true;
        run_case(out, &c, &keys, "comb-128-bytes");
    }
    // 4d. full 33-byte keys (both parities: shared key table 0..9) as internal key and in leaves
    {
        for ik in 0..10u32 { run_fullkey_case(out, &keys, None, ik, &[], &[], "fullkey-keyonly"); }
        let max_n = if thorough { 6 } else { 4 };
        for ik in 0..10u32 {
            for n in 1..=max_n {
                for s in all_shapes(n, &mut memo) {
                    // leaf keys: distinct ids different from the internal key ...
                    let mut ids: Vec<u32> = (0..n as u32).map(|p| (ik + 1 + p) % 10).collect();
                    // ... except that sometimes a leaf reuses the internal key or another leaf's key
                    match rng.below(4) { 0 => ids[0] = ik, 1 if n >= 2 => ids[n - 1] = ids[0], _ => {} }
                    run_fullkey_case(out, &keys, Some(&s), ik, &ids, &[], "fullkey");
                }
            }
        }
        for _ in 0..(if thorough { 200 } else { 24 }) {
            let n = 5 + rng.below(20);
            let s = random_shape(n, &mut rng);
            let ids: Vec<u32> = (0..n).map(|_| rng.below(100) as u32).collect();
            let tm: Vec<usize> = (0..n).map(|_| rng.below(4)).collect();
            run_fullkey_case(out, &keys, Some(&s), rng.below(100) as u32, &ids, &tm, "fullkey-random");
        }
        run_fullkey_case(out, &keys, Some(&right_comb(128)), 0, &(0..129).map(|i| (i % 100) as u32).collect::<Vec<_>>(), &[], "fullkey-comb128");
        // leaves that are not pk(): multi_a, sortedmulti_a (keys of mixed parity whose x-only order
        // differs from the order of the 33-byte encodings), and_v(v:pkh(K),older(1))
        for ik in 0..10u32 {
            for n in 1..=(if thorough { 5 } else { 3 }) {
                for s in all_shapes(n, &mut memo) {
                    let ids: Vec<u32> = (0..n as u32).map(|p| (ik + 1 + p) % 10).collect();
                    let tm: Vec<usize> = (0..n).map(|p| 1 + (ik as usize + p) % 3).collect();
                    run_fullkey_case(out, &keys, Some(&s), ik, &ids, &tm, "fullkey-templates");
                }
            }
        }
    }
    // 4e. xpub-derived keys (wildcards), derived two ways
    {
        let n_seeds = if thorough { 12 } else { 3 };
        for k in 0..n_seeds {
            let mut sd = [0u8; 32];
            for (i, b) in sd.iter_mut().enumerate() { *b = (rng.next() >> (i % 8)) as u8; }
            let idxs: Vec<u32> = vec![0, 1, 1 + rng.below(1000) as u32, (1u32 << 31) - 1];
            run_xpub_case(out, &keys, None, &sd, idxs[k % 4], k % 2 == 0, &[], "xpub-keyonly");
            for n in 1..=(if thorough { 5 } else { 4 }) {
                for s in all_shapes(n, &mut memo) {
                    let idx = idxs[rng.below(4)];
                    let tm: Vec<usize> = if rng.coin() { vec![] } else { (0..n).map(|_| rng.below(4)).collect() };
                    run_xpub_case(out, &keys, Some(&s), &sd, idx, rng.coin(), &tm, "xpub");
                }
            }
            let s = random_shape(6 + rng.below(10), &mut rng);
            let tm: Vec<usize> = (0..s.n_leaves()).map(|_| rng.below(4)).collect();
            run_xpub_case(out, &keys, Some(&s), &sd, idxs[2], false, &tm, "xpub-random");
            // 4f. definite keys that are not wildcards (full key with origin, x-only key, fixed-path xpub)
            for v in 0..(if thorough { 12 } else { 4 }) {
                let n = 1 + (v + k) % 4;
                let shapes = all_shapes(n, &mut memo);
                let s = shapes[rng.below(shapes.len())].clone();
                let tm: Vec<usize> = if v % 2 == 0 { vec![] } else { (0..n).map(|p| (v + p) % 4).collect() };
                run_single_definite_case(out, &keys, &s, &sd, v + 4 * k, &tm);
            }
        }
    }
    // 4g. adjacent depth-128 pairs: {{a,b},{c,d}} (and {{a,b},c}, {a,{b,c}}) at the bottom of a
    // depth-126 spine, so that the builder's depth-128 flag toggles twice with no lower level
    // completing in between; left, right and zig-zag spines; both construction routes
    {
        let quad = || node(node(Leaf, Leaf), node(Leaf, Leaf));
        let bottoms: Vec<Shape> = vec![quad(), node(node(Leaf, Leaf), Leaf), node(Leaf, node(Leaf, Leaf))];
        for (bi, b) in bottoms.iter().enumerate() {
            for side in 0..3 {
                let mut s = b.clone();
                for lvl in 0..126 {
                    let left = match side { 0 => true, 1 => false, _ => lvl % 2 == 0 };
                    s = if left { node(s, Leaf) } else { node(Leaf, s) };
                }
                assert_eq!(s.height(), 128);
                let mut c = make_case(s, &mut keys, &mut rng, false);
                c.routes = true;
                c.force_commit = bi == 0 && side < 2 && thorough;
                run_case(out, &c, &keys, "adjacent-128-pairs");
            }
        }
        // and one level too deep: the same bottoms under a depth-127 spine are rejected
        let mut s = quad();
        for _ in 0..127 { s = node(s, Leaf); }
        let c = make_case(s, &mut keys, &mut rng, false);
        run_too_deep(out, &c);
        // perfect trees with 16..128 leaves
        fn perfect(k: usize) -> Shape { if k == 0 { Leaf } else { node(perfect(k - 1), perfect(k - 1)) } }
        for k in 4..=(if thorough { 8 } else { 7 }) {
            let c = make_case(perfect(k), &mut keys, &mut rng, k % 2 == 1);
            run_case(out, &c, &keys, "perfect");
        }
    }
    // 4h. the same script at depths 1 and 5 (and 2 and 7), in both orders: the satisfier must pick the
    // shallow copy's control block (J trwitnessmin)
    for (shallow_first, deep) in [(true, 5usize), (false, 5), (true, 7), (false, 7)] {
        let chain = if shallow_first { right_comb(deep) } else { left_comb(deep) };
        let n = chain.n_leaves();
        // right comb: position 0 is at depth 1, the last two at depth `deep`; left comb: mirrored
        let mut labels: Vec<usize> = (0..n).collect();
        if shallow_first { labels[n - 1] = 0; } else { labels[n - 1] = 0; labels[0] = 0; for (i, l) in labels.iter_mut().enumerate().skip(1).take(n - 2) { *l = i; } }
        // gap-free relabelling
        let mut map = HashMap::new(); for x in labels.iter_mut() { let k = map.len(); *x = *map.entry(*x).or_insert(k); }
        let mut c = make_dup_case(chain, labels, &mut keys, &mut rng, false);
        c.routes = true;
        run_case(out, &c, &keys, "same-script-two-depths");
    }
    // 4i. leaves from the shared dimension corpus (all hash kinds, both lock units, distinct same-unit
    // locks, thresholds with lock children, wide multi_a / sortedmulti_a, raw key hashes)
    {
        let mut frags: Vec<Arc<Ms>> = vec![];      // accepted by Tr::from_str and Descriptor::from_str
        let mut tr_only: Vec<Arc<Ms>> = vec![];    // accepted by Tr::from_str, refused by Descriptor::from_str
        let mut seen = std::collections::HashSet::new();
        for nd in crate::ast::dimension_corpus(crate::ast::CtxK::Tap) {
            let ms: Ms = match crate::ast::to_ms::<Pk, Tap>(&nd) { Ok(m) => m, Err(_) => { out.count("corpus-fragment-not-a-tap-miniscript"); continue; } };
            let alone = format!("tr({},{})", keys.key(IK_BASE), ms);
            if !seen.insert(ms.encode()) { continue; }
            match (Tr::<Pk>::from_str(&alone), Descriptor::<Pk>::from_str(&alone)) {
                (Ok(_), Ok(_)) => frags.push(Arc::new(ms)),
                (Ok(_), Err(e)) => {
                    // beyond this property's statement (leaf sanity policy differs between the two parsers)
                    out.count("observation: leaf accepted by Tr::from_str but refused by Descriptor::from_str");
                    if tr_only.is_empty() { out.note("observation_tr_only_leaf", format!("{} : {}", alone, e)); }
                    tr_only.push(Arc::new(ms));
                }
                (Err(_), _) => out.count("observation: corpus fragment refused as a tr() leaf"),
            }
        }
        out.note("corpus_leaves", format!("{} fragments of ast::dimension_corpus(Tap) usable as leaves, {} more through Tr::from_str only", frags.len(), tr_only.len()));
        for (group, strict) in [(frags, true), (tr_only, false)] {
            if group.is_empty() { continue; }
            // all of them in one random tree, then in chunks of up to 6 over sampled small shapes
            let s = random_shape(group.len(), &mut rng);
            if s.height() <= 128 { let mut c = make_case_leaves(s, group.clone(), &mut keys, &mut rng); c.desc_reparse = strict; c.routes = true; run_case(out, &c, &keys, "corpus-leaves"); }
            let mut i = 0;
            while i < group.len() {
                let n = (1 + rng.below(6)).min(group.len() - i);
                let shapes = all_shapes(n, &mut memo);
                let s = shapes[rng.below(shapes.len())].clone();
                let mut c = make_case_leaves(s, group[i..i + n].to_vec(), &mut keys, &mut rng);
                c.desc_reparse = strict;
                c.routes = true;
                run_case(out, &c, &keys, "corpus-leaves");
                i += n;
            }
        }
    }
    // 4j. the policy compiler's route (Huffman tree) over ALL shapes with <= 6 leaves, combs of depth
    // 126..129, and a depth-128 pair on the left / right / in the middle
    {
        for n in 1..=6 { for s in all_shapes(n, &mut memo) { run_compile_route(out, &keys, &s); } }
        for d in 126..=129 { run_compile_route(out, &keys, &left_comb(d)); run_compile_route(out, &keys, &right_comb(d)); }
        for side in 0..3 {
            let mut s = node(node(Leaf, Leaf), node(Leaf, Leaf));
            for lvl in 0..126 { let left = match side { 0 => true, 1 => false, _ => lvl % 2 == 0 }; s = if left { node(s, Leaf) } else { node(Leaf, s) }; }
            run_compile_route(out, &keys, &s);
        }
    }
    // 4k. inputs refused today for exactly one reason each (R2, R3)
    refused_today(out, &keys);
    // 5. too deep: must be rejected
    let mut deep = vec![left_comb(129), right_comb(129), left_comb(130), right_comb(200), node(left_comb(128), Leaf), node(Leaf, right_comb(128)), node(right_comb(128), left_comb(3))];
    for _ in 0..(if thorough { 40 } else { 6 }) { deep.push(caterpillar(129 + rng.below(3), &mut rng, false, 200)); }
    for s in deep {
        let c = make_case(s, &mut keys, &mut rng, false);
        run_too_deep(out, &c);
    }
    out.note("domain", format!("all {} tree shapes with <= {} leaves; left/right combs at depths {:?}; {} random caterpillars to depth 128; {} random shapes up to {} leaves; too-deep shapes (129..200); ROUTES: every shape with <= 6 leaves, combs of depth <= 3 and 126..128, depth-128 pairs under left/right/zig-zag spines, repeated-leaf trees and the dimension-corpus trees through Tr::from_str, Tr::new(TapTree::combine), Descriptor::new_tr, Descriptor::from_str, translate_pk (identity and to other keys), compile_tr (Huffman; also depth 129), PSBT update+bytes; STATES: spend info fresh / cached / clone of used / clone of fresh / after script_pubkey+address / translated from used, leaf iterators restarted, from both ends, two interleaved; refused-today inputs (brace arity, uncompressed keys, non-tapscript leaves)", n_shapes, max_all, if thorough { vec![1usize, 128] } else { comb_depths.clone() }, n_cat, n_rand, max_leaves));
    out.note("distinct_nontrivial", format!("{}", out.hist.iter().filter(|(k, _)| k.starts_with("shapes:")).map(|(_, v)| *v).sum::<u64>()));
}

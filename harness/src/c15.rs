//! C15: taproot outputs commit to exactly the described script tree.
//!
//! For every generated tree SHAPE (all shapes with few leaves, left/right combs and random
//! caterpillars up to depth 128, random bushy trees, too-deep trees) real `Tr`/`TapTree`
//! objects are built through BOTH public constructors (`TapTree::combine` bottom-up, and
//! `Tr::from_str`, which drives the private `TapTreeBuilder`), then
//!   C tapcombine / tapbuild / tapfmt / taproot   the Lean model answers the same question;
//!   J depthspec / fmtspec / merklespec           the Lean SPECIFICATION judges the library's output;
//!   J rustoracle <name>                          oracles inside rust-bitcoin (not code under test):
//!        ControlBlock::verify_taproot_commitment, tap_tweak of an independently computed root,
//!        bitcoin::taproot::TaprootBuilder, plus structural round trips.
//! Hashes: the harness hashes every subtree of the SHAPE itself with rust-bitcoin
//! (`TapLeafHash::from_script`, `TapNodeHash::from_node_hashes`) and prints the library's merkle
//! root / control-block entries as TERMS by reverse lookup in that table; an entry that is not the
//! hash of a subtree prints as `?`.  Leaves are pairwise distinct, so the lookup is unambiguous.
use std::collections::HashMap;
use std::panic::{catch_unwind, AssertUnwindSafe};
use std::str::FromStr;
use std::sync::Arc;

use miniscript::bitcoin::key::TapTweak;
use miniscript::bitcoin::secp256k1::{Keypair, Secp256k1, SecretKey, XOnlyPublicKey};
use miniscript::bitcoin::taproot::{LeafVersion, TapLeafHash, TapNodeHash, TaprootBuilder};
use miniscript::bitcoin::{Network, ScriptBuf};
use miniscript::descriptor::{TapTree, Tr};
use miniscript::{translate_hash_fail, Descriptor, Miniscript, Tap, Translator};

use crate::common::{Out, Rng};

type Pk = XOnlyPublicKey;
type Ms = Miniscript<Pk, Tap>;

#[derive(Clone, Debug)]
pub enum Shape {
    Leaf,
    Node(Box<Shape>, Box<Shape>),
}
use Shape::{Leaf, Node};

fn node(l: Shape, r: Shape) -> Shape { Node(Box::new(l), Box::new(r)) }

impl Shape {
    fn n_leaves(&self) -> usize {
        match self { Leaf => 1, Node(l, r) => l.n_leaves() + r.n_leaves() }
    }
    fn height(&self) -> usize {
        match self { Leaf => 0, Node(l, r) => 1 + l.height().max(r.height()) }
    }
    /// `{{0,1},2}`: the canonical text of the shape with leaf ids in pre-order
    fn text(&self, next: &mut usize, out: &mut String) {
        match self {
            Leaf => { out.push_str(&next.to_string()); *next += 1; }
            Node(l, r) => {
                out.push('{'); l.text(next, out); out.push(','); r.text(next, out); out.push('}');
            }
        }
    }
    fn to_text(&self) -> String { let mut s = String::new(); self.text(&mut 0, &mut s); s }
    /// pre-order walk as the parser sees it: I = `{`-node, L = leaf
    fn ops(&self, out: &mut String) {
        match self {
            Leaf => out.push('L'),
            Node(l, r) => { out.push('I'); l.ops(out); r.ops(out); }
        }
    }
    /// depth list computed by the harness itself (for rust-bitcoin's TaprootBuilder)
    fn depths(&self, d: usize, out: &mut Vec<usize>) {
        match self { Leaf => out.push(d), Node(l, r) => { l.depths(d + 1, out); r.depths(d + 1, out); } }
    }
}

/// all shapes with exactly n leaves
fn all_shapes(n: usize, memo: &mut Vec<Vec<Shape>>) -> Vec<Shape> {
    while memo.len() <= n {
        let k = memo.len();
        let mut v = vec![];
        if k == 1 { v.push(Leaf); }
        for i in 1..k {
            for l in memo[i].clone() {
                for r in memo[k - i].iter() { v.push(node(l.clone(), r.clone())); }
            }
        }
        memo.push(v);
    }
    memo[n].clone()
}
fn right_comb(d: usize) -> Shape { let mut s = Leaf; for _ in 0..d { s = node(Leaf, s); } s }
fn left_comb(d: usize) -> Shape { let mut s = Leaf; for _ in 0..d { s = node(s, Leaf); } s }
/// caterpillar of depth d: at each level the spine goes left or right at random; the other
/// child is a small random subtree (height limited so that the total stays <= limit)
fn caterpillar(d: usize, rng: &mut Rng, bushy: bool, limit: usize) -> Shape {
    // build bottom-up: the bottom node sits at depth d-1 and has two leaves at depth d
    let mut s = Leaf;
    for lvl in (0..d).rev() {
        // the side subtree's root is at depth lvl+1; keep lvl+1+height <= limit
        let room = limit.saturating_sub(lvl + 1);
        let side = if bushy && room > 0 && rng.below(4) == 0 {
            random_shape(1 + rng.below(4.min(room + 1)), rng)
        } else { Leaf };
        let side = if side.height() > room { Leaf } else { side };
        s = if rng.coin() { node(s, side) } else { node(side, s) };
    }
    s
}
fn random_shape(n: usize, rng: &mut Rng) -> Shape {
    if n <= 1 { return Leaf; }
    // mix of uniform splits (bushy) and lopsided splits (deep)
    let k = match rng.below(3) {
        0 => 1 + rng.below(n - 1),
        1 => if rng.coin() { 1 } else { n - 1 },
        _ => (n / 2).max(1),
    };
    node(random_shape(k, rng), random_shape(n - k, rng))
}

struct Keys { secp: Secp256k1<miniscript::bitcoin::secp256k1::All>, keys: Vec<Pk>, names: HashMap<Pk, String> }
impl Keys {
    fn new() -> Self { Keys { secp: Secp256k1::new(), keys: vec![], names: HashMap::new() } }
    /// x-only key of secret key (i+1)
    fn key(&mut self, i: usize) -> Pk {
        while self.keys.len() <= i {
            let n = (self.keys.len() + 1) as u64;
            let mut b = [0u8; 32];
            b[24..].copy_from_slice(&n.to_be_bytes());
            let sk = SecretKey::from_slice(&b).unwrap();
            let pk = Keypair::from_secret_key(&self.secp, &sk).x_only_public_key().0;
            self.names.insert(pk, format!("K{}", self.keys.len()));
            self.keys.push(pk);
        }
        self.keys[i]
    }
}

/// leaf script templates over key `k`, distinct for distinct (template, id)
fn leaf_text(tmpl: usize, k: &str, id: usize) -> String {
    match tmpl {
        0 => format!("pk({})", k),
        1 => format!("and_v(v:pk({}),older({}))", k, id + 1),
        2 => format!("and_v(v:pk({}),after({}))", k, id + 1),
        _ => format!("multi_a(1,{})", k),
    }
}

struct Case {
    shape: Shape,
    text: String,
    n: usize,
    leaves: Vec<Arc<Ms>>,           // by id
    tmpl: Vec<usize>,
    internal: Pk,
    by_script: HashMap<ScriptBuf, usize>,
    by_ms: HashMap<String, usize>,
}

const IK_BASE: usize = 5000; // internal keys are K5000..K5007

fn make_case(shape: Shape, keys: &mut Keys, rng: &mut Rng, vary: bool) -> Case {
    let n = shape.n_leaves();
    let mut leaves = vec![];
    let mut tmpl = vec![];
    let mut by_script = HashMap::new();
    let mut by_ms = HashMap::new();
    for id in 0..n {
        let t = if vary { rng.below(4) } else { 0 };
        let k = keys.key(id);
        let ms = Ms::from_str(&leaf_text(t, &k.to_string(), id)).expect("leaf template parses");
        by_script.insert(ms.encode(), id);
        by_ms.insert(ms.to_string(), id);
        leaves.push(Arc::new(ms));
        tmpl.push(t);
    }
    assert_eq!(by_script.len(), n, "leaf scripts must be pairwise distinct");
    let internal = keys.key(IK_BASE + rng.below(8));
    let text = shape.to_text();
    Case { shape, text, n, leaves, tmpl, internal, by_script, by_ms }
}

/// bottom-up construction through the public `TapTree::combine`
fn build_combine(s: &Shape, c: &Case, next: &mut usize) -> Result<TapTree<Pk>, ()> {
    match s {
        Leaf => { let t = TapTree::leaf(c.leaves[*next].clone()); *next += 1; Ok(t) }
        Node(l, r) => {
            let lt = build_combine(l, c, next)?;
            let rt = build_combine(r, c, next)?;
            TapTree::combine(lt, rt).map_err(|_| ())
        }
    }
}
/// descriptor text `tr(IK,{…})`
fn desc_text(c: &Case) -> String {
    fn go(s: &Shape, c: &Case, next: &mut usize, out: &mut String) {
        match s {
            Leaf => { out.push_str(&c.leaves[*next].to_string()); *next += 1; }
            Node(l, r) => { out.push('{'); go(l, c, next, out); out.push(','); go(r, c, next, out); out.push('}'); }
        }
    }
    let mut s = format!("tr({},", c.internal);
    go(&c.shape, c, &mut 0, &mut s);
    s.push(')');
    s
}

fn depth_ids(t: &TapTree<Pk>, c: &Case) -> String {
    t.leaves()
        .map(|l| format!("{}:{}", l.depth(),
            c.by_ms.get(&l.miniscript().to_string()).map(|i| i.to_string()).unwrap_or("?".into())))
        .collect::<Vec<_>>().join(",")
}
fn depth_only(t: &TapTree<Pk>) -> String {
    t.leaves().map(|l| l.depth().to_string()).collect::<Vec<_>>().join(",")
}

/// hash every subtree of the SHAPE with rust-bitcoin; table hash -> term text
fn hash_shape(s: &Shape, c: &Case, next: &mut usize, table: &mut HashMap<TapNodeHash, String>) -> (TapNodeHash, String) {
    match s {
        Leaf => {
            let script = c.leaves[*next].encode();
            let h = TapNodeHash::from(TapLeafHash::from_script(&script, LeafVersion::TapScript));
            let t = next.to_string();
            *next += 1;
            table.insert(h, t.clone());
            (h, t)
        }
        Node(l, r) => {
            let (hl, tl) = hash_shape(l, c, next, table);
            let (hr, tr) = hash_shape(r, c, next, table);
            let h = TapNodeHash::from_node_hashes(hl, hr);
            let t = format!("{{{},{}}}", tl, tr);
            table.insert(h, t.clone());
            (h, t)
        }
    }
}

fn guard<F: FnOnce() -> String>(f: F) -> String {
    match catch_unwind(AssertUnwindSafe(f)) { Ok(s) => s, Err(_) => "PANIC".into() }
}
fn verdict<F: FnOnce() -> Result<(), String>>(f: F) -> String {
    match catch_unwind(AssertUnwindSafe(f)) {
        Ok(Ok(())) => "pass".into(),
        Ok(Err(e)) => format!("fail:{}", e.replace(' ', "_")),
        Err(_) => "fail:PANIC".into(),
    }
}

struct ToName<'a>(&'a HashMap<Pk, String>);
impl<'a> Translator<Pk> for ToName<'a> {
    type TargetPk = String;
    type Error = ();
    fn pk(&mut self, pk: &Pk) -> Result<String, ()> { self.0.get(pk).cloned().ok_or(()) }
    translate_hash_fail!(Pk);
}
struct FromName<'a>(&'a HashMap<String, Pk>);
impl<'a> Translator<String> for FromName<'a> {
    type TargetPk = Pk;
    type Error = ();
    fn pk(&mut self, pk: &String) -> Result<Pk, ()> { self.0.get(pk).cloned().ok_or(()) }
    translate_hash_fail!(String);
}

/// everything for one shape of height <= 128
fn run_case(out: &mut Out, c: &Case, keys: &Keys, class: &str) {
    let secp = &keys.secp;
    out.count(&format!("shapes:{}", class));
    out.count(&format!("height:{}", match c.shape.height() { 0..=3 => "0-3", 4..=15 => "4-15", 16..=63 => "16-63", 64..=127 => "64-127", _ => "128" }));
    let shape = &c.text;

    // ---- construction 1: TapTree::combine --------------------------------------------------
    if let Node(l, r) = &c.shape {
        let mut next = 0;
        let lt = build_combine(l, c, &mut next);
        let rt = build_combine(r, c, &mut next);
        if let (Ok(lt), Ok(rt)) = (lt, rt) {
            let line = format!("C tapcombine {} {}", depth_only(&lt), depth_only(&rt));
            let ans = guard(|| match TapTree::combine(lt.clone(), rt.clone()) {
                Ok(t) => depth_ids(&t, c),
                Err(_) => "ERR".into(),
            });
            out.line(&line, &ans);
        }
    }
    let by_combine = catch_unwind(AssertUnwindSafe(|| build_combine(&c.shape, c, &mut 0))).unwrap_or(Err(()));
    // ---- construction 2: Tr::from_str -> TapTreeBuilder ---------------------------------------
    let dtext = desc_text(c);
    let mut ops = String::new();
    c.shape.ops(&mut ops);
    let parsed = catch_unwind(AssertUnwindSafe(|| Tr::<Pk>::from_str(&dtext)));
    let ans = match &parsed {
        Ok(Ok(tr)) => match tr.tap_tree() { Some(t) => depth_ids(t, c), None => "NOTREE".into() },
        Ok(Err(miniscript::Error::TapTreeDepthError(_))) => "ERR".into(),
        Ok(Err(e)) => format!("ERR:other:{}", e.to_string().replace(' ', "_")),
        Err(_) => "PANIC".into(),
    };
    out.line(&format!("C tapbuild {}", ops), &ans);

    let tree = match by_combine {
        Ok(t) => t,
        Err(()) => { out.line(&format!("J rustoracle combine-accepts {} fail:combine_rejected_height_{}", shape, c.shape.height()), "ok"); return; }
    };
    // the two constructions must give the same value, and it must be the spec's depth list
    out.line(&format!("J depthspec {} {}", shape, depth_ids(&tree, c)), "ok");
    let tr_parsed = match parsed {
        Ok(Ok(tr)) => tr,
        _ => { out.line(&format!("J rustoracle parse-accepts {} fail:{}", shape, ans.replace(' ', "_")), "ok"); return; }
    };
    if let Some(t) = tr_parsed.tap_tree() {
        out.line(&format!("J depthspec {} {}", shape, depth_ids(t, c)), "ok");
    }
    let tr = match Tr::new(c.internal, Some(tree.clone())) {
        Ok(t) => t,
        Err(e) => { out.line(&format!("J rustoracle tr-new {} fail:{}", shape, e.to_string().replace(' ', "_")), "ok"); return; }
    };
    out.line(&format!("J rustoracle parse-eq-combine {} {}", shape,
        verdict(|| if tr == tr_parsed { Ok(()) } else { Err("Tr::from_str != Tr::new(combine)".into()) })), "ok");

    // ---- Display ---------------------------------------------------------------------------------
    let disp = guard(|| {
        let mut s = tree.to_string();
        // replace each leaf's text by its id (leaf texts are distinct and not substrings of each
        // other because every one contains its own 64-hex key)
        let mut ids: Vec<(&String, &usize)> = c.by_ms.iter().collect();
        ids.sort_by_key(|(m, _)| std::cmp::Reverse(m.len()));
        for (m, id) in ids { s = s.replace(m.as_str(), &id.to_string()); }
        s
    });
    out.line(&format!("C tapfmt {}", depth_only(&tree)), &disp);
    out.line(&format!("J fmtspec {} {}", shape, disp), "ok");

    // ---- spend info: merkle root + control blocks as terms ----------------------------------
    let mut table = HashMap::new();
    let (root_hash, _root_term) = hash_shape(&c.shape, c, &mut 0, &mut table);
    let term = |h: &TapNodeHash| table.get(h).cloned().unwrap_or_else(|| "?".into());
    let spend = guard(|| {
        let si = tr.spend_info();
        let mut s = match si.merkle_root() { Some(h) => term(&h), None => "NOROOT".into() };
        for leaf in si.leaves() {
            let id = c.by_script.get(leaf.script()).map(|i| i.to_string()).unwrap_or("?".into());
            let br: Vec<String> = leaf.control_block().merkle_branch.iter().map(|h| term(h)).collect();
            s.push_str(&format!("|{}:{}:{}", leaf.depth(), id, if br.is_empty() { "-".into() } else { br.join("/") }));
        }
        s
    });
    out.line(&format!("C taproot {}", depth_only(&tree)), &spend);
    out.line(&format!("J merklespec {} {}", shape, spend), "ok");

    // ---- oracles inside rust-bitcoin -----------------------------------------------------------
    // (1) every control block proves its leaf against the descriptor's real output key
    let v = verdict(|| {
        let si = tr.spend_info();
        let okey = si.output_key().to_inner();
        let mut k = 0;
        for leaf in si.leaves() {
            let cb = leaf.control_block();
            if !cb.verify_taproot_commitment(secp, okey, leaf.script()) {
                return Err(format!("leaf {} control block does not verify", k));
            }
            if cb.internal_key != c.internal { return Err(format!("leaf {} internal key", k)); }
            if cb.output_key_parity != si.output_key_parity() { return Err(format!("leaf {} parity", k)); }
            // the serialized control block parses back
            let ser = cb.serialize();
            if ser.len() != 33 + 32 * leaf.depth() as usize { return Err(format!("leaf {} cb size", k)); }
            k += 1;
        }
        if k != c.n { return Err(format!("{} leaves yielded, {} expected", k, c.n)); }
        Ok(())
    });
    out.line(&format!("J rustoracle cb-verify {} {}", shape, v), "ok");
    // (2) output key = internal key tweaked with the independently computed root
    let v = verdict(|| {
        let si = tr.spend_info();
        let (ok, par) = c.internal.tap_tweak(secp, Some(root_hash));
        if si.merkle_root() != Some(root_hash) { return Err("merkle_root".into()); }
        if si.output_key() != ok { return Err("output_key".into()); }
        if si.output_key_parity() != par { return Err("parity".into()); }
        if si.internal_key() != c.internal { return Err("internal_key".into()); }
        let d = Descriptor::Tr(tr.clone());
        if d.script_pubkey() != ScriptBuf::new_p2tr_tweaked(ok) { return Err("script_pubkey".into()); }
        if tr.address(Network::Bitcoin).script_pubkey() != ScriptBuf::new_p2tr_tweaked(ok) { return Err("address".into()); }
        Ok(())
    });
    out.line(&format!("J rustoracle outkey-tweak {} {}", shape, v), "ok");
    // (3) rust-bitcoin's own TaprootBuilder fed with the harness's depth list
    let v = verdict(|| {
        let mut ds = vec![];
        c.shape.depths(0, &mut ds);
        let mut b = TaprootBuilder::new();
        for (id, d) in ds.iter().enumerate() {
            b = b.add_leaf(*d as u8, c.leaves[id].encode()).map_err(|e| format!("oracle add_leaf {}", e))?;
        }
        let osi = b.finalize(secp, c.internal).map_err(|_| "oracle finalize".to_string())?;
        let si = tr.spend_info();
        if osi.output_key() != si.output_key() { return Err("output_key differs from TaprootBuilder".into()); }
        if osi.merkle_root() != si.merkle_root() { return Err("merkle_root differs from TaprootBuilder".into()); }
        for (k, leaf) in si.leaves().enumerate() {
            let ocb = osi.control_block(&(ScriptBuf::from(leaf.script()), LeafVersion::TapScript))
                .ok_or(format!("leaf {} unknown to TaprootBuilder", k))?;
            if &ocb != leaf.control_block() { return Err(format!("leaf {} control block differs", k)); }
        }
        // and the library's own conversion agrees
        let tt = si.to_tap_tree().ok_or("to_tap_tree none".to_string())?;
        // (rust-bitcoin orders the leaves of a combined node by child hash, not left-to-right:
        // compare as sets)
        let mut got: Vec<(u8, ScriptBuf)> = tt.script_leaves().map(|l| (l.merkle_branch().len() as u8, l.script().to_owned())).collect();
        let mut want: Vec<(u8, ScriptBuf)> = ds.iter().enumerate().map(|(id, d)| (*d as u8, c.leaves[id].encode())).collect();
        got.sort(); want.sort();
        if got != want { return Err("to_tap_tree leaves".into()); }
        Ok(())
    });
    out.line(&format!("J rustoracle btc-builder {} {}", shape, v), "ok");
    // (4) Tr::leaves / TapTree::leaves / TrSpendInfo::leaves agree (order, depth, script, hash)
    let v = verdict(|| {
        let mut ds = vec![];
        c.shape.depths(0, &mut ds);
        let si = tr.spend_info();
        let a: Vec<_> = tr.leaves().collect();
        let b: Vec<_> = tr.tap_tree().unwrap().leaves().collect();
        let s: Vec<_> = si.leaves().collect();
        if tr.leaves().len() != c.n { return Err("ExactSizeIterator::len".into()); }
        if a.len() != c.n || b.len() != c.n || s.len() != c.n { return Err("leaf count".into()); }
        for i in 0..c.n {
            if a[i].depth() as usize != ds[i] || b[i].depth() as usize != ds[i] || s[i].depth() as usize != ds[i] { return Err(format!("depth of leaf {}", i)); }
            if a[i].miniscript() != &c.leaves[i] || b[i].miniscript() != &c.leaves[i] || s[i].miniscript() != &c.leaves[i] { return Err(format!("miniscript of leaf {}", i)); }
            let script = c.leaves[i].encode();
            if s[i].script() != script.as_script() || a[i].compute_script() != script { return Err(format!("script of leaf {}", i)); }
            let lh = TapLeafHash::from_script(&script, LeafVersion::TapScript);
            if s[i].leaf_hash() != lh || a[i].compute_tap_leaf_hash() != lh { return Err(format!("leaf hash {}", i)); }
        }
        let rev: Vec<_> = tr.leaves().rev().map(|l| l.depth()).collect();
        let mut fwd: Vec<_> = a.iter().map(|l| l.depth()).collect();
        fwd.reverse();
        if rev != fwd { return Err("next_back".into()); }
        Ok(())
    });
    out.line(&format!("J rustoracle leaf-iters {} {}", shape, v), "ok");
    // (5) to_string -> from_str
    let v = verdict(|| {
        let s = tr.to_string();
        let back = Tr::<Pk>::from_str(&s).map_err(|e| format!("reparse {}", e))?;
        if back != tr { return Err("Tr differs after to_string/from_str".into()); }
        let a: Vec<_> = back.leaves().map(|l| (l.depth(), l.miniscript().clone())).collect();
        let b: Vec<_> = tr.leaves().map(|l| (l.depth(), l.miniscript().clone())).collect();
        if a != b { return Err("leaves differ after round trip".into()); }
        let d = Descriptor::<Pk>::from_str(&s).map_err(|e| format!("reparse desc {}", e))?;
        if d != Descriptor::Tr(tr.clone()) { return Err("Descriptor differs after round trip".into()); }
        if back.spend_info().output_key() != tr.spend_info().output_key() { return Err("output key differs after round trip".into()); }
        Ok(())
    });
    out.line(&format!("J rustoracle string-roundtrip {} {}", shape, v), "ok");
    // (6) translate_pk with a renaming, and back
    let v = verdict(|| {
        let named = tr.translate_pk(&mut ToName(&keys.names)).map_err(|_| "translate failed".to_string())?;
        let want_ik = keys.names.get(&c.internal).unwrap();
        if named.internal_key() != want_ik { return Err("internal key name".into()); }
        let mut ds = vec![];
        c.shape.depths(0, &mut ds);
        let got: Vec<(usize, String)> = named.leaves().map(|l| (l.depth() as usize, l.miniscript().to_string())).collect();
        let want: Vec<(usize, String)> = (0..c.n).map(|i| (ds[i], leaf_text(c.tmpl[i], &format!("K{}", i), i))).collect();
        if got != want { return Err("leaves after renaming".into()); }
        let inv: HashMap<String, Pk> = keys.names.iter().map(|(k, v)| (v.clone(), *k)).collect();
        let back = named.translate_pk(&mut FromName(&inv)).map_err(|_| "translate back failed".to_string())?;
        if back != tr { return Err("translate there and back".into()); }
        Ok(())
    });
    out.line(&format!("J rustoracle translate {} {}", shape, v), "ok");
}

/// shapes of height > 128 must be rejected by both constructors (and nothing may panic)
fn run_too_deep(out: &mut Out, c: &Case) {
    out.count("shapes:too-deep");
    let shape = &c.text;
    let mut ops = String::new();
    c.shape.ops(&mut ops);
    let dtext = desc_text(c);
    let ans = guard(|| match Tr::<Pk>::from_str(&dtext) {
        Ok(tr) => tr.tap_tree().map(|t| depth_ids(t, c)).unwrap_or("NOTREE".into()),
        Err(miniscript::Error::TapTreeDepthError(_)) => "ERR".into(),
        Err(e) => format!("ERR:other:{}", e.to_string().replace(' ', "_")),
    });
    out.line(&format!("C tapbuild {}", ops), &ans);
    let v = verdict(|| match build_combine(&c.shape, c, &mut 0) {
        Err(()) => Ok(()),
        Ok(t) => Err(format!("combine accepted height {} (max depth {})", c.shape.height(),
            t.leaves().map(|l| l.depth()).max().unwrap_or(0))),
    });
    out.line(&format!("J rustoracle reject-too-deep-combine {} {}", shape, v), "ok");
    let v = verdict(|| if ans == "ERR" { Ok(()) } else { Err(format!("from_str gave {}", &ans[..ans.len().min(40)])) });
    out.line(&format!("J rustoracle reject-too-deep-parse {} {}", shape, v), "ok");
    // the last combine, as a correspondence line: find a subtree pair of height exactly 128 + 1
    fn find<'a>(s: &'a Shape) -> Option<(&'a Shape, &'a Shape)> {
        if let Node(l, r) = s {
            if s.height() == 129 { return Some((l, r)); }
            find(l).or_else(|| find(r))
        } else { None }
    }
    if let Some((l, r)) = find(&c.shape) {
        // renumber: build the two subtrees on fresh leaves 0..
        let sub = node(l.clone(), r.clone());
        let n = sub.n_leaves();
        let cc = Case { shape: sub.clone(), text: sub.to_text(), n, leaves: c.leaves[..n].to_vec(), tmpl: c.tmpl[..n].to_vec(),
            internal: c.internal, by_script: c.by_script.clone(), by_ms: c.by_ms.clone() };
        let mut next = 0;
        if let (Ok(lt), Ok(rt)) = (build_combine(l, &cc, &mut next), build_combine(r, &cc, &mut next)) {
            let ans = guard(|| match TapTree::combine(lt.clone(), rt.clone()) { Ok(t) => depth_ids(&t, &cc), Err(_) => "ERR".into() });
            out.line(&format!("C tapcombine {} {}", depth_only(&lt), depth_only(&rt)), &ans);
        }
    }
}

pub fn run(out: &mut Out, thorough: bool, seed: u64) {
    if std::env::var("VERIF_PANIC_VERBOSE").is_err() { std::panic::set_hook(Box::new(|_| {})); }
    let mut rng = Rng(seed ^ 0xC15);
    let mut keys = Keys::new();
    for i in 0..8 { keys.key(IK_BASE + i); }

    // 0. key-only descriptor: output key = tweak with no root
    {
        let ik = keys.key(IK_BASE);
        let v = verdict(|| {
            let tr = Tr::<Pk>::new(ik, None).map_err(|e| e.to_string())?;
            let si = tr.spend_info();
            let (ok, par) = ik.tap_tweak(&keys.secp, None);
            if si.output_key() != ok || si.output_key_parity() != par || si.merkle_root().is_some() { return Err("key-only tweak".into()); }
            if si.leaves().count() != 0 || tr.leaves().count() != 0 || si.to_tap_tree().is_some() { return Err("key-only leaves".into()); }
            let back = Tr::<Pk>::from_str(&tr.to_string()).map_err(|e| e.to_string())?;
            if back != tr { return Err("key-only roundtrip".into()); }
            Ok(())
        });
        out.line(&format!("J rustoracle key-only - {}", v), "ok");
    }

    // 1. ALL shapes with few leaves
    let max_all = if thorough { 10 } else { 8 };
    let mut memo = vec![vec![]];
    let mut n_shapes = 0;
    for n in 1..=max_all {
        for s in all_shapes(n, &mut memo) {
            let c = make_case(s, &mut keys, &mut rng, false);
            run_case(out, &c, &keys, "exhaustive");
            n_shapes += 1;
        }
    }
    // the same shapes again with varied leaf scripts (sampled in quick)
    for n in 1..=(if thorough { 7 } else { 5 }) {
        for s in all_shapes(n, &mut memo) {
            let c = make_case(s, &mut keys, &mut rng, true);
            run_case(out, &c, &keys, "exhaustive-varied-leaves");
        }
    }
    // 2. combs up to depth 128 (left and right), boundary depths always
    let comb_depths: Vec<usize> = if thorough { (1..=128).collect() } else {
        vec![1, 2, 3, 4, 8, 16, 31, 32, 33, 48, 63, 64, 65, 80, 96, 100, 112, 120, 126, 127, 128]
    };
    for &d in &comb_depths {
        for s in [left_comb(d), right_comb(d)] {
            let c = make_case(s, &mut keys, &mut rng, false);
            run_case(out, &c, &keys, "comb");
        }
    }
    // 3. random caterpillars (spine turns left/right at random; optional bushy side trees)
    let n_cat = if thorough { 400 } else { 48 };
    for i in 0..n_cat {
        let d = match i % 4 { 0 => 128, 1 => 127, 2 => 120 + rng.below(9), _ => 2 + rng.below(126) };
        let s = caterpillar(d, &mut rng, i % 2 == 1, 128);
        if s.height() > 128 { continue; }
        let c = make_case(s, &mut keys, &mut rng, i % 3 == 0);
        run_case(out, &c, &keys, "caterpillar");
    }
    // two depth-128 pairs in one tree: both children of the root are 127-deep combs
    for (a, b) in [(left_comb(127), right_comb(127)), (right_comb(127), left_comb(127)), (left_comb(127), left_comb(127)), (right_comb(127), right_comb(126))] {
        let c = make_case(node(a, b), &mut keys, &mut rng, false);
        run_case(out, &c, &keys, "double-comb");
    }
    // 4. random shapes
    let n_rand = if thorough { 1500 } else { 150 };
    let max_leaves = if thorough { 600 } else { 300 };
    for i in 0..n_rand {
        let n = if i % 10 == 0 { 2 + rng.below(max_leaves) } else { 2 + rng.below(40) };
        let s = random_shape(n, &mut rng);
        if s.height() > 128 { out.count("random-skipped-too-deep"); continue; }
        let c = make_case(s, &mut keys, &mut rng, true);
        run_case(out, &c, &keys, "random");
    }
    // 5. too deep: must be rejected
    let mut deep = vec![left_comb(129), right_comb(129), left_comb(130), right_comb(200), node(left_comb(128), Leaf), node(Leaf, right_comb(128)), node(right_comb(128), left_comb(3))];
    for _ in 0..(if thorough { 40 } else { 6 }) { deep.push(caterpillar(129 + rng.below(3), &mut rng, false, 200)); }
    for s in deep {
        let c = make_case(s, &mut keys, &mut rng, false);
        run_too_deep(out, &c);
    }
    out.note("domain", format!("all {} tree shapes with <= {} leaves; left/right combs at depths {:?}; {} random caterpillars to depth 128; {} random shapes up to {} leaves; too-deep shapes (129..200)", n_shapes, max_all, if thorough { vec![1usize, 128] } else { comb_depths.clone() }, n_cat, n_rand, max_leaves));
    out.note("distinct_nontrivial", format!("{}", out.hist.iter().filter(|(k, _)| k.starts_with("shapes:")).map(|(_, v)| *v).sum::<u64>()));
}
